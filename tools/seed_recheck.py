#!/venv/bin/python
"""tools/seed_recheck.py [tag ...] : re-run the checks recorded in seeded/<tag>/meta.json against the seeded change (scratch worktree of /repo HEAD)
and update meta.json: keeps the first verification in 'first_run_caught_by', writes the current result to 'caught_by' / 'checks_run'."""
import glob, json, os, subprocess, sys, tempfile, shutil
ROOT = os.path.dirname(os.path.dirname(os.path.abspath(__file__)))
tags = sys.argv[1:] or [os.path.basename(d) for d in sorted(glob.glob(os.path.join(ROOT, "seeded", "*")))]
for tag in tags:
    d = os.path.join(ROOT, "seeded", tag)
    mp = os.path.join(d, "meta.json")
    if not os.path.exists(mp):
        continue
    meta = json.load(open(mp))
    wt = tempfile.mkdtemp(prefix="sr_%s_" % tag, dir="/tmp")
    os.rmdir(wt)
    subprocess.run(["git", "-C", "/repo", "worktree", "add", "--detach", wt, "HEAD"], stdout=subprocess.DEVNULL, stderr=subprocess.DEVNULL)
    try:
        cp = subprocess.run(["git", "-C", wt, "apply", os.path.join(d, "patch.diff")], stdout=subprocess.PIPE, stderr=subprocess.STDOUT)
        if cp.returncode != 0:
            print(tag, "PATCH NO LONGER APPLIES to /repo HEAD:", cp.stdout.decode()[-200:].replace("\n", " "))
            meta["recheck_note"] = "patch does not apply to the current /repo HEAD any more (a later fix: commit touched the same lines)"
            json.dump(meta, open(mp, "w"), indent=1)
            continue
        if "first_run_caught_by" not in meta:
            meta["first_run_caught_by"] = meta.get("caught_by", [])
        props = list(meta.get("checks_run", {meta.get("property", tag.split("-")[0]): 0}).keys())
        caught = {}
        for p in props:
            e = dict(os.environ, VERIF_REPO=wt, VERIF_EVIDENCE_DIR="/tmp/mut_evidence")
            c = subprocess.run([os.path.join(ROOT, "check"), p, "--tier", "quick"], cwd=ROOT, env=e, stdout=subprocess.PIPE, stderr=subprocess.STDOUT)
            out = c.stdout.decode("utf-8", "replace")
            mechs = [l.split("mechanism=")[1].split()[0] for l in out.splitlines() if "mechanism=" in l]
            caught[p] = {"rc": c.returncode, "mechanisms": mechs[:6]}
        meta["checks_run"] = caught
        meta["caught_by"] = [p for p, v in caught.items() if v["rc"] == 1]
        meta["rechecked_against_repo_commit"] = subprocess.check_output(["git", "-C", "/repo", "rev-parse", "--short", "HEAD"]).decode().strip()
        json.dump(meta, open(mp, "w"), indent=1)
        print(tag, "caught_by", meta["caught_by"], "first", meta["first_run_caught_by"])
    finally:
        subprocess.run(["git", "-C", "/repo", "worktree", "remove", "--force", wt], stdout=subprocess.DEVNULL, stderr=subprocess.DEVNULL)
        shutil.rmtree(wt, ignore_errors=True)
