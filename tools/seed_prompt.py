#!/venv/bin/python
import json, sys
props = {json.loads(l)["id"]: json.loads(l) for l in open("/verif/properties.jsonl")}
pid = sys.argv[1]
A, B = (sys.argv[2], sys.argv[3]) if len(sys.argv) > 3 else ("A", "B")
ROUND3 = """
This is a THIRD round. Two earlier rounds already used: the main routine of the feature and its direct helpers; caches / lazily computed state / a second call on the same object / state shared between objects; less used API variants and optional arguments; signed-vs-unsigned and width slips on indices, offsets and sizes (values >= 0x80, >= 0x8000, negative offsets); empty collections, duplicates and boundary lengths. Find something DIFFERENT in kind: e.g. an interaction between two features that are each fine alone, behaviour that depends on the ORDER of items in the input, error handling that swallows or converts a failure so that a wrong result is returned instead, a condition that is only wrong for a combination of two flags/attributes, a resource/bookkeeping structure updated in one place but not in a sibling place, text formatting/escaping of an unusual value, or a fast path whose precondition is slightly too weak. You may read the earlier rounds' outputs under /tmp/seed/<id>_out/ to avoid repeating them.
"""
ROUND4 = """
This is a FOURTH round. Read the earlier rounds' outputs under /tmp/seed/<id>_out/{A,B,C,D,E,F}/meta.json first (only those; nothing under /verif) and produce changes whose MECHANISM and TRIGGER are both different from all six. Earlier rounds used: the main routine and helpers; caches, second calls, shared state; API variants; signed/unsigned and width slips; empty/duplicate/boundary inputs; interactions of two features; order dependence; swallowed errors; two-flag conditions; sibling bookkeeping; weak fast-path preconditions. Think about what a strong randomized reference-model test of this property would still be unlikely to exercise: values that only differ in a rarely printed attribute, inputs that are legal but that no generator would think of, behaviour after an exception was raised and caught by the caller, large sizes, deep nesting, unusual-but-legal encodings, aliasing between two objects handed out by the API, results that are right as a set but wrong as a sequence (or the reverse), defaults of optional parameters.
"""
ROUND2 = "" if A == "A" else ROUND3 if A == "E" else ROUND4 if A == "G" else """
This is a SECOND round: the obvious sites (the main parsing/decoding routine of the feature, its most direct helper) were already used by an earlier round, so look further: lazily computed or cached state (first call vs second call on the same object, state shared between objects), less used API variants that answer the same question by another route, helper functions shared with other features, paths taken only for unusual-but-legal inputs (empty collections, maximal field values, duplicates, several items where one is usual, particular orders), and interactions of two inputs or two calls.
"""
p = props[pid]
print(f"""You are helping to evaluate a verification tool by planting realistic bugs in a Python project. You work ONLY inside the scratch git clone /tmp/seed/{pid} (a checkout of the project `androguard`, a pure-Python parser for Android DEX/APK/binary-XML/ARSC files with a Dalvik decompiler). Do NOT read, list or use anything under /verif, and do NOT touch /repo. Interpreter: /venv/bin/python. To run code against THIS tree always use `cd /tmp/seed/{pid} && PYTHONPATH=/tmp/seed/{pid} /venv/bin/python ...` and confirm once that `import androguard; print(androguard.__file__)` points into /tmp/seed/{pid}. There is no network.

The property under test (this text is all you get about it):
  TITLE: {p['title']}
  STATEMENT: {p['statement']}
  QUANTIFIED OVER: {p['quantifier']['text']}
  CODE IT LIVES IN: {', '.join(p['anchors']['files'])}

YOUR TASK: produce TWO different, independent changes (call them {A} and {B}) to the androguard source (files under androguard/, never under tests/) such that each change
  1. breaks the property above (some input / sequence of operations / schedule now violates the statement),
  2. still imports and "compiles", and the project's existing test-suite still passes: run the relevant test files with `PYTHONPATH=/tmp/seed/{pid} /venv/bin/python -m pytest -q -p no:cacheprovider tests/<relevant>.py` (tests live in /tmp/seed/{pid}/tests; run them with cwd=/tmp/seed/{pid}); the baseline has these known failures which you may ignore: tests/test_apk.py::APKTest::testAPK, testCustomPermissionProtectionLevel, testFeatures, testFrameworkResAPK, testMultipleLocaleAppName and tests/test_strings.py::StringTest::testMUTF8. If you have time run the whole suite once per change (about 6 minutes: `... -m pytest -q -p no:cacheprovider --timeout=900 tests`),
  3. is REALISTIC (the kind of slip a maintainer could make in a refactoring, optimisation or "simplification": an off-by-one, a wrong mask/shift/sign, a dropped special case, a wrong comparison, a cache keyed too coarsely, a condition reordered, state not reset ...), and
  4. needs something SPECIFIC to manifest - a particular unusual input, value at a boundary, multi-step sequence of operations, particular interleaving, or two cooperating code sites that each look fine alone - i.e. NOT something that ordinary use or the existing tests would expose at once. Prefer subtle over blatant; {A} and {B} should hit different mechanisms / different code sites.
{ROUND2}For each change write, in /tmp/seed/{pid}_out/{A}/ (resp. /{B}/):
  - patch.diff : output of `git -C /tmp/seed/{pid} diff` (must apply with `git apply` to a clean checkout of the same commit),
  - demo.py    : a small self-contained demonstration using only androguard's public API (and the standard library; you may construct input bytes by hand or take files from tests/data) that exits 0 and prints PASS on the UNMODIFIED tree and exits 1 and prints FAIL with the change applied; it must be runnable as `cd <tree> && PYTHONPATH=<tree> /venv/bin/python /tmp/seed/{pid}_out/{A}/demo.py`. Verify both outcomes yourself (save the diff to a file, `git checkout -- .`, later `git apply` the file; do not use `git stash`).
  - meta.json  : {{"property": "{pid}", "summary": "<one line: what the change does>", "needs_to_manifest": "<what specific input/sequence triggers it>", "files_changed": [...], "tests_run": "<command(s)>", "tests_result": "<summary>"}}
After saving {A} run `git -C /tmp/seed/{pid} checkout -- .` and do {B} from the clean tree. Leave the worktree clean (no uncommitted changes) at the end. Do not commit anything.
Final message: for {A} and {B} one paragraph each (what, where, trigger, tests run and result, demo verified on both trees yes/no).""")
