#!/venv/bin/python
"""create scratch worktrees /tmp/seed/<Cxx> of /repo HEAD and print the property text for a sub-agent prompt"""
import json, subprocess, sys, os
props = {json.loads(l)["id"]: json.loads(l) for l in open("/verif/properties.jsonl")}
for pid in sys.argv[1:]:
    wt = "/tmp/seed/%s" % pid
    if not os.path.exists(wt):
        # an independent clone (worktrees of one repository share refs/stash, which made concurrent agents pop each other's stashes)
        subprocess.check_call(["git", "clone", "-q", "/repo", wt], stdout=subprocess.DEVNULL, stderr=subprocess.DEVNULL)
    os.makedirs("/tmp/seed/%s_out" % pid, exist_ok=True)
    p = props[pid]
    print("=== %s\nTITLE: %s\nSTATEMENT: %s\nQUANTIFIER: %s\nFILES: %s\n" % (pid, p["title"], p["statement"], p["quantifier"]["text"], ", ".join(p["anchors"]["files"])))
