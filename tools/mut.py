#!/venv/bin/python
"""Mutant campaign helper (development only, not a registered check).
usage: tools/mut.py <mutants.py> [name-filter]
A mutants file defines MUTANTS = [dict(name=..., file=<path relative to repo>, old=..., new=..., props=[...])].
Each mutant is applied in a scratch git worktree of /repo (outside /repo and /verif), the quick checks of its properties are run with
VERIF_REPO pointing at it, and the worktree is reset. Prints which checks caught it."""
import importlib.util
import os
import subprocess
import sys
import tempfile

ROOT = os.path.dirname(os.path.dirname(os.path.abspath(__file__)))


def sh(cmd, **k):
    return subprocess.run(cmd, shell=True, stdout=subprocess.PIPE, stderr=subprocess.STDOUT, **k)


def main():
    spec = importlib.util.spec_from_file_location("muts", sys.argv[1])
    mod = importlib.util.module_from_spec(spec)
    spec.loader.exec_module(mod)
    flt = sys.argv[2] if len(sys.argv) > 2 else ""
    wt = tempfile.mkdtemp(prefix="mutrepo_", dir="/tmp")
    os.rmdir(wt)
    sh("git -C /repo worktree add --detach %s HEAD" % wt)
    try:
        for m in mod.MUTANTS:
            if flt and flt not in m["name"]:
                continue
            path = os.path.join(wt, m["file"])
            src = open(path).read()
            if src.count(m["old"]) != 1:
                print("%-45s SKIP (pattern occurs %d times)" % (m["name"], src.count(m["old"])))
                continue
            open(path, "w").write(src.replace(m["old"], m["new"]))
            res = []
            for pid in m["props"]:
                env = dict(os.environ, VERIF_REPO=wt, VERIF_EVIDENCE_DIR="/tmp/mut_evidence")
                cp = subprocess.run([os.path.join(ROOT, "check"), pid, "--tier", m.get("tier", "quick")], cwd=ROOT, env=env, stdout=subprocess.PIPE, stderr=subprocess.STDOUT)
                out = cp.stdout.decode("utf-8", "replace")
                mechs = [l.split("mechanism=")[1].split()[0] for l in out.splitlines() if "mechanism=" in l]
                res.append("%s:rc=%d%s" % (pid, cp.returncode, (" " + ",".join(mechs[:3])) if mechs else ""))
            print("%-45s %s" % (m["name"], "  ".join(res)))
            sys.stdout.flush()
            open(path, "w").write(src)
    finally:
        sh("git -C /repo worktree remove --force %s" % wt)


if __name__ == "__main__":
    main()
