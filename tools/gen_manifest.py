#!/venv/bin/python
"""Regenerate MANIFEST.json from the table below + which vf/checks/cNN.py modules exist."""
import json
import os

ROOT = os.path.dirname(os.path.dirname(os.path.abspath(__file__)))

# pid -> (technique, level text, level_note)
CHECKS = {
    "C20": ("reference-model monitor: real dataflow.build_def_use on random graphs of define/use statements (real Graph/StatementBlock, catch edges) and, as a passive wrapper, inside the decompilation of every shipped method; oracle = explicit path search over the instruction-level CFG; the chains of the same graph built a second time; chains rebuilt and compared again after Graph.remove_ins / dead_code_elimination left holes in the numbering of blocks",
            "UD compared as sets per (variable, use) key incl. parameter definitions at -1,-2,..; DU must be the exact inverse.",
            "edges leave from the end of a node (the decompiler's own graph definition); duplicate list entries are not judged"),
    "C21": ("translation check by execution: generated int/long methods -> DEX -> DAD source -> javac -> JVM, every call compared with an independent Dalvik interpreter (cross-checked against the JVM on the generator's own Java rendering); single-subject pools attribute failures, explain-away re-runs attribute random methods; parameter reassignment, exit-goto loop latches, accumulator operand shapes, loop-first and three-level nesting patterns",
            "1075 single-subject methods (every operator x form x operand shape, comparison, two-level nesting, switch shape, declaration pattern) + random pools on boundary and random argument tuples.",
            "11 structural decompiler defects are known findings keyed by mechanism (switch and do-while structuring, division side effects, declarations); residual failures of random methods containing a switch or do-while are one composite known mechanism; argument tuples are sampled, not exhaustive"),
    "C22": ("determinism monitor: every method decompiled in several fresh processes under different PYTHONHASHSEED, junk allocations, gc settings, shuffled order and a hash-perturbation monitor (per-object random __hash__ for decompiler nodes); SHA-256 of the source must agree; site counters show sets with >= 2 elements were iterated; a child that runs process() twice on every DvMethod/DvClass object; Annotation_classes.dex (10k methods) in the corpus; crafted DEX with every pair/triple of access flags; a child that requests ASTs of other methods in between; ONE DecompilerDAD serving several DEX files of one Analysis, asked file by file, in reverse and interleaved",
            "All methods of classes.dex and the small shipped DEX files plus generated methods, 6 (quick) / 12 (thorough) children; an isolation child attributes a difference to the set-iteration site.",
            "hash perturbation over-approximates layouts for hash-ordered containers only; allocator behaviours cannot be enumerated"),
    "C25": ("exhaustive translation check by execution: all 576 two-node and (thorough) all 28 800 three-node condition-chain graphs x every truth assignment, decompiled, compiled by javac, run in a JVM and compared with the interpreter; Condition.__init__ merge counter must be > 0; the same enumeration again over exits that re-join in one return (negated printing)",
            "Quick: all two-node graphs + 3000 sampled three-node graphs; thorough: exhaustive.",
            "javac 17/JVM 17 give the meaning of the printed condition"),
    "C36": ("schedule enumeration against the real code: real processes importing androguard.session are paused at Table.__len__/insert (and table creation) by a cross-process rendez-vous scheduler; ALL interleavings of read/insert for k=2 (6) and k=3 (90) on a fresh and a prepared database; offline oracle over the recorded history; point R = any read of the session table; a database with 1200 sessions; one real-time scenario (a process held 30 s between INSERT and COMMIT)",
            "Extended read/sync/create/insert trees and 16-process stress rounds with seeded sleeps in thorough.",
            "pauses sit between statements executed in separate autocommit transactions (points where the OS can pre-empt the process); watchdog => inconclusive"),
    "C37": ("sys.addaudithook file-creation monitor (realpath at event time) + before/after snapshot of a canary parent around the real export_apps_to_format run in a sandbox on generated DEX files with hostile class and method names; NUL / inner ';' / look-alike dots in names; an earlier export to another directory in the same process",
            "Class names with '..', '.', empty and absolute-looking segments, long segments, backslashes; method names with '/' and '..'; benign controls must create files inside the output directory.",
            "only effective creations count (a failed attempt outside is not a violation); exceptions are acceptable outcomes"),
    "C26": ("reference-model monitor: random XML trees serialised by an independent AXML writer (vf/model/axmlw.py) -> AXMLPrinter.get_xml_obj()/get_xml() compared on tags, namespaces, attributes, typed values, text; pairs of documents converted in one process whose pools hold the same raw bytes in the other encoding",
            "Feature-partitioned pools (UTF-8/UTF-16 pools incl. 2-unit lengths, namespaces incl. re-declarations, every Res_value type, text/mixed content, resource-id maps incl. stripped names, comments); a clean base pool is required.",
            "writer self-checked by an own reader that also parses all shipped AXML files; names are ASCII XML names, values legal XML chars"),
    "C28": ("reference-model monitor: random resource-table models serialised by an independent resources.arsc writer (vf/model/arscw.py) -> every ARSCParser listing and every resource id compared with the model; one caller-built configuration object re-targeted with set_language_and_region between queries",
            "1-2 packages, many types/configs (locales incl. 3-letter/script/variant, density, sdk), plain/complex/compact entries, 32-bit/sparse/16-bit offsets, holes, flags, acyclic references; per-encoding pools.",
            "shapes restricted to what aapt/aapt2 emit; writer read-back parses every shipped resources.arsc"),
    "C29": ("sys.monitoring step budget + RecursionError monitor around get_resolved_res_configs / get_app_name / get_app_icon on generated tables with reference chains and cycles of length 1..5 (plain and through bag items); compact entries and mixtures; every query repeated on the same parser; @null items, package ids 0x01/0x02/0x7e/0x7f, and no value may be reported that no reachable entry stores; tables in which no node has a default-locale variant",
            "Budget calibrated on the acyclic chains of the same run; acyclic chains are also compared exactly; mechanism names carry the cycle length and entry kind.",
            "budget = multiple of the acyclic maximum; any exception other than RecursionError/budget is reported under its own mechanism"),
    "C31": ("reference-model monitor: random manifest models -> axmlw -> zip -> APK(bytes, raw=True); every manifest query compared with the model (multisets where androguard gives no order); queries asked in random order and a second time on the same object; intent-filter children shuffled; component names of 42..130 non-ASCII letters (UTF-8 pool length prefixes of different widths)",
            "Names with/without dots/leading dot, duplicate permissions, maxSdkVersion, four component kinds + aliases, MAIN/LAUNCHER on 0-3 components, enabled=false, SDK attributes present/absent/codename, features, libraries, attributes with and without namespace.",
            "Android's name completion rule; MAIN and LAUNCHER split over two filters is not generated"),
    "C32": ("postcondition contract on APK.get_certificate_der with an independent PKCS#7 verifier (own DER reader + cryptography) over generated v1-signed APKs and single-byte corruptions of .SF / signature + structured alterations; all shipped v1 blocks; get_certificate_der asked with max_sdk_version on both sides of 24; Ed25519/Ed448 signers (key types outside RSA/EC/DSA: a certificate may only be reported if it verifies)",
            "RSA/EC/DSA x SHA-1/256 x signed attributes on/off, 1-2 SignerInfos, extra bag certificates; thorough = every byte of .SF and signature value x 3 values.",
            "keys and DSA/ECDSA signatures use OS randomness (cryptography cannot be seeded); everything else seeded"),
    "C33": ("reference-model monitor: APK Signing Blocks built by vf/model/sigblockw.py (v2/v3/v3.1, unknown ids, padding, duplicates, 1-3 signers, 0-3 digests/signatures) inserted before the central directory -> flags, signers, digests, certificates, SDK bounds, attributes, public keys; 135 shipped blocks compared with an own reader; archives and comments around the 64 KiB end-of-central-directory window; objects built from a path whose file is replaced before the first query",
            "Single-element and multi-element pools; duplicate flag asked first on a fresh object and after other queries.",
            "an empty archive carrying a signing block is not generated"),
    "C34": ("reference-model monitor with python zipfile as second reader: generated archives (stored/deflated, non-ASCII/nested names, 0-5 DEX files and 8 look-alike families) -> get_files/get_file/FileNotPresent/get_dex_names/get_all_dex/is_multidex; every missing-entry request and get_dex() repeated",
            "~40 near-miss absent names per archive; manifests valid/absent/garbage.",
            "zip64, encrypted entries, duplicate names not covered"),
    "C02": ("online monitor on the real linear sweep (checking wrapper per yielded instruction + sys.monitoring step budget) + reference-model comparison on generated valid code and all shipped methods; every yielded length cross-checked against the independent decoder / payload header; a DCode object asked three times about the same hostile bytes; ODEX-format and plain class managers used in turn in one process on every unit aaFF",
            "Valid generated code items (all opcodes incl. 0xFE/0xFF with any register byte, payloads, padding) must be recovered exactly (offsets, lengths, raw bytes, DCode lookups, DEX.disassemble); on random/mutated/crafted buffers every yielded instruction must lie inside the code and round-trip, only InvalidInstruction may be raised, and the sweep must finish within a calibrated step budget; every shipped method is compared with an independent sweep.",
            "trusts vf/model/dalvik.py, vf/model/dexr.py; budget = 100x linear envelope measured on valid code"),
    "C04": ("reference-model monitor: generated static values / annotations with every legal value_arg width at sign boundaries -> EncodedValue API and decompiled initialiser text; big-index pool (indices >= 0x80 / 0x8000), a member-less annotated class, String/Class initialisers of DvClass.get_source; initialised static fields with any combination of visibility / final / volatile / transient / synthetic / enum flags",
            "Every integral type x boundary value x every legal width, chars, booleans, null, string/type/field/method/enum references, nested arrays and annotations.",
            "float/double not in the statement; printed initialiser compared for integral/char/boolean fields"),
    "C08": ("reference-model monitor: determineException / get_tries on generated code items and all shipped methods vs the try table decoded by an independent reader; second Analysis over the same DEX object; contiguous tries sharing one handler list; non-minimal LEB128; handler entries must be exactly [type, addr]; handler lists of 62..130 clauses; DEX files of 150 methods written at 32/64 different 4-byte shifts (I/O buffer windows)",
            "Generated code items with 0-4 try items (typed, catch-all, shared handler lists, odd instruction counts => padding) and all shipped methods with tries.",
            "compared as a multiset of ranges (determineException groups by handler offset)"),
    "C10": ("invariant monitor over real MethodAnalysis basic blocks (contiguity, coverage, instruction slices, required leaders, terminators only last) on generated CFGs and all shipped methods; payloads in front of their instruction, branches leaving the method, contiguous tries, second Analysis over the same DEX object; methods analysed again after their body was replaced through set_instructions()",
            "Oracle from an independent CFG builder over the raw code units; extra splits allowed.",
            "payload area after the code is don't-care for leaders"),
    "C11": ("reference-model monitor: successors/predecessors of every real basic block vs the targets computed from the raw code units (sets), generated CFGs + all shipped methods; payloads in front of their instruction, goto/if/switch-case targets outside the method, an if as last instruction, second Analysis over the same DEX object; methods analysed again after their body was replaced through set_instructions()",
            "Includes branches to offset 0, duplicate switch targets, branches whose both sides coincide, shared payloads.",
            "blocks in the payload area and switches without a well-formed payload are don't-care"),
    "C12": ("reference-model monitor: exception_analysis of every real basic block vs try-range overlap computed from the raw try items, generated CFGs + all shipped methods; handler blocks must be blocks of THIS analysis (second Analysis over the same DEX object), contiguous tries, non-minimal LEB128",
            "Try ranges starting/ending at, before and after leaders, adjacent, with shared handlers; geometric relation (try contains block / block contains try / try ends inside block) in the mechanism.",
            "a block overlapping several try ranges (impossible when every try start is a leader) is counted, not judged"),
    "C13": ("reference-model monitor: xref_to/xref_from/class xrefs/call graph of real Analysis vs the generator's site table, incl. identity of external stubs; interfaces/enums/annotations with code, <clinit>/<init>, payloads in the middle of the code, big-index pool (indices >= 0x8000)",
            "Generated programs with every invoke kind and /range form on internal, external and array-class callees, repeated at several offsets, single and two-DEX analyses.",
            "two known findings (array-class callees) are keyed by mechanism in known_findings.json"),
    "C14": ("reference-model monitor: FieldAnalysis read/write lists, method-side lists and uniqueness of FieldAnalysis per defined field vs the generator's site table; constant-holder classes without methods, get_field_analysis, big-index pool (indices >= 0x8000)",
            "Fields of the same class, other classes and classes in another DEX; duplicates are attributed to the known mechanism only when the count equals 1 + #other accessing classes.",
            "two known findings (xrefs stored on the accessing class) keyed by mechanism; same-class pool must be clean"),
    "C15": ("reference-model monitor: StringAnalysis xrefs and new-instance/const-class lists (class and method side) vs the generator's site table; class names with '-', '$', non-ASCII; self / array-of-self references must not appear; a method named like a string constant renamed before create_xref; big-index pool",
            "const-string and /jumbo with shared values, new-instance/const-class on internal, external, array and primitive-array types.",
            "self-class sites and const-class on [LFoo; are don't-care"),
    "C16": ("metamorphic monitor: canonical analysis dump of every split (set partitions into 2-4 DEX files) x add order vs the single-DEX dump; the pieces of a split analysed on their own (each in an Analysis of its own) before they are analysed together",
            "Every difference must be explained item by item, otherwise VIOLATION.",
            "FieldAnalysis objects of one field are merged in the dump (C14's finding)"),
    "C17": ("history monitor: after every step of a random set_name/reload/query history all item names and const-string operands are compared with a dictionary model; python export switched on in 30% of the histories; lazy binding by index; renames to the empty string; bystander DEX objects of the same bytes parsed before and after the renames keep their names",
            "Histories up to 30 steps biased toward items sharing a name string.",
            "three known findings (string-index hook) keyed by mechanism; any divergence without name-string sharing is a VIOLATION"),
    "C35": ("sys.monitoring step budget around the real parsers (DEX, AXMLPrinter, ARSCParser, APK) on mutated/crafted/truncated inputs; mechanism = innermost running function when the budget ran out; lazily parsed APK Signing Block with one length field changed / bytes after the EOCD record; generated APK seeds for SDK levels 1..40; native-stall probe: 60 name-shaped documents parsed in processes of their own under a confirmed wall-clock limit (loops inside C code are invisible to the step counter); signing blocks whose pair lengths (around 2**63 / 2**64) make the pair walk continue on the same or an earlier pair, budget taken from the same file with its original length",
            "Thousands of hostile inputs per parser per run derived from generated DEX files and every small shipped DEX/AXML/ARSC/APK; budget = 100x the step envelope calibrated on the valid seeds in the same run.",
            "C-level loops are invisible to the counter (watchdog => inconclusive); mild super-linearity can pass"),
    "C40": ("invariant monitor: block boundaries / special_ins keys are instruction offsets; get_special_ins(idx) IS the object at the encoded payload offset and the switch successors come from that same payload (aligned, misaligned, shared payloads); payloads in front of their instruction; encoded offsets at which no instruction starts must not be linked; methods whose start address was moved (set_code_idx) checked against get_instructions_idx of the same method",
            "Generated methods incl. misaligned payloads and shared payloads + all shipped methods.",
            "an encoded offset that is not an instruction start or not a payload of the right kind is invalid code: don't care"),
    "C01": ("reference-model monitor: real dex.get_instruction vs bit-sliced Dalvik decoder; first code unit exhaustive (65536 values), boundary/random remaining units, in-pool index resolution; the three payload pseudo-instructions (signed keys/targets, widths, data, header-derived length of truncated buffers); successive DEX files with other names at the same pool indices, each released and collected before the next is parsed (a class manager at the address of a dead one)",
            "Every opcode x every high byte with boundary and random operand units is decoded by the real code and compared (length, get_raw round trip, mnemonic, registers, sign-extended literals, high16 shifts, branch offsets, unsigned pool indices, resolved pool items); unused opcodes and truncated buffers must raise InvalidInstruction.",
            "trusts vf/model/dalvik.py (table transcribed from the bytecode spec; all 233 mnemonics agree with androguard's names, disagreement would be reported)"),
    "C05": ("reference-model monitor: generated class models -> independent DEX writer -> DEX(); canonical dump and all name/descriptor lookups (incl. near-miss and concatenation-collision keys) compared with the model; regexp name lookups with unanchored names, prefixes and wildcard patterns (oracle re.match); files with more than 32768 type ids (type_list entries beyond 0x7FFF)",
            "Hundreds (quick) / thousands (thorough) of random class models with adversarial identifiers, shared member names, index-diff encoded member lists, code-less methods, DEX 035-039.",
            "trusts vf/model/dexw.py (self-checked output); descriptors compared with spaces removed"),
    "C06": ("reference-model monitor: strings over the full code-point range encoded with an own MUTF-8 encoder, compared as UTF-16 code units via get_strings / get_string(i) / member names / const-string operands; the returned list is modified by the caller and the pool asked again; identifiers of 126..1000 bytes; shards in which items of an unrelated DEX object were renamed before",
            "Random pools incl. U+0000, lone and reversed surrogates, non-BMP, byte lengths around the reader's 128-byte chunk size.",
            "MUTF-8 decoding is delegated by androguard to the third-party mutf8 extension"),
    "C07": ("metamorphic monitor: all permutations of 6- and 7-entry map lists (5760 files) + random permutations of random models; dump must equal the unpermuted file's; MapItem.parse order logged",
            "Exhaustive over the permutations of two tiny files, sampled for larger ones.",
            "trusts that permuting map entries leaves the file otherwise valid (checksum and signature recomputed)"),
    "C09": ("fault enumeration with a parse-counter monitor: every offset >= 12 of 5 small generated DEX files x byte values; wrong magic/endian/header-size with re-fixed checksum; MapList/MapItem.parse counters must stay 0 on rejection; the sweep repeated on the tolerated magic spellings (dey, other version digits); structured wrong endian tags (byte permutations, windows over two tags, single-bit changes)",
            "Every single-byte position of the chosen files is changed (3 values quick, all 255 thorough) and DEX() must raise before any map item is parsed.",
            "version digits of the magic and the ODEX magic are tolerated by design"),
    "C23": ("reference-model monitor: writer.string() on all 65536 BMP code points + random full-range strings, literal decoded by an own JLS 3.3/3.10.7 lexer; thorough adds real javac + JVM printing the code units; const-strings (incl. true/false/null/numbers) through the whole decompiler; second pass over the ASCII specials and a sample after the process has escaped all 1 114 112 code points",
            "Exhaustive over the BMP as one-char strings; random strings with controls, quotes, backslash-u sequences, lone surrogates, supplementary characters.",
            "own JLS lexer (cross-checked against javac in thorough); strings with a lone high surrogate directly followed by a backslash are excluded from the javac oracle (JDK 17 lexer quirk), JLS oracle still decides them"),
    "C03": ("reference-model monitor on direct calls (Leb128.java semantics), exhaustive 1-2 byte sequences + boundary product + random; the bytearray a writer returned is modified in place and the value encoded again (aliasing)",
            "Every 1- and 2-byte sequence exhaustively, boundary products for 3-5 bytes, random sequences and encode->decode of boundary/random 32-bit values are executed against the real functions and compared with an independent Leb128.java model. Held = no divergence on what was executed.",
            "trusts the re-implementation of Leb128.java in vf/checks/c03.py; 5-byte sequences encoding >32 bits are out of domain"),
    "C18": ("reference-model monitor: real Graph.immediate_dominators vs iterative dominator sets, exhaustive graphs n<=4 (quick) / n<=5 (thorough) + random families; edit histories with catch edges between queries; postcondition monitor on Graph.immediate_dominators inside the real decompilation of ~3200 shipped/generated/hand-assembled methods; graphs of 4890..6000 nodes and straight-line chains of 2400..3800 blocks; traversals left before their end in the histories",
            "All adjacency matrices up to n nodes are run through the real Lengauer-Tarjan code (edges split over edges/catch_edges) and compared with the textbook definition; random families to 300 nodes. Exhaustive for small n, sampled beyond.",
            "trusts vf/model/graphs.py (two independent reference algorithms cross-checked on every random graph with n<=30)"),
    "C19": ("invariant monitor on the real Graph.compute_rpo numbering over the same graph families as C18; edit histories with catch edges and node removal between numberings, second numbering of the same graph; postcondition monitor on Graph.compute_rpo inside the real decompilation of ~3200 shipped/generated/hand-assembled methods",
            "Numbering checked for entry==1, permutation of 1..n, every non-retreating edge goes to a higher number (retreating edges must lie on a cycle), every non-entry node has an earlier predecessor.",
            "domain: rooted graphs (all nodes reachable from the entry), as construct() produces"),
    "C24": ("reference-model monitor on direct calls of decompiler.util.get_type / dex.get_type; sized form interleaved with the plain one; DvClass.get_source end to end: class/super/interface/field/parameter/return types, types named in method bodies (cast, instanceof, class constant, new-array, new-instance, static owner), prototypes of methods with code; dex.get_params_info; fields sharing one name with different descriptors, in get_source() and in the get_source_ext() token form",
            "Exhaustive primitives, all 1-3 segment names over a look-alike alphabet, random descriptors incl. arrays to depth 255; accepted spellings are the dotted FQ name or the short name for direct java.lang members.",
            "trusts the 15-line renderer in vf/checks/c24.py"),
    "C27": ("reference-model monitor (TypedValue.complexToFloat / Res_value meanings) on format_value, ARSCResStringPoolRef.format_value, get_resource_dimen/color",
            "Grid over type x radix x unit x mantissa boundaries x sign plus random 32-bit data, printed numbers compared numerically with Android's interpretation.",
            "numeric tolerance rel 1e-5/abs 1e-6; undefined unit codes not generated"),
    "C30": ("reference-model monitor: AOSP packLanguageOrRegion vs real ARSCResTableConfig parse + get_language_and_region + locale= constructor; histories of set/read steps on one object incl. refused (raising) set calls; the same calls from four threads at once on objects of their own (switch interval 1 us, overlap counted)",
            "All 2-letter languages x all [A-Z0-9]^2 regions (sampled per language in quick), all 26^3 packed languages, all 3-digit regions, both directions.",
            "trusts the AOSP packing re-implemented in vf/checks/c30.py"),
    "C38": ("postcondition contract on the real clean_file_name + audit hook (sys.addaudithook) that it creates nothing, in sandbox dirs with colliding files; absolute, relative and root-level (/name) call styles",
            "Thousands of random names (reserved/control/unicode chars, lengths around the 230 limit, long extensions, device names) with pre-created collisions; every result checked against the five portability rules.",
            "control characters = U+0000-U+001F; NUL not generated"),
    "C39": ("exhaustive enumeration of levels -5..100 x {int,str} x loaders against the fallback rule computed from the directory listing; repeated with CONF['DEFAULT_API'] set to other levels; int() spellings of a level for the permission loaders",
            "Finite space enumerated completely on every run; results compared with json.load of the file the documented rule selects.",
            "rule as documented in load_permissions' docstring"),
}


def main():
    checks = []
    for pid in sorted(CHECKS):
        tech, text, note = CHECKS[pid]
        if not os.path.exists(os.path.join(ROOT, "vf", "checks", pid.lower() + ".py")):
            continue
        checks.append({
            "property_id": pid,
            "quick_cmd": "./check %s --tier quick" % pid,
            "thorough_cmd": "./check %s --tier thorough" % pid,
            "evidence_file": "evidence/%s.json" % pid,
            "replay_cmd_template": "./check %s --replay {path}" % pid,
            "engine": "vf",
            "level_claimed": {"category": "exploration", "text": text, "design_ref": "DESIGN.md §5 %s" % pid},
            "level_note": note,
            "technique": "runtime monitoring: " + tech,
        })
    claimed = {c["property_id"] for c in checks}
    na = []
    na_reasons = {}
    nap = os.path.join(ROOT, "tools", "not_applicable.json")
    if os.path.exists(nap):
        na_reasons = json.load(open(nap))
    for line in open(os.path.join(ROOT, "properties.jsonl")):
        pid = json.loads(line)["id"]
        if pid not in claimed:
            na.append({"property_id": pid, "reason": na_reasons.get(pid, "check not built yet in this round (runtime monitoring applies; see DESIGN.md §5) - not claimed until the check exists and is silent on the unchanged tree")})
    m = {
        "version": 1,
        "setup_cmd": "./setup.sh",
        "hooks": {
            "guard": "ANDROGUARD_VERIF",
            "enable": "no build step: checks run /venv/bin/python with PYTHONPATH=/repo so they always execute /repo's working tree; ANDROGUARD_VERIF=1 is exported by ./check (no guarded source hooks are needed so far: all monitors attach from outside)",
            "baseline_off_cmd": "cd /repo && env -u ANDROGUARD_VERIF /venv/bin/python -m pytest -ra -q -p no:cacheprovider --timeout=900 --continue-on-collection-errors",
            "source_commits": [],
            "add_only": True,
        },
        "engines": [{"name": "vf", "path": "vf/", "serves_properties": sorted(claimed),
                     "kind_free_text": "runtime monitoring harness: generated/hostile workloads drive the real androguard code, reference-model monitors, contracts, sys.monitoring step budgets and audit hooks decide"}],
        "checks": checks,
        "notes": "All checks: exit 0 held, exit 1 + VIOLATION line, exit 3 + INCONCLUSIVE line (never on the unchanged tree). VERIF_SEED / VERIF_TIER honoured. known_findings.json lists recorded/fixed defects.",
        "not_applicable": na,
    }
    with open(os.path.join(ROOT, "MANIFEST.json"), "w") as f:
        json.dump(m, f, indent=1)
        f.write("\n")
    print("claimed", len(checks), "not claimed", len(na))


if __name__ == "__main__":
    main()
