#!/venv/bin/python
"""tools/seed_table.py [--full] : Markdown table of seeded changes (seeded/*/meta.json). Default: compact rows for DESIGN.md section 11;
--full: long rows for seeded/TABLE.md"""
import glob, json, os, sys
full = "--full" in sys.argv
rows = []
stats = {}
for d in sorted(glob.glob("/verif/seeded/*")):
    try:
        m = json.load(open(os.path.join(d, "meta.json")))
    except Exception:
        continue
    tag = os.path.basename(d)
    rnd = {"A": 1, "B": 1, "C": 2, "D": 2, "E": 3, "F": 3, "G": 4, "H": 4, "I": 5, "J": 5}[tag[-1]]
    caught = m.get("caught_by") or []
    mechs = []
    for p in caught:
        mechs += ["%s:%s" % (p, x) for x in (m.get("checks_run", {}).get(p, {}).get("mechanisms") or [])[:2]]
    first = m.get("first_run_caught_by")
    missed_first = first is not None and not first
    if m.get("judged_out_of_domain") or tag in ("C19-A", "C31-A"):
        status = "not a violation as stated (see below)"
        key = "out"
    elif m.get("obsolete_on_head"):
        status = "obsolete: does not manifest on the repaired tree (was caught while it did)"
        key = "obsolete"
    elif caught:
        status = ", ".join("`%s`" % x for x in mechs[: (4 if full else 2)]) or "caught"
        key = "caught_after" if missed_first else "caught"
        if missed_first:
            status += " — *missed by the first run*"
    else:
        status = "**not caught**"
        key = "miss"
    st = stats.setdefault(rnd, {})
    st[key] = st.get(key, 0) + 1
    n = 400 if full else 95
    rows.append("| %s | %s | %s | %s |" % (tag, (m.get("summary") or "").replace("|", "/").replace("\n", " ")[:n], (m.get("needs_to_manifest") or "").replace("|", "/").replace("\n", " ")[:n], status))
print("| seed | change | needs | result of the property's quick check (check:mechanism) |\n|---|---|---|---|")
print("\n".join(rows))
print()
for r in sorted(stats):
    print("round %d: %s" % (r, stats[r]))
