#!/venv/bin/python
"""print the Markdown table of seeded changes (seeded/*/meta.json) for DESIGN.md section 11"""
import glob, json, os
rows = []
for d in sorted(glob.glob("/verif/seeded/*")):
    try:
        m = json.load(open(os.path.join(d, "meta.json")))
    except Exception:
        continue
    tag = os.path.basename(d)
    caught = m.get("caught_by") or []
    mechs = []
    for p in caught:
        mechs += ["%s:%s" % (p, x) for x in m["checks_run"][p]["mechanisms"][:2]]
    first = m.get("first_run_caught_by")
    note = ""
    if first is not None and not first:
        note = " (missed at first; caught after the strengthening described in section 9)"
    rows.append("| %s | %s | %s | %s%s |" % (tag, (m.get("summary") or "").replace("|", "/")[:170], (m.get("needs_to_manifest") or "").replace("|", "/")[:150],
                                            ", ".join("`%s`" % x for x in mechs) if mechs else "**not caught**", note))
print("| seed | change | needs | caught by (check:mechanism) |\n|---|---|---|---|")
print("\n".join(rows))
