#!/usr/bin/env python3
"""show /tmp/seed/sv_<Cxx>_<L>.json results compactly: tools/sv_show.py C28:G C28:H ..."""
import json, sys
for a in sys.argv[1:]:
    c, l = a.split(":")
    try:
        d = json.load(open("/tmp/seed/sv_%s_%s.json" % (c, l)))
    except Exception as e:
        print(a, "not ready", type(e).__name__); continue
    print(a, "tests_ok=%s" % d.get("tests_ok"), "demo=%s/%s" % (d.get("demo_clean_rc"), d.get("demo_patched_rc")), "caught_by=%s" % d.get("caught_by"),
          {k: v.get("rc") for k, v in (d.get("checks") or {}).items()})
