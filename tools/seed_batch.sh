#!/bin/bash
# tools/seed_batch.sh C16:C C16:D ... : verify delivered seeds in parallel (results in /tmp/seed/sv_<Cxx>_<X>.json and seeded/<Cxx>-<X>/)
cd "$(dirname "$0")/.."
for a in "$@"; do
  p=${a%%:*}; w=${a##*:}
  ( /venv/bin/python tools/seed_verify.py $p $w --props $p > /tmp/seed/sv_${p}_${w}.json 2>&1 ) &
done
wait
for a in "$@"; do p=${a%%:*}; w=${a##*:}; tail -c 400 /tmp/seed/sv_${p}_${w}.json | tr '\n' ' '; echo; done
