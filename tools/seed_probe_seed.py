#!/venv/bin/python
"""tools/seed_probe_seed.py <VERIF_SEED> <tag...> : is a kept seed also caught by the quick tier under ANOTHER VERIF_SEED? (does not touch meta.json)"""
import json, os, subprocess, sys, tempfile, shutil
ROOT = os.path.dirname(os.path.dirname(os.path.abspath(__file__)))
vs = sys.argv[1]
for tag in sys.argv[2:]:
    d = os.path.join(ROOT, "seeded", tag)
    meta = json.load(open(os.path.join(d, "meta.json")))
    if meta.get("judged_out_of_domain") or meta.get("obsolete_on_head"):
        continue
    wt = tempfile.mkdtemp(prefix="sp_%s_" % tag, dir="/tmp")
    os.rmdir(wt)
    subprocess.run(["git", "-C", "/repo", "worktree", "add", "--detach", wt, "HEAD"], stdout=subprocess.DEVNULL, stderr=subprocess.DEVNULL)
    try:
        if subprocess.run(["git", "-C", wt, "apply", os.path.join(d, "patch.diff")], stdout=subprocess.DEVNULL, stderr=subprocess.DEVNULL).returncode:
            print(tag, "patch does not apply")
            continue
        caught = []
        for p in meta.get("caught_by") or list(meta.get("checks_run", {})):
            e = dict(os.environ, VERIF_REPO=wt, VERIF_EVIDENCE_DIR="/tmp/mut_evidence", VERIF_SEED=vs, PYTHONHASHSEED="0")
            c = subprocess.run([os.path.join(ROOT, "check"), p, "--tier", "quick"], cwd=ROOT, env=e, stdout=subprocess.PIPE, stderr=subprocess.STDOUT)
            if c.returncode == 1:
                caught.append(p)
        print(tag, "seed", vs, "caught_by", caught, flush=True)
    finally:
        subprocess.run(["git", "-C", "/repo", "worktree", "remove", "--force", wt], stdout=subprocess.DEVNULL, stderr=subprocess.DEVNULL)
        shutil.rmtree(wt, ignore_errors=True)
