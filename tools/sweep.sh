#!/bin/bash
# tools/sweep.sh <tier> "<seeds>" [checks...] : run checks, print one line per (check, seed) with exit code and time
tier=$1; seeds=$2; shift 2
checks="$@"
if [ -z "$checks" ]; then checks=$(/venv/bin/python -c "import json;print(' '.join(c['property_id'] for c in json.load(open('MANIFEST.json'))['checks']))"); fi
export VERIF_EVIDENCE_DIR=${VERIF_EVIDENCE_DIR:-/tmp/sweep_evidence}
for s in $seeds; do for c in $checks; do
  t0=$(date +%s)
  out=$(VERIF_SEED=$s ./check $c --tier $tier 2>&1); rc=$?
  t1=$(date +%s)
  echo "$c seed=$s tier=$tier rc=$rc $((t1-t0))s $(echo "$out" | grep -E 'VIOLATION|INCONCLUSIVE' | head -3 | tr '\n' ' ' | cut -c1-300)"
done; done
