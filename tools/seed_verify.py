#!/venv/bin/python
"""tools/seed_verify.py <Cxx> <A|B> [--props C01,C02] [--no-tests] [--tier quick]
Verify a sub-agent's seeded change in a fresh scratch worktree of /repo HEAD (outside /repo and /verif):
 1. demo passes on the clean tree, 2. patch applies, 3. demo fails with the patch, 4. byte-compiles, 5. the existing test-suite still passes
 (failures must be a subset of the baseline's always_fail list), 6. which of our checks catch it.
Writes /verif/seeded/<Cxx>-<A|B>/{patch.diff,demo.py,meta.json} when 1-5 hold (kept) and removes the worktree."""
import json
import os
import re
import shutil
import subprocess
import sys
import tempfile

ROOT = os.path.dirname(os.path.dirname(os.path.abspath(__file__)))
ALWAYS_FAIL = {"testAPK", "testCustomPermissionProtectionLevel", "testFeatures", "testFrameworkResAPK", "testMultipleLocaleAppName", "testMUTF8"}


def run(cmd, cwd=None, env=None, timeout=3600):
    cp = subprocess.run(cmd, cwd=cwd, env=env, stdout=subprocess.PIPE, stderr=subprocess.STDOUT, timeout=timeout, shell=isinstance(cmd, str))
    return cp.returncode, cp.stdout.decode("utf-8", "replace")


def main():
    pid, which = sys.argv[1], sys.argv[2]
    args = sys.argv[3:]
    props = [pid]
    tier = "quick"
    do_tests = True
    for i, a in enumerate(args):
        if a == "--props":
            props = args[i + 1].split(",")
        if a == "--no-tests":
            do_tests = False
        if a == "--tier":
            tier = args[i + 1]
    src = "/tmp/seed/%s_out/%s" % (pid, which)
    tag = "%s-%s" % (pid, which)
    res = {"id": tag, "property": pid}
    if not os.path.exists(os.path.join(src, "patch.diff")):
        print(tag, "NO PATCH")
        return
    wt = tempfile.mkdtemp(prefix="sv_%s_" % tag, dir="/tmp")
    os.rmdir(wt)
    run(["git", "-C", "/repo", "worktree", "add", "--detach", wt, "HEAD"])
    try:
        env = dict(os.environ, PYTHONPATH=wt, PYTHONDONTWRITEBYTECODE="1")
        demo = os.path.join(src, "demo.py")
        rc0, out0 = run(["/venv/bin/python", demo], cwd=wt, env=env, timeout=900)
        res["demo_clean_rc"] = rc0
        rca, outa = run(["git", "-C", wt, "apply", os.path.join(src, "patch.diff")])
        res["patch_applies"] = rca == 0
        if rca != 0:
            res["apply_output"] = outa[-500:]
            print(json.dumps(res))
            return
        rc1, out1 = run(["/venv/bin/python", demo], cwd=wt, env=env, timeout=900)
        res["demo_patched_rc"] = rc1
        res["demo_patched_tail"] = out1[-300:]
        rcc, outc = run(["/venv/bin/python", "-m", "compileall", "-q", os.path.join(wt, "androguard")], cwd=wt, env=dict(os.environ, PYTHONPATH=wt))
        res["compiles"] = rcc == 0
        run("find %s -name __pycache__ -type d -prune -exec rm -rf {} +" % wt)
        if do_tests:
            rct, outt = run(["/venv/bin/python", "-m", "pytest", "-q", "-p", "no:cacheprovider", "--timeout=900", "--continue-on-collection-errors", "tests"], cwd=wt, env=env, timeout=3000)
            failed = set(re.findall(r"^(?:FAILED|ERROR) \S+::(\w+)", outt, re.M))
            res["tests_failed"] = sorted(failed)
            summ = [l for l in outt.splitlines() if re.search(r"\d+ passed", l)]
            res["tests_summary"] = summ[-1].strip() if summ else (outt.strip().splitlines()[-1] if outt.strip() else "")
            mpass = re.search(r"(\d+) passed", res["tests_summary"])
            res["tests_ok"] = failed <= ALWAYS_FAIL and bool(mpass) and int(mpass.group(1)) >= 128
        else:
            res["tests_ok"] = None
        caught = {}
        for p in props:
            e = dict(os.environ, VERIF_REPO=wt, VERIF_EVIDENCE_DIR="/tmp/mut_evidence")
            rc, out = run([os.path.join(ROOT, "check"), p, "--tier", tier], cwd=ROOT, env=e, timeout=3000)
            mechs = [l.split("mechanism=")[1].split()[0] for l in out.splitlines() if "mechanism=" in l]
            caught[p] = {"rc": rc, "mechanisms": mechs[:6]}
        res["checks"] = caught
        res["caught_by"] = [p for p, v in caught.items() if v["rc"] == 1]
        keep = rc0 == 0 and rc1 != 0 and res["compiles"] and res["tests_ok"] in (True, None)
        res["kept"] = bool(keep)
        if keep:
            dst = os.path.join(ROOT, "seeded", tag)
            os.makedirs(dst, exist_ok=True)
            shutil.copy(os.path.join(src, "patch.diff"), dst)
            shutil.copy(demo, dst)
            meta = {}
            try:
                meta = json.load(open(os.path.join(src, "meta.json")))
            except Exception:
                pass
            meta["verified_by_lead"] = {k: res[k] for k in ("demo_clean_rc", "demo_patched_rc", "compiles", "tests_ok", "tests_summary", "tests_failed") if k in res}
            meta["verified_against_repo_commit"] = subprocess.check_output(["git", "-C", "/repo", "rev-parse", "--short", "HEAD"]).decode().strip()
            meta["checks_run"] = caught
            meta["caught_by"] = res["caught_by"]
            json.dump(meta, open(os.path.join(dst, "meta.json"), "w"), indent=1)
        print(json.dumps(res))
    finally:
        run(["git", "-C", "/repo", "worktree", "remove", "--force", wt])
        shutil.rmtree(wt, ignore_errors=True)


if __name__ == "__main__":
    main()
