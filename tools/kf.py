#!/venv/bin/python
"""tools/kf.py fixed|known <pid> <mechanism> <what> : append an entry to known_findings.json (fixed: commit = /repo HEAD)"""
import json, subprocess, sys
status, pid, mech, what = sys.argv[1:5]
d = json.load(open('/verif/known_findings.json'))
e = {"property": pid, "status": status, "mechanism": mech, "what": what}
if status == "fixed":
    c = subprocess.check_output(['git', '-C', '/repo', 'log', '-1', '--format=%h']).decode().strip()
    e["commit"] = c
    e["line"] = "fixed: property=%s %s %s" % (pid, c, what)
else:
    e["line"] = "known: property=%s %s" % (pid, what)
d['findings'].append(e)
json.dump(d, open('/verif/known_findings.json', 'w'), indent=1, ensure_ascii=False)
print(e)
