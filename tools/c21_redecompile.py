#!/venv/bin/python
"""tools/c21_redecompile.py <replay json> [witness index] [repo tree] : decompile the bytecode of a C21 witness again (optionally with another tree)"""
import json, sys
tree = sys.argv[3] if len(sys.argv) > 3 else "/repo"
sys.path[:0] = [tree, "/verif", "/verif/.deps"]
from loguru import logger
logger.remove()
from vf.model import dexw as W
from androguard.core.analysis.analysis import Analysis
from androguard.core.dex import DEX
from androguard.decompiler.decompile import DvMethod
d = json.load(open(sys.argv[1]))
w = d["witnesses"][int(sys.argv[2]) if len(sys.argv) > 2 else 0]
units = [int(x, 16) for x in w["units_hex"].split()]
desc = w["descriptor"]
params = []
i = 1
while desc[i] != ")":
    params.append(desc[i]); i += 1
ret = desc[i + 1:]
m = W.DexModel()
c = m.add_class("Lp/K;")
c.add_method("t", ret, tuple(params), W.ACC_PUBLIC | W.ACC_STATIC, W.Code(w["registers"], w["ins"], 0, units))
dx_ = DEX(W.write_dex(m)); an = Analysis(dx_)
for em in dx_.get_encoded_methods():
    dm = DvMethod(an.get_method(em)); dm.process(); print(dm.get_source())
print("\n".join(w["bytecode"]))
