#!/bin/bash
# tools/try_seed.sh <patch.diff> <check> [tier] : run one check against /repo HEAD + patch in a scratch worktree (removed afterwards)
wt=$(mktemp -d /tmp/try_XXXX); rmdir $wt
git -C /repo worktree add --detach $wt HEAD >/dev/null 2>&1
git -C $wt apply "$(realpath "$1")" || { echo "patch does not apply"; git -C /repo worktree remove --force $wt; exit 2; }
cd "$(dirname "$0")/.."
VERIF_REPO=$wt VERIF_EVIDENCE_DIR=/tmp/mut_evidence ./check $2 --tier ${3:-quick} 2>&1 | grep -v "^KNOWN-FINDING" | cut -c1-400 | tail -${4:-8}
git -C /repo worktree remove --force $wt
