"""./check <Cxx> [--tier quick|thorough] [--replay file]"""
import argparse
import importlib
import os
import sys
import traceback

sys.path.insert(0, os.path.dirname(os.path.dirname(os.path.abspath(__file__))))
from vf import harness  # noqa: E402


def main():
    ap = argparse.ArgumentParser()
    ap.add_argument("pid")
    ap.add_argument("--tier", default=os.environ.get("VERIF_TIER", "quick"), choices=["quick", "thorough"])
    ap.add_argument("--replay", default=None)
    ap.add_argument("--seed", type=int, default=int(os.environ.get("VERIF_SEED", "0") or 0))
    a = ap.parse_args()
    harness.quiet_androguard()
    mod = importlib.import_module("vf.checks.%s" % a.pid.lower())
    ctx = harness.Ctx(a.pid, a.tier, a.seed)
    try:
        if a.replay:
            mod.replay(ctx, a.replay)
        else:
            mod.run(ctx)
    except Exception:
        ctx.inconclusive("harness crashed: " + traceback.format_exc()[-1500:])
    sys.exit(ctx.finish())


if __name__ == "__main__":
    main()
