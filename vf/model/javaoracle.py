"""Java as an oracle: JLS lexical decoding of string literals (own implementation) and real javac + java runs."""
import os
import shutil
import subprocess
import tempfile


class JLSError(Exception):
    pass


def utf16_units(s):
    """python str -> list of UTF-16 code units (lone surrogates kept)"""
    b = s.encode("utf-16-le", "surrogatepass")
    return [b[i] | (b[i + 1] << 8) for i in range(0, len(b), 2)]


def jls_unicode_escapes(units):
    """JLS 3.3: translate \\uXXXX (backslash preceded by an even number of backslashes, one or more 'u') on a list of code units"""
    out = []
    i = 0
    n = len(units)
    bs_run = 0  # number of contiguous backslashes immediately before position i (in the *output* sense per JLS: eligible if even)
    while i < n:
        c = units[i]
        if c == 0x5C:
            if bs_run % 2 == 0 and i + 1 < n and units[i + 1] == 0x75:
                j = i + 1
                while j < n and units[j] == 0x75:
                    j += 1
                hexs = units[j:j + 4]
                if len(hexs) < 4 or any(not (0x30 <= h <= 0x39 or 0x41 <= h <= 0x46 or 0x61 <= h <= 0x66) for h in hexs):
                    raise JLSError("illegal unicode escape")
                out.append(int("".join(chr(h) for h in hexs), 16))
                i = j + 4
                # a \ produced by an escape counts as a backslash that is not eligible to start another unicode escape
                bs_run = bs_run + 1 if out[-1] == 0x5C else 0
                continue
            out.append(c)
            bs_run += 1
            i += 1
        else:
            out.append(c)
            bs_run = 0
            i += 1
    return out


def jls_decode_string_literal(text):
    """text: the literal including both double quotes (python str, may contain any chars).
    -> list of UTF-16 code units the literal denotes; raises JLSError if it is not one well-formed string literal."""
    units = jls_unicode_escapes(utf16_units(text))
    if len(units) < 2 or units[0] != 0x22:
        raise JLSError("does not start with a quote")
    out = []
    i = 1
    n = len(units)
    while True:
        if i >= n:
            raise JLSError("unterminated literal")
        c = units[i]
        if c == 0x22:
            if i != n - 1:
                raise JLSError("characters after the closing quote")
            return out
        if c in (0x0A, 0x0D):
            raise JLSError("line terminator inside literal")
        if c == 0x5C:
            i += 1
            if i >= n:
                raise JLSError("dangling backslash")
            e = units[i]
            simple = {0x62: 8, 0x74: 9, 0x6E: 10, 0x66: 12, 0x72: 13, 0x22: 0x22, 0x27: 0x27, 0x5C: 0x5C, 0x73: 0x20}
            if e in simple:
                out.append(simple[e])
                i += 1
            elif 0x30 <= e <= 0x37:
                # octal escape: \[0-3]?[0-7]?[0-7]
                digits = [e - 0x30]
                maxd = 3 if e <= 0x33 else 2
                i += 1
                while len(digits) < maxd and i < n and 0x30 <= units[i] <= 0x37:
                    digits.append(units[i] - 0x30)
                    i += 1
                v = 0
                for d in digits:
                    v = v * 8 + d
                out.append(v)
            else:
                raise JLSError("illegal escape \\%c" % e)
        else:
            out.append(c)
            i += 1


JAVAC = shutil.which("javac") or "/usr/bin/javac"
JAVA = shutil.which("java") or "/usr/bin/java"


def available():
    return os.path.exists(JAVAC) and os.path.exists(JAVA)


class JavaRun:
    """temp dir with sources; javac then java."""

    def __init__(self):
        self.dir = tempfile.mkdtemp(prefix="vf_java_")

    def write(self, relpath, text, encoding="utf-8", errors="surrogatepass"):
        p = os.path.join(self.dir, relpath)
        os.makedirs(os.path.dirname(p), exist_ok=True)
        with open(p, "w", encoding=encoding, errors=errors, newline="") as f:
            f.write(text)
        return p

    def javac(self, relpaths, timeout=600, extra=()):
        cmd = [JAVAC, "-J-Xss16m", "-J-XX:+UseSerialGC", "-nowarn", "-encoding", "UTF-8", "-Xmaxerrs", "100000", "-proc:none", "-d", os.path.join(self.dir, "out")] + list(extra) + list(relpaths)
        cp = subprocess.run(cmd, cwd=self.dir, stdout=subprocess.PIPE, stderr=subprocess.PIPE, timeout=timeout)
        return cp.returncode, cp.stderr.decode("utf-8", "replace") + cp.stdout.decode("utf-8", "replace")

    def java(self, main, args=(), timeout=600, stdin=None):
        cmd = [JAVA, "-XX:+UseSerialGC", "-Xss16m", "-cp", os.path.join(self.dir, "out"), main] + list(args)
        cp = subprocess.run(cmd, cwd=self.dir, stdout=subprocess.PIPE, stderr=subprocess.PIPE, timeout=timeout, input=stdin)
        return cp.returncode, cp.stdout.decode("utf-8", "replace"), cp.stderr.decode("utf-8", "replace")

    def close(self):
        shutil.rmtree(self.dir, ignore_errors=True)

    def __enter__(self):
        return self

    def __exit__(self, *a):
        self.close()
