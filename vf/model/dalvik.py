"""Dalvik bytecode reference: opcode table, instruction formats, decoder and encoder on 16-bit code units.
Written from the "Dalvik bytecode" and "Dalvik executable instruction formats" pages; shares no code with androguard.
Fields are extracted by bit slicing on code units (no struct format strings)."""

# format -> number of 16-bit code units
FORMAT_UNITS = {
    "10x": 1, "12x": 1, "11n": 1, "11x": 1, "10t": 1,
    "20t": 2, "22x": 2, "21t": 2, "21s": 2, "21h": 2, "21c": 2, "23x": 2, "22b": 2, "22t": 2, "22s": 2, "22c": 2,
    "30t": 3, "32x": 3, "31i": 3, "31t": 3, "31c": 3, "35c": 3, "3rc": 3,
    "45cc": 4, "4rcc": 4, "51l": 5,
}

OPCODES = {}  # op -> (mnemonic, format, index kind or None)


def _def(op, name, fmt, kind=None):
    assert op not in OPCODES
    OPCODES[op] = (name, fmt, kind)


def _build():
    _def(0x00, "nop", "10x")
    _def(0x01, "move", "12x")
    _def(0x02, "move/from16", "22x")
    _def(0x03, "move/16", "32x")
    _def(0x04, "move-wide", "12x")
    _def(0x05, "move-wide/from16", "22x")
    _def(0x06, "move-wide/16", "32x")
    _def(0x07, "move-object", "12x")
    _def(0x08, "move-object/from16", "22x")
    _def(0x09, "move-object/16", "32x")
    _def(0x0A, "move-result", "11x")
    _def(0x0B, "move-result-wide", "11x")
    _def(0x0C, "move-result-object", "11x")
    _def(0x0D, "move-exception", "11x")
    _def(0x0E, "return-void", "10x")
    _def(0x0F, "return", "11x")
    _def(0x10, "return-wide", "11x")
    _def(0x11, "return-object", "11x")
    _def(0x12, "const/4", "11n")
    _def(0x13, "const/16", "21s")
    _def(0x14, "const", "31i")
    _def(0x15, "const/high16", "21h")
    _def(0x16, "const-wide/16", "21s")
    _def(0x17, "const-wide/32", "31i")
    _def(0x18, "const-wide", "51l")
    _def(0x19, "const-wide/high16", "21h")
    _def(0x1A, "const-string", "21c", "string")
    _def(0x1B, "const-string/jumbo", "31c", "string")
    _def(0x1C, "const-class", "21c", "type")
    _def(0x1D, "monitor-enter", "11x")
    _def(0x1E, "monitor-exit", "11x")
    _def(0x1F, "check-cast", "21c", "type")
    _def(0x20, "instance-of", "22c", "type")
    _def(0x21, "array-length", "12x")
    _def(0x22, "new-instance", "21c", "type")
    _def(0x23, "new-array", "22c", "type")
    _def(0x24, "filled-new-array", "35c", "type")
    _def(0x25, "filled-new-array/range", "3rc", "type")
    _def(0x26, "fill-array-data", "31t")
    _def(0x27, "throw", "11x")
    _def(0x28, "goto", "10t")
    _def(0x29, "goto/16", "20t")
    _def(0x2A, "goto/32", "30t")
    _def(0x2B, "packed-switch", "31t")
    _def(0x2C, "sparse-switch", "31t")
    for i, n in enumerate(["cmpl-float", "cmpg-float", "cmpl-double", "cmpg-double", "cmp-long"]):
        _def(0x2D + i, n, "23x")
    for i, n in enumerate(["if-eq", "if-ne", "if-lt", "if-ge", "if-gt", "if-le"]):
        _def(0x32 + i, n, "22t")
    for i, n in enumerate(["if-eqz", "if-nez", "if-ltz", "if-gez", "if-gtz", "if-lez"]):
        _def(0x38 + i, n, "21t")
    sfx = ["", "-wide", "-object", "-boolean", "-byte", "-char", "-short"]
    for i, s in enumerate(sfx):
        _def(0x44 + i, "aget" + s, "23x")
        _def(0x4B + i, "aput" + s, "23x")
        _def(0x52 + i, "iget" + s, "22c", "field")
        _def(0x59 + i, "iput" + s, "22c", "field")
        _def(0x60 + i, "sget" + s, "21c", "field")
        _def(0x67 + i, "sput" + s, "21c", "field")
    for i, n in enumerate(["virtual", "super", "direct", "static", "interface"]):
        _def(0x6E + i, "invoke-" + n, "35c", "method")
        _def(0x74 + i, "invoke-" + n + "/range", "3rc", "method")
    un = ["neg-int", "not-int", "neg-long", "not-long", "neg-float", "neg-double", "int-to-long", "int-to-float", "int-to-double",
          "long-to-int", "long-to-float", "long-to-double", "float-to-int", "float-to-long", "float-to-double", "double-to-int",
          "double-to-long", "double-to-float", "int-to-byte", "int-to-char", "int-to-short"]
    for i, n in enumerate(un):
        _def(0x7B + i, n, "12x")
    ib = ["add", "sub", "mul", "div", "rem", "and", "or", "xor", "shl", "shr", "ushr"]
    fb = ["add", "sub", "mul", "div", "rem"]
    binops = [b + "-int" for b in ib] + [b + "-long" for b in ib] + [b + "-float" for b in fb] + [b + "-double" for b in fb]
    assert len(binops) == 32
    for i, n in enumerate(binops):
        _def(0x90 + i, n, "23x")
        _def(0xB0 + i, n + "/2addr", "12x")
    for i, n in enumerate(["add-int/lit16", "rsub-int", "mul-int/lit16", "div-int/lit16", "rem-int/lit16", "and-int/lit16", "or-int/lit16", "xor-int/lit16"]):
        _def(0xD0 + i, n, "22s")
    for i, n in enumerate(["add-int/lit8", "rsub-int/lit8", "mul-int/lit8", "div-int/lit8", "rem-int/lit8", "and-int/lit8", "or-int/lit8", "xor-int/lit8",
                           "shl-int/lit8", "shr-int/lit8", "ushr-int/lit8"]):
        _def(0xD8 + i, n, "22b")
    _def(0xFA, "invoke-polymorphic", "45cc", "method+proto")
    _def(0xFB, "invoke-polymorphic/range", "4rcc", "method+proto")
    _def(0xFC, "invoke-custom", "35c", "call_site")
    _def(0xFD, "invoke-custom/range", "3rc", "call_site")
    _def(0xFE, "const-method-handle", "21c", "method_handle")
    _def(0xFF, "const-method-type", "21c", "proto")


_build()
UNUSED = sorted(set(range(256)) - set(OPCODES))
assert UNUSED == list(range(0x3E, 0x44)) + [0x73, 0x79, 0x7A] + list(range(0xE3, 0xFA)), UNUSED
NAME2OP = {v[0]: k for k, v in OPCODES.items()}

PAYLOAD_PACKED, PAYLOAD_SPARSE, PAYLOAD_ARRAY = 0x0100, 0x0200, 0x0300

BRANCH_FORMATS = ("10t", "20t", "30t", "21t", "22t", "31t")


def sx(v, bits):
    v &= (1 << bits) - 1
    return v - (1 << bits) if v >> (bits - 1) else v


class Decoded:
    __slots__ = ("op", "name", "fmt", "kind", "units", "regs", "literal", "offset", "index", "index2", "must_be_zero", "count")

    def __repr__(self):
        return "<%s %s regs=%s lit=%s off=%s idx=%s>" % (self.name, self.fmt, self.regs, self.literal, self.offset, self.index)


def decode(u):
    """u: list of code units (ints). -> Decoded, or None if the opcode is unused. Raises IndexError if truncated."""
    op = u[0] & 0xFF
    if op not in OPCODES:
        return None
    name, fmt, kind = OPCODES[op]
    n = FORMAT_UNITS[fmt]
    if len(u) < n:
        raise IndexError("truncated")
    d = Decoded()
    d.op, d.name, d.fmt, d.kind, d.units = op, name, fmt, kind, n
    d.regs, d.literal, d.offset, d.index, d.index2, d.must_be_zero, d.count = [], None, None, None, None, 0, None
    hi = u[0] >> 8
    A4, B4 = hi & 0xF, hi >> 4
    if fmt == "10x":
        d.must_be_zero = hi
    elif fmt == "12x":
        d.regs = [A4, B4]
    elif fmt == "11n":
        d.regs = [A4]
        d.literal = sx(B4, 4)
    elif fmt == "11x":
        d.regs = [hi]
    elif fmt == "10t":
        d.offset = sx(hi, 8)
    elif fmt == "20t":
        d.must_be_zero = hi
        d.offset = sx(u[1], 16)
    elif fmt == "22x":
        d.regs = [hi, u[1]]
    elif fmt == "21t":
        d.regs = [hi]
        d.offset = sx(u[1], 16)
    elif fmt == "21s":
        d.regs = [hi]
        d.literal = sx(u[1], 16)
    elif fmt == "21h":
        d.regs = [hi]
        if op == 0x15:
            d.literal = sx(u[1] << 16, 32)
        else:
            d.literal = sx(u[1] << 48, 64)
    elif fmt == "21c":
        d.regs = [hi]
        d.index = u[1]
    elif fmt == "23x":
        d.regs = [hi, u[1] & 0xFF, u[1] >> 8]
    elif fmt == "22b":
        d.regs = [hi, u[1] & 0xFF]
        d.literal = sx(u[1] >> 8, 8)
    elif fmt == "22t":
        d.regs = [A4, B4]
        d.offset = sx(u[1], 16)
    elif fmt == "22s":
        d.regs = [A4, B4]
        d.literal = sx(u[1], 16)
    elif fmt == "22c":
        d.regs = [A4, B4]
        d.index = u[1]
    elif fmt == "30t":
        d.must_be_zero = hi
        d.offset = sx(u[1] | (u[2] << 16), 32)
    elif fmt == "32x":
        d.must_be_zero = hi
        d.regs = [u[1], u[2]]
    elif fmt == "31i":
        d.regs = [hi]
        d.literal = sx(u[1] | (u[2] << 16), 32)
    elif fmt == "31t":
        d.regs = [hi]
        d.offset = sx(u[1] | (u[2] << 16), 32)
    elif fmt == "31c":
        d.regs = [hi]
        d.index = u[1] | (u[2] << 16)
    elif fmt in ("35c", "45cc"):
        cnt, G = B4, A4
        C, D, E, F = u[2] & 0xF, (u[2] >> 4) & 0xF, (u[2] >> 8) & 0xF, u[2] >> 12
        d.count = cnt
        d.regs = [C, D, E, F, G][:cnt] if cnt <= 5 else None
        d.index = u[1]
        if fmt == "45cc":
            d.index2 = u[3]
    elif fmt in ("3rc", "4rcc"):
        d.count = hi
        d.regs = list(range(u[2], u[2] + hi))
        d.index = u[1]
        if fmt == "4rcc":
            d.index2 = u[3]
    elif fmt == "51l":
        d.regs = [hi]
        d.literal = sx(u[1] | (u[2] << 16) | (u[3] << 32) | (u[4] << 48), 64)
    else:
        raise AssertionError(fmt)
    return d


# ---------------------------------------------------------------------------------------------------
# encoder (used by the generators).  Every function returns a list of code units.
def _u16(v):
    return v & 0xFFFF


def enc(name, *a):
    """enc("const/4", vA, lit) etc. Argument order: registers..., then literal / offset / index (and index2)."""
    op = NAME2OP[name] if isinstance(name, str) else name
    fmt = OPCODES[op][1]
    if fmt == "10x":
        return [op]
    if fmt == "12x":
        A, B = a
        assert 0 <= A < 16 and 0 <= B < 16
        return [op | (A << 8) | (B << 12)]
    if fmt == "11n":
        A, lit = a
        assert 0 <= A < 16 and -8 <= lit < 8
        return [op | (A << 8) | ((lit & 0xF) << 12)]
    if fmt == "11x":
        (AA,) = a
        assert 0 <= AA < 256
        return [op | (AA << 8)]
    if fmt == "10t":
        (off,) = a
        assert -128 <= off < 128
        return [op | ((off & 0xFF) << 8)]
    if fmt == "20t":
        (off,) = a
        assert -32768 <= off < 32768
        return [op, _u16(off)]
    if fmt == "22x":
        AA, BBBB = a
        return [op | (AA << 8), _u16(BBBB)]
    if fmt in ("21t", "21s"):
        AA, v = a
        assert -32768 <= v < 32768 and 0 <= AA < 256
        return [op | (AA << 8), _u16(v)]
    if fmt == "21h":
        AA, v16 = a  # v16: the raw 16-bit field
        return [op | (AA << 8), _u16(v16)]
    if fmt == "21c":
        AA, idx = a
        assert 0 <= idx < 65536 and 0 <= AA < 256
        return [op | (AA << 8), idx]
    if fmt == "23x":
        AA, BB, CC = a
        assert all(0 <= x < 256 for x in a)
        return [op | (AA << 8), BB | (CC << 8)]
    if fmt == "22b":
        AA, BB, lit = a
        assert -128 <= lit < 128
        return [op | (AA << 8), BB | ((lit & 0xFF) << 8)]
    if fmt in ("22t", "22s", "22c"):
        A, B, v = a
        assert 0 <= A < 16 and 0 <= B < 16
        if fmt == "22c":
            assert 0 <= v < 65536
        else:
            assert -32768 <= v < 32768
        return [op | (A << 8) | (B << 12), _u16(v)]
    if fmt == "30t":
        (off,) = a
        return [op, _u16(off), _u16(off >> 16)]
    if fmt == "32x":
        A, B = a
        return [op, _u16(A), _u16(B)]
    if fmt in ("31i", "31t", "31c"):
        AA, v = a
        return [op | (AA << 8), _u16(v), _u16(v >> 16)]
    if fmt in ("35c", "45cc"):
        regs, idx = a[0], a[1]
        assert len(regs) <= 5 and all(0 <= r < 16 for r in regs)
        r = list(regs) + [0] * (5 - len(regs))
        out = [op | (r[4] << 8) | (len(regs) << 12), idx, r[0] | (r[1] << 4) | (r[2] << 8) | (r[3] << 12)]
        if fmt == "45cc":
            out.append(a[2])
        return out
    if fmt in ("3rc", "4rcc"):
        first, count, idx = a[0], a[1], a[2]
        assert 0 <= count < 256
        out = [op | (count << 8), idx, _u16(first)]
        if fmt == "4rcc":
            out.append(a[3])
        return out
    if fmt == "51l":
        AA, v = a
        return [op | (AA << 8), _u16(v), _u16(v >> 16), _u16(v >> 32), _u16(v >> 48)]
    raise AssertionError(fmt)


def packed_switch_payload(first_key, targets):
    out = [PAYLOAD_PACKED, len(targets), _u16(first_key), _u16(first_key >> 16)]
    for t in targets:
        out += [_u16(t), _u16(t >> 16)]
    return out


def sparse_switch_payload(keys, targets):
    assert len(keys) == len(targets)
    out = [PAYLOAD_SPARSE, len(keys)]
    for k in keys:
        out += [_u16(k), _u16(k >> 16)]
    for t in targets:
        out += [_u16(t), _u16(t >> 16)]
    return out


def fill_array_payload(width, data_bytes):
    assert len(data_bytes) % width == 0
    n = len(data_bytes) // width
    out = [PAYLOAD_ARRAY, width, _u16(n), _u16(n >> 16)]
    b = bytes(data_bytes) + (b"\0" if len(data_bytes) % 2 else b"")
    for i in range(0, len(b), 2):
        out.append(b[i] | (b[i + 1] << 8))
    return out


def payload_units(u):
    """number of code units of the payload pseudo-instruction starting at u[0] (u: sequence of units), or None"""
    ident = u[0]
    if ident == PAYLOAD_PACKED:
        return u[1] * 2 + 4
    if ident == PAYLOAD_SPARSE:
        return u[1] * 4 + 2
    if ident == PAYLOAD_ARRAY:
        width = u[1]
        size = u[2] | (u[3] << 16)
        return (size * width + 1) // 2 + 4
    return None


def units_to_bytes(units):
    out = bytearray()
    for x in units:
        out.append(x & 0xFF)
        out.append((x >> 8) & 0xFF)
    return bytes(out)


def bytes_to_units(b):
    return [b[i] | (b[i + 1] << 8) for i in range(0, len(b) - 1, 2)]


def sweep(units):
    """reference linear sweep over valid code: -> list of (unit offset, n units, Decoded or ("payload", ident))"""
    out = []
    i = 0
    n = len(units)
    while i < n:
        u0 = units[i]
        if (u0 & 0xFF) == 0 and u0 in (PAYLOAD_PACKED, PAYLOAD_SPARSE, PAYLOAD_ARRAY):
            k = payload_units(units[i:i + 4] + [0, 0, 0])
            out.append((i, k, ("payload", u0)))
            i += k
            continue
        d = decode(units[i:i + 5])
        if d is None:
            raise ValueError("unused opcode 0x%02x at %d" % (u0 & 0xFF, i))
        out.append((i, d.units, d))
        i += d.units
    return out
