"""Textbook graph algorithms on bitmask adjacency (independent of androguard)."""


def reach_from(adj, s):
    seen = 1 << s
    stack = [s]
    while stack:
        u = stack.pop()
        m = adj[u] & ~seen
        while m:
            b = m & -m
            v = b.bit_length() - 1
            seen |= b
            stack.append(v)
            m ^= b
    return seen


def dominator_sets(adj, root=0):
    """iterative data-flow: dom[v] = {v} | AND dom[p] over preds p (only reachable nodes). -> list of bitmasks (0 for unreachable)"""
    n = len(adj)
    reach = reach_from(adj, root)
    preds = [0] * n
    for u in range(n):
        if not (reach >> u) & 1:
            continue
        m = adj[u]
        while m:
            b = m & -m
            preds[b.bit_length() - 1] |= 1 << u
            m ^= b
    full = reach
    dom = [full if (reach >> v) & 1 else 0 for v in range(n)]
    dom[root] = 1 << root
    changed = True
    while changed:
        changed = False
        for v in range(n):
            if v == root or not (reach >> v) & 1:
                continue
            new = full
            m = preds[v]
            while m:
                b = m & -m
                new &= dom[b.bit_length() - 1]
                m ^= b
            new |= 1 << v
            if new != dom[v]:
                dom[v] = new
                changed = True
    return dom, reach


def idoms(adj, root=0):
    """-> dict v -> idom (None for root); only reachable nodes"""
    dom, reach = dominator_sets(adj, root)
    out = {}
    n = len(adj)
    for v in range(n):
        if not (reach >> v) & 1:
            continue
        if v == root:
            out[v] = None
            continue
        strict = dom[v] & ~(1 << v)
        # idom = the strict dominator that is dominated by all other strict dominators = the one with the largest dom set
        best = None
        m = strict
        while m:
            b = m & -m
            d = b.bit_length() - 1
            # d is the immediate dominator iff every strict dominator of v dominates d
            if strict & ~dom[d] == 0:
                best = d
            m ^= b
        out[v] = best
    return out


def idoms_big(succ, root):
    """dominators for big graphs given as dict node -> list of successors, via networkx-free
    simple algorithm (Cooper-Harvey-Kennedy).  Independent of androguard."""
    # DFS postorder (iterative)
    order = []
    seen = {root}
    stack = [(root, iter(succ.get(root, ())))]
    while stack:
        u, it = stack[-1]
        for v in it:
            if v not in seen:
                seen.add(v)
                stack.append((v, iter(succ.get(v, ()))))
                break
        else:
            order.append(u)
            stack.pop()
    po = {u: i for i, u in enumerate(order)}
    preds = {}
    for u in seen:
        for v in succ.get(u, ()):
            preds.setdefault(v, []).append(u)
    idom = {root: root}
    changed = True
    rpo = order[::-1]
    while changed:
        changed = False
        for b in rpo:
            if b == root:
                continue
            new = None
            for p in preds.get(b, ()):
                if p in idom:
                    if new is None:
                        new = p
                    else:
                        f1, f2 = p, new
                        while f1 != f2:
                            while po[f1] < po[f2]:
                                f1 = idom[f1]
                            while po[f2] < po[f1]:
                                f2 = idom[f2]
                        new = f1
            if idom.get(b) != new:
                idom[b] = new
                changed = True
    out = {u: (None if u == root else idom[u]) for u in seen}
    return out


def reach_sets_big(succ, nodes):
    """node -> set of nodes reachable (>=1 step) ; for moderate sizes only"""
    out = {}
    for s in nodes:
        seen = set()
        stack = list(succ.get(s, ()))
        while stack:
            u = stack.pop()
            if u in seen:
                continue
            seen.add(u)
            stack.extend(succ.get(u, ()))
        out[s] = seen
    return out
