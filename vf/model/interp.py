"""Independent Dalvik interpreter for the int/long subset, written from the "Dalvik bytecode" page. Never imports androguard.

Operates on the list of 16-bit code units of one method (decoded with vf.model.dalvik.decode).
Registers hold raw 32-bit patterns; a wide value occupies the pair (vN = low word, vN+1 = high word), exactly as
on the VM, so an ill-formed generator (half of a pair overwritten) shows up as a wrong value instead of being hidden.

run(units, registers, ins, args, arg_types, step_cap) ->
    ("ret", value)                 signed python int (32-bit for `return`, 64-bit for `return-wide`)
    ("exc", "ArithmeticException") integer division or remainder by zero
    ("cap",)                       step cap reached (the caller discards the case)
    ("error", text)                the code left the supported subset / ran off the method (harness bug)
"""
from vf.model import dalvik as D

M32 = 0xFFFFFFFF
M64 = 0xFFFFFFFFFFFFFFFF


def s32(v):
    v &= M32
    return v - (1 << 32) if v & 0x80000000 else v


def s64(v):
    v &= M64
    return v - (1 << 64) if v & (1 << 63) else v


def jdiv(a, b):
    """Java/Dalvik division: truncates toward zero (operands signed python ints, b != 0)"""
    q = abs(a) // abs(b)
    return -q if (a < 0) != (b < 0) else q


def jrem(a, b):
    """remainder with the sign of the dividend: a - (a / b) * b"""
    return a - jdiv(a, b) * b


class Unsupported(Exception):
    pass


class ArithmeticExc(Exception):
    pass


def binop(name, a, b, wide):
    """name: add|sub|mul|div|rem|and|or|xor|shl|shr|ushr ; a, b signed ints; for shifts b is the (int) shift count.
    -> signed result of the proper width"""
    bits = 64 if wide else 32
    sx = s64 if wide else s32
    mask = M64 if wide else M32
    if name == "add":
        return sx(a + b)
    if name == "sub":
        return sx(a - b)
    if name == "mul":
        return sx(a * b)
    if name == "div":
        if b == 0:
            raise ArithmeticExc()
        return sx(jdiv(a, b))  # MIN / -1 = -MIN wraps back to MIN
    if name == "rem":
        if b == 0:
            raise ArithmeticExc()
        return sx(jrem(a, b))
    if name == "and":
        return sx(a & b)
    if name == "or":
        return sx(a | b)
    if name == "xor":
        return sx(a ^ b)
    cnt = b & (bits - 1)
    if name == "shl":
        return sx(a << cnt)
    if name == "shr":
        return sx(a >> cnt)  # python >> on a signed int is arithmetic
    if name == "ushr":
        return sx((a & mask) >> cnt)
    raise Unsupported(name)


IF_TESTS = {
    "eq": lambda a, b: a == b, "ne": lambda a, b: a != b, "lt": lambda a, b: a < b,
    "ge": lambda a, b: a >= b, "gt": lambda a, b: a > b, "le": lambda a, b: a <= b,
}

INT_BIN = ("add", "sub", "mul", "div", "rem", "and", "or", "xor", "shl", "shr", "ushr")


class Machine:
    def __init__(self, units, registers, cache=None):
        self.u = units
        self.r = [0] * registers
        self.steps = 0
        self.cache = {} if cache is None else cache  # pc -> Decoded (decoding is pure, so it can be shared between runs)

    # register access ---------------------------------------------------------------------------
    def gi(self, n):
        return s32(self.r[n])

    def si(self, n, v):
        self.r[n] = v & M32

    def gw(self, n):
        return s64(self.r[n] | (self.r[n + 1] << 32))

    def sw(self, n, v):
        v &= M64
        self.r[n] = v & M32
        self.r[n + 1] = v >> 32


class Program:
    """one method: code units + frame shape; keeps the decode cache between runs"""

    def __init__(self, units, registers, ins, arg_types):
        self.units, self.registers, self.ins, self.arg_types = list(units), registers, ins, arg_types
        self.cache = {}
        self.max_steps = 0

    def run(self, args, step_cap=20000):
        r = run(self.units, self.registers, self.ins, args, self.arg_types, step_cap, self.cache, self)
        return r


def run(units, registers, ins, args, arg_types, step_cap=20000, cache=None, prog=None):
    """args: python ints (already in range for their type); arg_types: 'I' or 'J' per arg. Params live in the LAST `ins` registers."""
    m = Machine(units, registers, cache)
    n = registers - ins
    for a, t in zip(args, arg_types):
        if t == "J":
            m.sw(n, a)
            n += 2
        else:
            m.si(n, a)
            n += 1
    if n != registers:
        return ("error", "ins size does not match the argument types")
    try:
        return _loop(m, step_cap)
    except ArithmeticExc:
        return ("exc", "ArithmeticException")
    except Unsupported as e:
        return ("error", "unsupported: %s" % e)
    except IndexError as e:
        return ("error", "ran outside the method or register file: %s" % e)
    finally:
        if prog is not None and m.steps > prog.max_steps:
            prog.max_steps = m.steps


def _loop(m, step_cap):
    u = m.u
    pc = 0
    nunits = len(u)
    while True:
        m.steps += 1
        if m.steps > step_cap:
            return ("cap",)
        if not (0 <= pc < nunits):
            return ("error", "pc %d outside the method" % pc)
        d = m.cache.get(pc)
        if d is None:
            d = D.decode(u[pc:pc + 5])
            if d is None:
                return ("error", "unused opcode at %d" % pc)
            m.cache[pc] = d
        name = d.name
        nxt = pc + d.units
        R = d.regs
        # ---- nop / moves -------------------------------------------------------------------------
        if name == "nop":
            pass
        elif name in ("move", "move/from16", "move/16"):
            m.si(R[0], m.gi(R[1]))
        elif name in ("move-wide", "move-wide/from16", "move-wide/16"):
            m.sw(R[0], m.gw(R[1]))
        # ---- returns -----------------------------------------------------------------------------
        elif name == "return":
            return ("ret", m.gi(R[0]))
        elif name == "return-wide":
            return ("ret", m.gw(R[0]))
        # ---- constants ---------------------------------------------------------------------------
        elif name in ("const/4", "const/16", "const", "const/high16"):
            m.si(R[0], d.literal)
        elif name in ("const-wide/16", "const-wide/32", "const-wide", "const-wide/high16"):
            m.sw(R[0], d.literal)  # decode() sign-extends 16/32-bit literals; python ints then widen to 64 bits
        # ---- gotos -------------------------------------------------------------------------------
        elif name in ("goto", "goto/16", "goto/32"):
            nxt = pc + d.offset
        # ---- switches ----------------------------------------------------------------------------
        elif name == "packed-switch":
            p = pc + d.offset
            if u[p] != D.PAYLOAD_PACKED:
                return ("error", "packed-switch payload ident")
            size = u[p + 1]
            first = s32(u[p + 2] | (u[p + 3] << 16))
            idx = m.gi(R[0]) - first
            if 0 <= idx < size:
                nxt = pc + s32(u[p + 4 + 2 * idx] | (u[p + 5 + 2 * idx] << 16))
        elif name == "sparse-switch":
            p = pc + d.offset
            if u[p] != D.PAYLOAD_SPARSE:
                return ("error", "sparse-switch payload ident")
            size = u[p + 1]
            v = m.gi(R[0])
            for i in range(size):
                k = s32(u[p + 2 + 2 * i] | (u[p + 3 + 2 * i] << 16))
                if k == v:
                    q = p + 2 + 2 * size + 2 * i
                    nxt = pc + s32(u[q] | (u[q + 1] << 16))
                    break
        # ---- compare / branches ------------------------------------------------------------------
        elif name == "cmp-long":
            a, b = m.gw(R[1]), m.gw(R[2])
            m.si(R[0], 0 if a == b else (1 if a > b else -1))
        elif d.fmt == "22t":
            if IF_TESTS[name[3:]](m.gi(R[0]), m.gi(R[1])):
                nxt = pc + d.offset
        elif d.fmt == "21t":
            if IF_TESTS[name[3:5]](m.gi(R[0]), 0):
                nxt = pc + d.offset
        # ---- unary -------------------------------------------------------------------------------
        elif name == "neg-int":
            m.si(R[0], -m.gi(R[1]))
        elif name == "not-int":
            m.si(R[0], ~m.gi(R[1]))
        elif name == "neg-long":
            m.sw(R[0], -m.gw(R[1]))
        elif name == "not-long":
            m.sw(R[0], ~m.gw(R[1]))
        elif name == "int-to-long":
            m.sw(R[0], m.gi(R[1]))
        elif name == "long-to-int":
            m.si(R[0], m.gw(R[1]))
        elif name == "int-to-byte":
            m.si(R[0], D.sx(m.gi(R[1]), 8))
        elif name == "int-to-char":
            m.si(R[0], m.gi(R[1]) & 0xFFFF)
        elif name == "int-to-short":
            m.si(R[0], D.sx(m.gi(R[1]), 16))
        # ---- binary ------------------------------------------------------------------------------
        elif d.fmt == "23x" and name.endswith("-int") and name[:-4] in INT_BIN:
            m.si(R[0], binop(name[:-4], m.gi(R[1]), m.gi(R[2]), False))
        elif d.fmt == "23x" and name.endswith("-long") and name[:-5] in INT_BIN:
            op = name[:-5]
            b = m.gi(R[2]) if op in ("shl", "shr", "ushr") else m.gw(R[2])  # shift distance is an int register
            m.sw(R[0], binop(op, m.gw(R[1]), b, True))
        elif d.fmt == "12x" and name.endswith("-int/2addr") and name[:-10] in INT_BIN:
            m.si(R[0], binop(name[:-10], m.gi(R[0]), m.gi(R[1]), False))
        elif d.fmt == "12x" and name.endswith("-long/2addr") and name[:-11] in INT_BIN:
            op = name[:-11]
            b = m.gi(R[1]) if op in ("shl", "shr", "ushr") else m.gw(R[1])
            m.sw(R[0], binop(op, m.gw(R[0]), b, True))
        elif name in ("rsub-int", "rsub-int/lit8"):
            m.si(R[0], binop("sub", d.literal, m.gi(R[1]), False))
        elif d.fmt in ("22s", "22b") and name.split("-int/lit")[0] in INT_BIN:
            m.si(R[0], binop(name.split("-int/lit")[0], m.gi(R[1]), d.literal, False))
        else:
            raise Unsupported(name)
        pc = nxt


def listing(units):
    """human-readable listing for witnesses: ['0000: const/4 v0, 1', ...] (payloads shown as data)"""
    out = []
    # payload start addresses referenced by switch instructions
    payloads = set()
    i = 0
    n = len(units)
    while i < n:
        if i in payloads:
            k = D.payload_units(list(units[i:i + 4]) + [0, 0, 0])
            if units[i] == D.PAYLOAD_PACKED:
                size = units[i + 1]
                first = s32(units[i + 2] | (units[i + 3] << 16))
                tg = [s32(units[i + 4 + 2 * j] | (units[i + 5 + 2 * j] << 16)) for j in range(size)]
                out.append("%04x: packed-switch-payload first_key=%d rel_targets=%s" % (i, first, tg))
            else:
                size = units[i + 1]
                ks = [s32(units[i + 2 + 2 * j] | (units[i + 3 + 2 * j] << 16)) for j in range(size)]
                b = i + 2 + 2 * size
                tg = [s32(units[b + 2 * j] | (units[b + 1 + 2 * j] << 16)) for j in range(size)]
                out.append("%04x: sparse-switch-payload keys=%s rel_targets=%s" % (i, ks, tg))
            i += k
            continue
        d = D.decode(list(units[i:i + 5]))
        if d is None:
            out.append("%04x: .unit 0x%04x" % (i, units[i]))
            i += 1
            continue
        ops = ["v%d" % r for r in (d.regs or [])]
        if d.literal is not None:
            ops.append("#%d" % d.literal)
        if d.offset is not None:
            ops.append("->%04x" % (i + d.offset))
            if d.fmt == "31t":
                payloads.add(i + d.offset)
        out.append("%04x: %s %s" % (i, d.name, ", ".join(ops)))
        i += d.units
    return out
