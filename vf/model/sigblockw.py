"""APK Signing Block builder / independent reader (never imports androguard).

Format, from https://source.android.com/docs/security/features/apksigning/v2 and .../v3:

  APK Signing Block :=  uint64 size_of_block (excluding this field)
                        sequence of  uint64-length-prefixed ID-value pairs:  uint32 ID, value (pair length - 4 bytes)
                        uint64 size_of_block (same value)
                        magic "APK Sig Block 42"
  located immediately before the zip central directory; the EOCD's central-directory offset points behind it.

  value of the v2 pair (ID 0x7109871a) := length-prefixed sequence of length-prefixed signer:
      signer := length-prefixed signed data
                length-prefixed sequence of length-prefixed signatures: uint32 algorithm ID, length-prefixed signature
                length-prefixed public key (SubjectPublicKeyInfo, DER)
      signed data := length-prefixed sequence of length-prefixed digests: uint32 algorithm ID, length-prefixed digest
                     length-prefixed sequence of length-prefixed X.509 certificates (DER)
                     length-prefixed sequence of length-prefixed additional attributes: uint32 ID, value (attribute length - 4 bytes)
                     [bytes up to the end of the signed data are ignored by verifiers; apksig itself writes 4 zero bytes here in v2]
  v3 (ID 0xf05368c0) and v3.1 (ID 0x1b93ad61):
      signer := length-prefixed signed data, uint32 minSDK, uint32 maxSDK, signatures, public key     (as above)
      signed data := digests, certificates, uint32 minSDK, uint32 maxSDK, additional attributes
  all "length-prefixed" are uint32 little endian. Verity padding pair: ID 0x42726577, value zero bytes.

Model classes: SignedData, Signer; encode_* turn them into bytes, parse_* is the independent reader (used for the round-trip
self-check and to validate this module against the signing blocks of the APKs shipped with the project under test).
"""
import struct

V2_ID = 0x7109871A
V3_ID = 0xF05368C0
V31_ID = 0x1B93AD61
PAD_ID = 0x42726577
MAGIC = b"APK Sig Block 42"
STRIPPING_PROTECTION_ATTR = 0xBEEFF00D

EOCD_SIG = b"PK\x05\x06"


def u32(v):
    return struct.pack("<I", v)


def lp(b):
    """uint32 length prefix"""
    return struct.pack("<I", len(b)) + bytes(b)


class SignedData:
    def __init__(self, digests=(), certificates=(), attributes=(), min_sdk=None, max_sdk=None, trailing=b""):
        self.digests = [(int(a), bytes(d)) for a, d in digests]  # (algorithm id, digest)
        self.certificates = [bytes(c) for c in certificates]
        self.attributes = [(int(i), bytes(v)) for i, v in attributes]  # (attribute id, value)
        self.min_sdk = min_sdk  # v3 only
        self.max_sdk = max_sdk
        # bytes after the additional attributes inside the signed data. apksig's own v2 signer appends an empty length-prefixed
        # element (4 zero bytes) there and every verifier ignores it; kept so that shipped blocks re-encode byte-exactly.
        self.trailing = bytes(trailing)

    def attributes_bytes(self):
        """content of the additional-attributes sequence (without its own length prefix)"""
        return b"".join(lp(u32(i) + v) for i, v in self.attributes)

    def describe(self):
        return {"digests": [[a, d.hex()] for a, d in self.digests], "certificates": [c.hex() if len(c) < 64 else "%s...<%d>" % (c[:16].hex(), len(c)) for c in self.certificates],
                "attributes": [[i, v.hex()] for i, v in self.attributes], "min_sdk": self.min_sdk, "max_sdk": self.max_sdk, "trailing": self.trailing.hex()}


class Signer:
    def __init__(self, signed_data, signatures=(), public_key=b"", min_sdk=None, max_sdk=None):
        self.signed_data = signed_data
        self.signatures = [(int(a), bytes(s)) for a, s in signatures]
        self.public_key = bytes(public_key)
        self.min_sdk = min_sdk  # v3 only
        self.max_sdk = max_sdk

    def describe(self):
        return {"signed_data": self.signed_data.describe(), "signatures": [[a, s.hex() if len(s) < 64 else "%s...<%d>" % (s[:16].hex(), len(s))] for a, s in self.signatures],
                "public_key": self.public_key.hex() if len(self.public_key) < 64 else "%s...<%d>" % (self.public_key[:16].hex(), len(self.public_key)),
                "min_sdk": self.min_sdk, "max_sdk": self.max_sdk}


def encode_id_blobs(items):
    """digests or signatures: sequence content of length-prefixed (uint32 id, length-prefixed blob)"""
    return b"".join(lp(u32(a) + lp(d)) for a, d in items)


def encode_signed_data(sd, v3):
    out = lp(encode_id_blobs(sd.digests))
    out += lp(b"".join(lp(c) for c in sd.certificates))
    if v3:
        out += u32(sd.min_sdk) + u32(sd.max_sdk)
    out += lp(sd.attributes_bytes())
    return out + sd.trailing


def encode_signer(s, v3):
    out = lp(encode_signed_data(s.signed_data, v3))
    if v3:
        out += u32(s.min_sdk) + u32(s.max_sdk)
    out += lp(encode_id_blobs(s.signatures))
    out += lp(s.public_key)
    return out


def encode_signers(signers, v3):
    """value of a v2 (v3=False) or v3/v3.1 (v3=True) pair"""
    return lp(b"".join(lp(encode_signer(s, v3)) for s in signers))


def encode_signing_block(pairs):
    """pairs: [(id, value bytes)] in order, duplicates allowed -> bytes of the whole block"""
    body = b"".join(struct.pack("<QI", len(v) + 4, i) + bytes(v) for i, v in pairs)
    size = len(body) + 8 + 16
    return struct.pack("<Q", size) + body + struct.pack("<Q", size) + MAGIC


def padding_pair_for(pairs, align=4096):
    """-> (PAD_ID, zeros) such that the block built from pairs + this pair has a size that is a multiple of align"""
    base = len(encode_signing_block(pairs)) + 12
    pad = (-base) % align
    return (PAD_ID, b"\0" * pad)


def find_eocd(data):
    i = len(data) - 22
    while i >= 0:
        if data[i:i + 4] == EOCD_SIG and i + 22 + struct.unpack_from("<H", data, i + 20)[0] == len(data):
            return i
        i -= 1
    raise ValueError("no EOCD")


def insert_signing_block(zip_bytes, block):
    """put block immediately before the central directory and fix the EOCD's central-directory offset"""
    eocd = find_eocd(zip_bytes)
    (cd_off,) = struct.unpack_from("<I", zip_bytes, eocd + 16)
    out = bytearray(zip_bytes[:cd_off] + block + zip_bytes[cd_off:])
    struct.pack_into("<I", out, eocd + len(block) + 16, cd_off + len(block))
    return bytes(out)


# ---------------------------------------------------------------- independent reader
class FormatError(ValueError):
    pass


class _R:
    def __init__(self, b):
        self.b = bytes(b)
        self.p = 0

    def take(self, n):
        if n < 0 or self.p + n > len(self.b):
            raise FormatError("short read: want %d at %d of %d" % (n, self.p, len(self.b)))
        r = self.b[self.p:self.p + n]
        self.p += n
        return r

    def u32(self):
        return struct.unpack("<I", self.take(4))[0]

    def lp(self):
        return self.take(self.u32())

    def eof(self):
        return self.p >= len(self.b)

    def seq(self):
        """length-prefixed sequence of length-prefixed elements -> list of element bytes"""
        r = _R(self.lp())
        out = []
        while not r.eof():
            out.append(r.lp())
        return out


def locate_signing_block(apk_bytes):
    """-> (start offset, block bytes) or None if there is no APK Signing Block before the central directory"""
    eocd = find_eocd(apk_bytes)
    (cd_off,) = struct.unpack_from("<I", apk_bytes, eocd + 16)
    if cd_off < 32 or apk_bytes[cd_off - 16:cd_off] != MAGIC:
        return None
    (size,) = struct.unpack_from("<Q", apk_bytes, cd_off - 24)
    start = cd_off - size - 8
    if start < 0:
        raise FormatError("block size beyond start of file")
    (size2,) = struct.unpack_from("<Q", apk_bytes, start)
    if size2 != size:
        raise FormatError("size fields differ")
    return start, apk_bytes[start:cd_off]


def parse_pairs(block):
    """-> [(id, value)]"""
    (size,) = struct.unpack_from("<Q", block, 0)
    if size + 8 != len(block) or block[-16:] != MAGIC:
        raise FormatError("bad block framing")
    p = 8
    end = len(block) - 24
    out = []
    while p < end:
        (plen, pid) = struct.unpack_from("<QI", block, p)
        if plen < 4 or p + 8 + plen > end:
            raise FormatError("pair overruns block")
        out.append((pid, block[p + 12:p + 8 + plen]))
        p += 8 + plen
    return out


def _id_blobs(elems):
    out = []
    for e in elems:
        r = _R(e)
        a = r.u32()
        d = r.lp()
        out.append((a, d))  # trailing bytes inside the element are ignored like apksig does
    return out


def parse_signers(value, v3):
    """-> [Signer]"""
    signers = []
    for sb in _R(value).seq():
        r = _R(sb)
        sdr = _R(r.lp())
        digests = _id_blobs(sdr.seq())
        certs = sdr.seq()
        mn = mx = smn = smx = None
        if v3:
            mn, mx = sdr.u32(), sdr.u32()
        attrs = []
        for ab in sdr.seq():
            if len(ab) < 4:
                raise FormatError("attribute shorter than its id")
            attrs.append((struct.unpack("<I", ab[:4])[0], ab[4:]))
        trailing = sdr.b[sdr.p:]
        if v3:
            smn, smx = r.u32(), r.u32()
        sigs = _id_blobs(r.seq())
        pk = r.lp()
        if not r.eof():
            raise FormatError("bytes after the public key inside a signer")
        signers.append(Signer(SignedData(digests, certs, attrs, mn, mx, trailing), sigs, pk, smn, smx))
    return signers


def self_check(apk_bytes, pairs):
    """round trip of a generated APK: the block is found before the central directory and the reader recovers the pairs"""
    probs = []
    try:
        loc = locate_signing_block(apk_bytes)
        if loc is None:
            return ["signing block not found before the central directory"]
        got = parse_pairs(loc[1])
        if got != [(i, bytes(v)) for i, v in pairs]:
            probs.append("pairs differ after round trip")
        eocd = find_eocd(apk_bytes)
        (cd_off,) = struct.unpack_from("<I", apk_bytes, eocd + 16)
        (cd_size,) = struct.unpack_from("<I", apk_bytes, eocd + 12)
        if cd_off + cd_size != eocd:
            probs.append("central directory does not end at EOCD after insertion")
        if cd_size and apk_bytes[cd_off:cd_off + 4] != b"PK\x01\x02":
            probs.append("EOCD offset does not point at the central directory")
    except (FormatError, ValueError, struct.error) as e:
        probs.append("reader: %r" % e)
    return probs
