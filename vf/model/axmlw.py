"""Independent binary-XML (AXML) writer, from frameworks/base/libs/androidfw/include/androidfw/ResourceTypes.h.

Never imports androguard.  Model -> bytes; `read_back` is a tiny independent reader used as the writer's self-check
(and to read shipped files so the writer and the format description cannot drift apart unnoticed).

Structures (all little endian):
  ResChunk_header      { u16 type; u16 headerSize; u32 size }
  ResStringPool_header { hdr(0x0001, 0x1C); u32 stringCount, styleCount, flags, stringsStart, stylesStart }
      flags: SORTED 1<<0, UTF8 1<<8.  u32 offsets[stringCount]; u32 styleOffsets[styleCount]; string data; style data
      UTF-16 string: len (u16, or 2 units 0x8000|hi, lo when len >= 0x8000); units; u16 0
      UTF-8 string:  utf16len (u8, or 2 bytes 0x80|hi, lo when >= 0x80); bytelen (same); bytes; u8 0
  ResXMLTree_header    { hdr(0x0003, 8) }
  resource map         { hdr(0x0180, 8); u32 ids[] }   ids[i] belongs to string i
  ResXMLTree_node      { hdr(type, 0x10); u32 lineNumber; u32 comment(ref) }
     START/END_NAMESPACE 0x0100/0x0101: ext { ref prefix; ref uri }
     START_ELEMENT 0x0102: attrExt { ref ns; ref name; u16 attributeStart=0x14; u16 attributeSize=0x14; u16 attributeCount;
                                     u16 idIndex; u16 classIndex; u16 styleIndex }  (indices are 1-based, 0 = none)
                           attribute { ref ns; ref name; ref rawValue; Res_value typedValue }
     END_ELEMENT 0x0103:   ext { ref ns; ref name }
     CDATA 0x0104:         ext { ref data; Res_value typedData }
  Res_value            { u16 size=8; u8 res0=0; u8 dataType; u32 data }
"""
import struct

NO_REF = 0xFFFFFFFF

RES_STRING_POOL_TYPE = 0x0001
RES_XML_TYPE = 0x0003
RES_XML_START_NAMESPACE_TYPE = 0x0100
RES_XML_END_NAMESPACE_TYPE = 0x0101
RES_XML_START_ELEMENT_TYPE = 0x0102
RES_XML_END_ELEMENT_TYPE = 0x0103
RES_XML_CDATA_TYPE = 0x0104
RES_XML_RESOURCE_MAP_TYPE = 0x0180

SORTED_FLAG = 1 << 0
UTF8_FLAG = 1 << 8

# Res_value::dataType
TYPE_NULL = 0x00
TYPE_REFERENCE = 0x01
TYPE_ATTRIBUTE = 0x02
TYPE_STRING = 0x03
TYPE_FLOAT = 0x04
TYPE_DIMENSION = 0x05
TYPE_FRACTION = 0x06
TYPE_DYNAMIC_REFERENCE = 0x07
TYPE_DYNAMIC_ATTRIBUTE = 0x08
TYPE_INT_DEC = 0x10
TYPE_INT_HEX = 0x11
TYPE_INT_BOOLEAN = 0x12
TYPE_INT_COLOR_ARGB8 = 0x1C
TYPE_INT_COLOR_RGB8 = 0x1D
TYPE_INT_COLOR_ARGB4 = 0x1E
TYPE_INT_COLOR_RGB4 = 0x1F

TYPE_NAMES = {
    0x00: "null", 0x01: "reference", 0x02: "attribute", 0x03: "string", 0x04: "float", 0x05: "dimension", 0x06: "fraction",
    0x07: "dynamic_reference", 0x08: "dynamic_attribute", 0x10: "int_dec", 0x11: "int_hex", 0x12: "int_boolean",
    0x1C: "color_argb8", 0x1D: "color_rgb8", 0x1E: "color_argb4", 0x1F: "color_rgb4",
}

ANDROID_NS = "http://schemas.android.com/apk/res/android"


# ---------------------------------------------------------------------------------------------------------------------
# string pool
# ---------------------------------------------------------------------------------------------------------------------
def utf16_units(s):
    """number of UTF-16 code units of s"""
    return sum(2 if ord(c) > 0xFFFF else 1 for c in s)


def _cesu8(s):
    """'modified UTF-8' as aapt2 writes it: supplementary characters as two 3-byte encoded surrogates"""
    out = bytearray()
    for c in s:
        o = ord(c)
        if o > 0xFFFF:
            o -= 0x10000
            for u in (0xD800 | (o >> 10), 0xDC00 | (o & 0x3FF)):
                out += bytes([0xE0 | (u >> 12), 0x80 | ((u >> 6) & 0x3F), 0x80 | (u & 0x3F)])
        else:
            out += c.encode("utf-8")
    return bytes(out)


def encode_string(s, utf8, cesu8=False):
    if utf8:
        data = _cesu8(s) if cesu8 else s.encode("utf-8")
        n16 = utf16_units(s)
        if n16 > 0x7FFF or len(data) > 0x7FFF:
            raise ValueError("string too long for a UTF-8 pool")
        out = bytearray()
        for n in (n16, len(data)):
            if n >= 0x80:
                out += bytes([0x80 | (n >> 8), n & 0xFF])
            else:
                out.append(n)
        return bytes(out) + data + b"\0"
    data = s.encode("utf-16-le")
    n = len(data) // 2
    if n >= 0x8000:
        head = struct.pack("<HH", 0x8000 | (n >> 16), n & 0xFFFF)
    else:
        head = struct.pack("<H", n)
    return head + data + b"\0\0"


class StringPool:
    """Ordered list of strings (no implicit de-duplication: callers decide which index to use).
    styles: {string index: [(name string index, firstChar, lastChar), ...]} - styled strings must be the first ones."""

    def __init__(self, utf8=False, cesu8=False, sorted_flag=False):
        self.utf8 = utf8
        self.cesu8 = cesu8
        self.sorted_flag = sorted_flag
        self.strings = []
        self._index = {}
        self.styles = {}
        self.share_data = False  # identical strings share one data offset (aapt does this for duplicates)

    def add(self, s, unique=False):
        """index of s; unique=True always appends a new entry"""
        if not unique and s in self._index:
            return self._index[s]
        self.strings.append(s)
        i = len(self.strings) - 1
        if not unique:
            self._index[s] = i
        return i

    def ref(self, s):
        return NO_REF if s is None else self.add(s)

    def build(self):
        n = len(self.strings)
        nstyles = (max(self.styles) + 1) if self.styles else 0
        offsets = []
        data = bytearray()
        seen = {}
        for s in self.strings:
            if self.share_data and s in seen:
                offsets.append(seen[s])
                continue
            seen[s] = len(data)
            offsets.append(len(data))
            data += encode_string(s, self.utf8, self.cesu8)
        while len(data) % 4:
            data.append(0)
        style_offsets = []
        style_data = bytearray()
        for i in range(nstyles):
            style_offsets.append(len(style_data))
            for (name, first, last) in self.styles.get(i, []):
                style_data += struct.pack("<III", name, first, last)
            style_data += struct.pack("<I", 0xFFFFFFFF)
        if nstyles:
            style_data += struct.pack("<II", 0xFFFFFFFF, 0xFFFFFFFF)
        header_size = 0x1C
        strings_start = header_size + 4 * n + 4 * nstyles
        styles_start = strings_start + len(data) if nstyles else 0
        size = strings_start + len(data) + len(style_data)
        flags = (UTF8_FLAG if self.utf8 else 0) | (SORTED_FLAG if self.sorted_flag else 0)
        out = struct.pack("<HHIIIIII", RES_STRING_POOL_TYPE, header_size, size, n, nstyles, flags, strings_start, styles_start)
        out += b"".join(struct.pack("<I", o) for o in offsets)
        out += b"".join(struct.pack("<I", o) for o in style_offsets)
        out += bytes(data) + bytes(style_data)
        assert len(out) == size and size % 4 == 0
        return out


def res_value(dtype, data):
    return struct.pack("<HBBI", 8, 0, dtype, data & 0xFFFFFFFF)


# ---------------------------------------------------------------------------------------------------------------------
# document model
# ---------------------------------------------------------------------------------------------------------------------
class Attr:
    """ns: namespace URI or None.  Typed value: (dtype, data); for TYPE_STRING `value` is the string and data is its pool index.
    resid: resource id for the resource map (None = no id).  raw: raw value string kept next to a typed value (aapt keeps some).
    pool_name: the name string stored in the pool if different from `name` (e.g. '' when stripped by a shrinker)."""

    def __init__(self, ns, name, dtype, data=0, value=None, resid=None, raw=None, pool_name=None):
        self.ns = ns
        self.name = name
        self.dtype = dtype
        self.data = data
        self.value = value
        self.resid = resid
        self.raw = raw
        self.pool_name = pool_name


class Text:
    def __init__(self, text, line=0):
        self.text = text
        self.line = line


class Elem:
    def __init__(self, ns, name, attrs=None, children=None, nsdecls=None, comment=None, line=0,
                 id_index=0, class_index=0, style_index=0):
        self.ns = ns
        self.name = name
        self.attrs = attrs or []
        self.children = children or []  # Elem | Text
        self.nsdecls = nsdecls or []  # [(prefix, uri)] declared on this element
        self.comment = comment
        self.line = line
        self.id_index = id_index
        self.class_index = class_index
        self.style_index = style_index


class Doc:
    def __init__(self, root, utf8=False, cesu8=False, dedupe=True, with_resmap=True, extra_strings=(), extra_resmap_ids=(),
                 share_string_data=False, sorted_attrs=False, attr_size=0x14):
        self.attr_size = attr_size  # ResXMLTree_attrExt.attributeSize: records may be larger than the 20 bytes used today (trailing bytes are ignored)
        self.root = root
        self.utf8 = utf8
        self.cesu8 = cesu8
        self.dedupe = dedupe  # identical non-attribute strings share one pool entry (prefix/uri of namespace chunks always do)
        self.with_resmap = with_resmap
        self.extra_strings = list(extra_strings)  # unused strings appended to the pool
        self.extra_resmap_ids = list(extra_resmap_ids)  # [(name, id)] unused attribute names with ids, placed first like aapt does
        self.share_string_data = share_string_data
        self.sorted_attrs = sorted_attrs  # aapt sorts attributes by resource id


def walk(e):
    yield e
    for c in e.children:
        if isinstance(c, Elem):
            yield from walk(c)


def build(doc):
    """-> bytes of the binary XML document"""
    pool = StringPool(utf8=doc.utf8, cesu8=doc.cesu8)
    pool.share_data = doc.share_string_data
    resmap = []
    attr_name_index = {}

    # 1. attribute names that carry a resource id come first (aapt: collectResourceIds / the id array indexes the pool)
    if doc.with_resmap:
        with_id = []
        for e in walk(doc.root):
            for a in e.attrs:
                if a.resid is not None:
                    pn = a.name if a.pool_name is None else a.pool_name
                    key = (pn, a.resid)
                    if key not in with_id:
                        with_id.append(key)
        for key in doc.extra_resmap_ids:
            if key not in with_id:
                with_id.append(tuple(key))
        if doc.sorted_attrs:
            with_id.sort(key=lambda k: k[1])
        for (pn, rid) in with_id:
            idx = pool.add(pn, unique=True)
            attr_name_index[(pn, rid)] = idx
            resmap.append(rid)
        assert len(resmap) == len(pool.strings)

    def sref(s, force_dedupe=False):
        if s is None:
            return NO_REF
        if doc.dedupe or force_dedupe:
            # never reuse an index inside the resource map range for a plain string
            if s in pool._index:
                return pool._index[s]
            return pool.add(s)
        return pool.add(s, unique=True)

    def attr_name_ref(a):
        pn = a.name if a.pool_name is None else a.pool_name
        if doc.with_resmap and a.resid is not None:
            return attr_name_index[(pn, a.resid)]
        return sref(pn)

    body = bytearray()

    def node(ctype, line, comment, ext):
        size = 0x10 + len(ext)
        body.extend(struct.pack("<HHIII", ctype, 0x10, size, line & 0xFFFFFFFF, sref(comment)) + ext)

    def emit(e):
        for (prefix, uri) in e.nsdecls:
            node(RES_XML_START_NAMESPACE_TYPE, e.line, None, struct.pack("<II", sref(prefix, True), sref(uri, True)))
        attrs = list(e.attrs)
        if doc.sorted_attrs:
            attrs.sort(key=lambda a: (a.resid is None, a.resid or 0))
        ab = bytearray()
        for a in attrs:
            nsr = sref(a.ns)
            nr = attr_name_ref(a)
            if a.dtype == TYPE_STRING:
                vr = sref(a.value)
                ab += struct.pack("<III", nsr, nr, vr) + res_value(TYPE_STRING, vr)
            else:
                ab += struct.pack("<III", nsr, nr, sref(a.raw)) + res_value(a.dtype, a.data)
            ab += bytes((0xA5 + k) & 0xFF for k in range(doc.attr_size - 0x14))
        ext = struct.pack("<IIHHHHHH", sref(e.ns), sref(e.name), 0x14, doc.attr_size, len(attrs), e.id_index, e.class_index, e.style_index) + bytes(ab)
        node(RES_XML_START_ELEMENT_TYPE, e.line, e.comment, ext)
        for c in e.children:
            if isinstance(c, Elem):
                emit(c)
            else:
                node(RES_XML_CDATA_TYPE, c.line, None, struct.pack("<I", sref(c.text)) + res_value(TYPE_NULL, 0))
        node(RES_XML_END_ELEMENT_TYPE, e.line, None, struct.pack("<II", sref(e.ns), sref(e.name)))
        for (prefix, uri) in reversed(e.nsdecls):
            node(RES_XML_END_NAMESPACE_TYPE, e.line, None, struct.pack("<II", sref(prefix, True), sref(uri, True)))

    emit(doc.root)
    for s in doc.extra_strings:
        pool.add(s, unique=True)
    pool_bytes = pool.build()
    map_bytes = b""
    if doc.with_resmap and resmap:
        map_bytes = struct.pack("<HHI", RES_XML_RESOURCE_MAP_TYPE, 8, 8 + 4 * len(resmap)) + b"".join(struct.pack("<I", r) for r in resmap)
    total = 8 + len(pool_bytes) + len(map_bytes) + len(body)
    out = struct.pack("<HHI", RES_XML_TYPE, 8, total) + pool_bytes + map_bytes + bytes(body)
    assert len(out) == total
    return out


# ---------------------------------------------------------------------------------------------------------------------
# tiny independent reader (self-check of the writer; also reads shipped files).  Strict: raises on anything unexpected.
# ---------------------------------------------------------------------------------------------------------------------
def read_pool(buf, off):
    ctype, hsize, size, n, nstyles, flags, sstart, ststart = struct.unpack_from("<HHIIIIII", buf, off)
    if ctype != RES_STRING_POOL_TYPE or hsize != 0x1C:
        raise ValueError("not a string pool at %d" % off)
    utf8 = bool(flags & UTF8_FLAG)
    offs = struct.unpack_from("<%dI" % n, buf, off + hsize)
    out = []
    for o in offs:
        p = off + sstart + o
        if utf8:
            def ln(p):
                a = buf[p]
                if a & 0x80:
                    return ((a & 0x7F) << 8) | buf[p + 1], p + 2
                return a, p + 1
            n16, p = ln(p)
            nb, p = ln(p)
            raw = bytes(buf[p:p + nb])
            if buf[p + nb] != 0:
                raise ValueError("utf8 string not terminated")
            s = raw.decode("utf-8", "surrogatepass")
            # join CESU-8 surrogate pairs
            s = s.encode("utf-16-le", "surrogatepass").decode("utf-16-le")
            if utf16_units(s) != n16:
                raise ValueError("utf16 length mismatch")
        else:
            a, = struct.unpack_from("<H", buf, p)
            p += 2
            if a & 0x8000:
                b, = struct.unpack_from("<H", buf, p)
                p += 2
                a = ((a & 0x7FFF) << 16) | b
            raw = bytes(buf[p:p + 2 * a])
            if buf[p + 2 * a:p + 2 * a + 2] != b"\0\0":
                raise ValueError("utf16 string not terminated")
            s = raw.decode("utf-16-le")
        out.append(s)
    return out, size, utf8


def read_back(buf):
    """-> (events, strings, resmap) where events are tuples:
    ('ns+', prefix, uri) ('ns-', prefix, uri) ('start', ns, name, [(ns, name, resid, rawstr, dtype, data, valuestr)]) ('end', ns, name) ('text', s)"""
    ctype, hsize, total = struct.unpack_from("<HHI", buf, 0)
    if ctype != RES_XML_TYPE or hsize != 8 or total != len(buf):
        raise ValueError("bad xml header")
    strings, psize, utf8 = read_pool(buf, 8)
    off = 8 + psize
    resmap = []
    events = []

    def S(i):
        return None if i == NO_REF else strings[i]
    while off < total:
        ctype, hsize, size = struct.unpack_from("<HHI", buf, off)
        if size < hsize or off + size > total or size % 4:
            raise ValueError("bad chunk at %d" % off)
        if ctype == RES_XML_RESOURCE_MAP_TYPE:
            resmap = list(struct.unpack_from("<%dI" % ((size - hsize) // 4), buf, off + hsize))
        else:
            if hsize != 0x10:
                raise ValueError("bad node header size")
            ext = off + 0x10
            if ctype in (RES_XML_START_NAMESPACE_TYPE, RES_XML_END_NAMESPACE_TYPE):
                p, u = struct.unpack_from("<II", buf, ext)
                events.append(("ns+" if ctype == RES_XML_START_NAMESPACE_TYPE else "ns-", S(p), S(u)))
            elif ctype == RES_XML_START_ELEMENT_TYPE:
                ns, name, astart, asize, acount, idi, cli, sti = struct.unpack_from("<IIHHHHHH", buf, ext)
                attrs = []
                for k in range(acount):
                    ao = ext + astart + k * asize
                    ans, an, raw, vsize, res0, dt, data = struct.unpack_from("<IIIHBBI", buf, ao)
                    if vsize != 8 or res0 != 0:
                        raise ValueError("bad Res_value")
                    rid = resmap[an] if an < len(resmap) else None
                    attrs.append((S(ans), S(an), rid, S(raw), dt, data, S(data) if dt == TYPE_STRING else None))
                if ext + astart + acount * asize != off + size:
                    raise ValueError("attribute area does not fill the chunk")
                events.append(("start", S(ns), S(name), attrs))
            elif ctype == RES_XML_END_ELEMENT_TYPE:
                ns, name = struct.unpack_from("<II", buf, ext)
                events.append(("end", S(ns), S(name)))
            elif ctype == RES_XML_CDATA_TYPE:
                d, = struct.unpack_from("<I", buf, ext)
                events.append(("text", S(d)))
            else:
                raise ValueError("unknown chunk type %x" % ctype)
        off += size
    return events, strings, resmap


def model_events(doc):
    """the event list the document model stands for (same shape as read_back's)"""
    ev = []

    def emit(e):
        for d in e.nsdecls:
            ev.append(("ns+", d[0], d[1]))
        attrs = list(e.attrs)
        if doc.sorted_attrs:
            attrs.sort(key=lambda a: (a.resid is None, a.resid or 0))
        al = []
        for a in attrs:
            pn = a.name if a.pool_name is None else a.pool_name
            rid = a.resid if doc.with_resmap else None
            al.append((a.ns, pn, rid, a.value if a.dtype == TYPE_STRING else a.raw, a.dtype, None if a.dtype == TYPE_STRING else a.data & 0xFFFFFFFF,
                       a.value if a.dtype == TYPE_STRING else None))
        ev.append(("start", e.ns, e.name, al))
        for c in e.children:
            if isinstance(c, Elem):
                emit(c)
            else:
                ev.append(("text", c.text))
        ev.append(("end", e.ns, e.name))
        for d in reversed(e.nsdecls):
            ev.append(("ns-", d[0], d[1]))
    emit(doc.root)
    return ev


def selfcheck(doc, data):
    """round trip through the independent reader; raises AssertionError when the bytes do not say what the model says"""
    events, strings, resmap = read_back(data)
    want = model_events(doc)
    got = []
    for e in events:
        if e[0] == "start":
            got.append(("start", e[1], e[2], [(a[0], a[1], a[2], a[3], a[4], None if a[4] == TYPE_STRING else a[5], a[6]) for a in e[3]]))
        else:
            got.append(e)
    assert got == want, "writer self-check failed"
    return True
