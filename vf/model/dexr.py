"""Minimal independent DEX reader (header, ids, class_data, code items, tries) for the shipped files. Never imports androguard."""
import struct


def uleb(b, p):
    r = 0
    s = 0
    while True:
        c = b[p]
        p += 1
        r |= (c & 0x7F) << s
        s += 7
        if not c & 0x80:
            return r, p


def sleb(b, p):
    r = 0
    s = 0
    while True:
        c = b[p]
        p += 1
        r |= (c & 0x7F) << s
        s += 7
        if not c & 0x80:
            if c & 0x40:
                r -= 1 << s
            return r, p


def mutf8_to_units(b, p):
    out = []
    while b[p]:
        c = b[p]
        if c < 0x80:
            out.append(c)
            p += 1
        elif c >> 5 == 6:
            out.append(((c & 0x1F) << 6) | (b[p + 1] & 0x3F))
            p += 2
        else:
            out.append(((c & 0x0F) << 12) | ((b[p + 1] & 0x3F) << 6) | (b[p + 2] & 0x3F))
            p += 3
    return out


def units_to_str(u):
    return b"".join(struct.pack("<H", x) for x in u).decode("utf-16-le", "surrogatepass")


def read(data):
    h = struct.unpack_from("<8sI20sIIIIIIIIIIIIIIIIIIII", data, 0)
    (magic, checksum, sig, file_size, header_size, endian, link_size, link_off, map_off, ss, so, ts, to, ps, po, fs, fo, ms, mo, cs, co, ds, do) = h
    strings = []
    for i in range(ss):
        off = struct.unpack_from("<I", data, so + 4 * i)[0]
        n, p = uleb(data, off)
        strings.append(units_to_str(mutf8_to_units(data, p)))
    types = [strings[struct.unpack_from("<I", data, to + 4 * i)[0]] for i in range(ts)]

    def type_list(off):
        if off == 0:
            return []
        n = struct.unpack_from("<I", data, off)[0]
        return [types[struct.unpack_from("<H", data, off + 4 + 2 * i)[0]] for i in range(n)]
    protos = []
    for i in range(ps):
        sh, ret, poff = struct.unpack_from("<III", data, po + 12 * i)
        protos.append((types[ret], tuple(type_list(poff))))
    fields = []
    for i in range(fs):
        c, t, n = struct.unpack_from("<HHI", data, fo + 8 * i)
        fields.append((types[c], strings[n], types[t]))
    methods = []
    for i in range(ms):
        c, p, n = struct.unpack_from("<HHI", data, mo + 8 * i)
        methods.append((types[c], strings[n], protos[p]))
    classes = []
    code = {}
    code_info = {}
    for i in range(cs):
        (cidx, acc, sup, ifo, src, ann, cdo, svo) = struct.unpack_from("<8I", data, co + 32 * i)
        cl = {"name": types[cidx], "access": acc, "super": types[sup] if sup != 0xFFFFFFFF else None, "interfaces": type_list(ifo),
              "source": strings[src] if src != 0xFFFFFFFF else None, "sfields": [], "ifields": [], "dmethods": [], "vmethods": []}
        if cdo:
            p = cdo
            nsf, p = uleb(data, p)
            nif, p = uleb(data, p)
            ndm, p = uleb(data, p)
            nvm, p = uleb(data, p)
            for lst, n in (("sfields", nsf), ("ifields", nif)):
                idx = 0
                for _ in range(n):
                    d, p = uleb(data, p)
                    a, p = uleb(data, p)
                    idx += d
                    cl[lst].append((idx, fields[idx], a))
            for lst, n in (("dmethods", ndm), ("vmethods", nvm)):
                idx = 0
                for _ in range(n):
                    d, p = uleb(data, p)
                    a, p = uleb(data, p)
                    coff, p = uleb(data, p)
                    idx += d
                    cl[lst].append((idx, methods[idx], a, coff))
                    if coff and coff not in code:
                        regs, ins, outs, tries, dbg, n_units = struct.unpack_from("<HHHHII", data, coff)
                        units = list(struct.unpack_from("<%dH" % n_units, data, coff + 16))
                        code[coff] = units
                        info = {"registers": regs, "ins": ins, "outs": outs, "tries": [], "method": methods[idx]}
                        if tries:
                            q = coff + 16 + 2 * n_units
                            if n_units % 2:
                                q += 2
                            titems = [struct.unpack_from("<IHH", data, q + 8 * t) for t in range(tries)]
                            hbase = q + 8 * tries
                            for start, cnt, hoff in titems:
                                r = hbase + hoff
                                size, r = sleb(data, r)
                                hs = []
                                for _ in range(abs(size)):
                                    ti, r = uleb(data, r)
                                    ad, r = uleb(data, r)
                                    hs.append((types[ti], ad))
                                ca = None
                                if size <= 0:
                                    ca, r = uleb(data, r)
                                info["tries"].append((start, cnt, hs, ca))
                        code_info[coff] = info
        classes.append(cl)
    return {"strings": strings, "types": types, "protos": protos, "fields": fields, "methods": methods, "classes": classes, "code": code, "code_info": code_info}
