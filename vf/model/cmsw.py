"""PKCS#7 / CMS SignedData builder for JAR (v1) signatures + an independent verifier (never imports androguard).

Builder (asn1crypto.cms for the ASN.1, `cryptography` for keys, certificates and signatures), RFC 5652:
  ContentInfo{ signedData, SignedData{ version 1, digestAlgorithms, encapContentInfo{ id-data, no content (detached) },
               certificates [0] (signer certificates + unrelated ones, any order), signerInfos } }
  SignerInfo{ version 1, sid = issuerAndSerialNumber of the signer certificate, digestAlgorithm, signedAttrs [0] OPTIONAL
              (contentType, [signingTime], messageDigest = H(.SF)), signatureAlgorithm, signature }
  signature input: the DER SET OF (tag 0x31) encoding of signedAttrs when present (RFC 5652 5.4), else the .SF bytes.
  RSA-2048 PKCS#1 v1.5, ECDSA P-256, DSA-2048; SHA-1 / SHA-256.

The model is kept as plain Python objects (SignerInfoModel / SignedDataModel) so that a check can alter single fields after
signing (message digest, content type, issuer, serial number, digest algorithm, signature) and re-encode.

Verifier: a small DER reader of its own (no asn1crypto) extracts from the *encoded* bytes, per SignerInfo: sid, digest OID, the raw
signedAttrs TLV, the signature OCTET STRING (and its offset, used for byte corruptions); from a certificate: issuer, serial and
SubjectPublicKeyInfo. verify_v1() then checks messageDigest == H(.SF) and verifies the signature with `cryptography`.
"""
import datetime
import hashlib

from asn1crypto import algos, cms, core, x509 as ax509
from cryptography import x509
from cryptography.exceptions import InvalidSignature
from cryptography.hazmat.primitives import hashes, serialization
from cryptography.hazmat.primitives.asymmetric import dsa, ec, ed448, ed25519, padding, rsa
from cryptography.x509.oid import NameOID

OID_DATA = "1.2.840.113549.1.7.1"
OID_SIGNED_DATA = "1.2.840.113549.1.7.2"
OID_CONTENT_TYPE = "1.2.840.113549.1.9.3"
OID_MESSAGE_DIGEST = "1.2.840.113549.1.9.4"
OID_SIGNING_TIME = "1.2.840.113549.1.9.5"
DIGEST_OIDS = {"1.3.14.3.2.26": "sha1", "2.16.840.1.101.3.4.2.1": "sha256", "2.16.840.1.101.3.4.2.4": "sha224",
               "2.16.840.1.101.3.4.2.2": "sha384", "2.16.840.1.101.3.4.2.3": "sha512", "1.2.840.113549.2.5": "md5"}
HASHES = {"sha1": hashes.SHA1, "sha256": hashes.SHA256, "sha224": hashes.SHA224, "sha384": hashes.SHA384, "sha512": hashes.SHA512, "md5": hashes.MD5}


# ------------------------------------------------------------------ keys and certificates
def gen_key(alg):
    if alg == "rsa":
        return rsa.generate_private_key(public_exponent=65537, key_size=2048)
    if alg == "ec":
        return ec.generate_private_key(ec.SECP256R1())
    if alg == "dsa":
        return dsa.generate_private_key(key_size=2048)
    if alg == "ed25519":
        return ed25519.Ed25519PrivateKey.generate()
    if alg == "ed448":
        return ed448.Ed448PrivateKey.generate()
    raise ValueError(alg)


def key_alg(key):
    if isinstance(key, rsa.RSAPrivateKey):
        return "rsa"
    if isinstance(key, ec.EllipticCurvePrivateKey):
        return "ec"
    if isinstance(key, dsa.DSAPrivateKey):
        return "dsa"
    if isinstance(key, ed25519.Ed25519PrivateKey):
        return "ed25519"
    if isinstance(key, ed448.Ed448PrivateKey):
        return "ed448"
    raise ValueError(type(key))


def key_to_der(key):
    return key.private_bytes(serialization.Encoding.DER, serialization.PrivateFormat.PKCS8, serialization.NoEncryption())


def key_from_der(der):
    return serialization.load_der_private_key(der, password=None)


def public_key_der(key):
    return key.public_key().public_bytes(serialization.Encoding.DER, serialization.PublicFormat.SubjectPublicKeyInfo)


def make_cert(key, cn, serial=None, org="verif", issuer_cn=None, issuer_key=None):
    """self-signed X.509 v3 certificate (or signed by issuer_key under the name issuer_cn) -> DER"""
    subject = x509.Name([x509.NameAttribute(NameOID.COUNTRY_NAME, "ZZ"), x509.NameAttribute(NameOID.ORGANIZATION_NAME, org), x509.NameAttribute(NameOID.COMMON_NAME, cn)])
    issuer = subject if issuer_cn is None else x509.Name([x509.NameAttribute(NameOID.COUNTRY_NAME, "ZZ"), x509.NameAttribute(NameOID.ORGANIZATION_NAME, org), x509.NameAttribute(NameOID.COMMON_NAME, issuer_cn)])
    b = (x509.CertificateBuilder().subject_name(subject).issuer_name(issuer).public_key(key.public_key())
         .serial_number(serial if serial is not None else x509.random_serial_number())
         .not_valid_before(datetime.datetime(2020, 1, 1)).not_valid_after(datetime.datetime(2050, 1, 1))
         .add_extension(x509.BasicConstraints(ca=True, path_length=None), critical=False))
    sk = issuer_key or key
    return b.sign(sk, None if isinstance(sk, (ed25519.Ed25519PrivateKey, ed448.Ed448PrivateKey)) else hashes.SHA256()).public_bytes(serialization.Encoding.DER)


def sign_raw(key, data, digest):
    h = HASHES[digest]()
    if isinstance(key, rsa.RSAPrivateKey):
        return key.sign(data, padding.PKCS1v15(), h)
    if isinstance(key, ec.EllipticCurvePrivateKey):
        return key.sign(data, ec.ECDSA(h))
    if isinstance(key, dsa.DSAPrivateKey):
        return key.sign(data, h)
    if isinstance(key, (ed25519.Ed25519PrivateKey, ed448.Ed448PrivateKey)):
        return key.sign(data)      # pure EdDSA: no separate digest
    raise ValueError(type(key))


def sig_alg_name(alg, digest, style):
    """asn1crypto name of the signatureAlgorithm OID: 'generic' = key-type OID as jarsigner/apksigner write it (rsaEncryption,
    id-dsa / id-dsa-with-shaX, ecdsa-with-SHAx), 'specific' = hash-specific OID"""
    if alg == "rsa":
        return "rsassa_pkcs1v15" if style == "generic" else "%s_rsa" % digest
    if alg == "ec":
        return "%s_ecdsa" % digest
    if alg == "dsa":
        return "dsa" if style == "generic" else "%s_dsa" % digest
    if alg in ("ed25519", "ed448"):
        return alg
    raise ValueError(alg)


# ------------------------------------------------------------------ model
class SignerInfoModel:
    """all fields of one SignerInfo; attrs is None (no signedAttrs) or a list of (dotted oid, [asn1crypto value, ...])"""

    def __init__(self, issuer, serial, digest, attrs, sig_alg, signature, cert_der=None, alg=None):
        self.issuer = issuer  # asn1crypto x509.Name
        self.serial = serial
        self.digest = digest  # 'sha1' | 'sha256'
        self.attrs = attrs
        self.sig_alg = sig_alg  # asn1crypto SignedDigestAlgorithmId name
        self.signature = signature
        self.cert_der = cert_der  # the certificate whose key made the signature (ground truth, not encoded in the SignerInfo)
        self.alg = alg

    def attrs_obj(self):
        if self.attrs is None:
            return None
        return cms.CMSAttributes([cms.CMSAttribute({"type": t, "values": vals}) for t, vals in self.attrs])

    def asn1(self):
        d = {"version": "v1",
             "sid": cms.SignerIdentifier({"issuer_and_serial_number": cms.IssuerAndSerialNumber({"issuer": self.issuer, "serial_number": self.serial})}),
             "digest_algorithm": algos.DigestAlgorithm({"algorithm": self.digest}),
             "signature_algorithm": algos.SignedDigestAlgorithm({"algorithm": self.sig_alg}),
             "signature": self.signature}
        a = self.attrs_obj()
        if a is not None:
            d["signed_attrs"] = a
        return cms.SignerInfo(d)

    def describe(self):
        return {"alg": self.alg, "digest": self.digest, "signed_attrs": None if self.attrs is None else [t for t, _ in self.attrs],
                "sig_alg": self.sig_alg, "serial": self.serial, "signature_len": len(self.signature)}


class SignedDataModel:
    def __init__(self, signer_infos, certs, content_type="data"):
        self.signer_infos = list(signer_infos)
        self.certs = list(certs)  # DER certificates in bag order
        self.content_type = content_type

    def der(self):
        sd = cms.SignedData({
            "version": "v1",
            "digest_algorithms": [algos.DigestAlgorithm({"algorithm": d}) for d in sorted({s.digest for s in self.signer_infos})],
            "encap_content_info": {"content_type": self.content_type},
            "certificates": [cms.CertificateChoices(name="certificate", value=ax509.Certificate.load(c)) for c in self.certs],
            "signer_infos": [s.asn1() for s in self.signer_infos],
        })
        return cms.ContentInfo({"content_type": "signed_data", "content": sd}).dump()

    def describe(self):
        return {"signer_infos": [s.describe() for s in self.signer_infos], "bag_size": len(self.certs), "content_type": self.content_type}


def make_attrs(sf_bytes, digest, signing_time=False, content_type="data"):
    attrs = [(OID_CONTENT_TYPE, [cms.ContentType(content_type)])]
    if signing_time:
        attrs.append((OID_SIGNING_TIME, [cms.Time({"utc_time": datetime.datetime(2024, 5, 6, 7, 8, 9, tzinfo=datetime.timezone.utc)})]))
    attrs.append((OID_MESSAGE_DIGEST, [core.OctetString(hashlib.new(digest, sf_bytes).digest())]))
    return attrs


def sign_signer_info(key, cert_der, sf_bytes, digest="sha256", with_attrs=True, signing_time=False, sig_style="generic"):
    """-> SignerInfoModel holding a genuine signature by key over sf_bytes (through signed attributes when with_attrs)"""
    cert = ax509.Certificate.load(cert_der)
    alg = key_alg(key)
    attrs = make_attrs(sf_bytes, digest, signing_time) if with_attrs else None
    si = SignerInfoModel(cert.issuer, cert.serial_number, digest, attrs, sig_alg_name(alg, digest, sig_style), b"", cert_der, alg)
    if with_attrs:
        tbs = si.attrs_obj().dump()  # universal SET OF: tag 0x31, elements in DER order
        assert tbs[:1] == b"\x31"
    else:
        tbs = sf_bytes
    si.signature = sign_raw(key, tbs, digest)
    return si


def build_signed_data(sf_bytes, signers, extra_certs=(), extras_first=False):
    """signers: list of dicts(key, cert_der, digest, with_attrs, signing_time, sig_style) -> SignedDataModel"""
    sis = [sign_signer_info(s["key"], s["cert_der"], sf_bytes, s.get("digest", "sha256"), s.get("with_attrs", True),
                            s.get("signing_time", False), s.get("sig_style", "generic")) for s in signers]
    own = []
    for s in signers:
        if s["cert_der"] not in own:
            own.append(s["cert_der"])
    certs = (list(extra_certs) + own) if extras_first else (own + list(extra_certs))
    return SignedDataModel(sis, certs)


# ------------------------------------------------------------------ independent DER reader
class DerError(ValueError):
    pass


def tlv(buf, off, end=None):
    """-> (tag byte, header length, content length); definite lengths and low tag numbers only"""
    end = len(buf) if end is None else end
    if off + 2 > end:
        raise DerError("truncated TLV at %d" % off)
    tag = buf[off]
    if tag & 0x1F == 0x1F:
        raise DerError("high tag number")
    l0 = buf[off + 1]
    if l0 < 0x80:
        hl, ln = 2, l0
    elif l0 == 0x80:
        raise DerError("indefinite length (BER)")
    else:
        n = l0 & 0x7F
        if n > 4 or off + 2 + n > end:
            raise DerError("bad length")
        hl, ln = 2 + n, int.from_bytes(buf[off + 2:off + 2 + n], "big")
    if off + hl + ln > end:
        raise DerError("TLV overruns its container at %d" % off)
    return tag, hl, ln


def children(buf, off, ln):
    """offsets of the TLVs inside the content [off, off+ln) -> [(tag, tlv_off, content_off, content_len)]"""
    out = []
    p = off
    end = off + ln
    while p < end:
        tag, hl, cl = tlv(buf, p, end)
        out.append((tag, p, p + hl, cl))
        p += hl + cl
    return out


def oid_str(content):
    if not content:
        raise DerError("empty OID")
    vals = []
    v = 0
    for b in content:
        v = (v << 7) | (b & 0x7F)
        if not b & 0x80:
            vals.append(v)
            v = 0
    first = vals[0]
    a = 2 if first >= 80 else first // 40
    return ".".join(str(x) for x in [a, first - 40 * a] + vals[1:])


def _expect(cond, what):
    if not cond:
        raise DerError(what)


def parse_p7(p7):
    """-> dict(content_type, econtent_type, certs=[DER], signer_infos=[dict])  read from the encoded bytes"""
    p7 = bytes(p7)
    tag, hl, ln = tlv(p7, 0)
    _expect(tag == 0x30, "ContentInfo is not a SEQUENCE")
    ch = children(p7, hl, ln)
    _expect(len(ch) == 2 and ch[0][0] == 0x06 and ch[1][0] == 0xA0, "ContentInfo shape")
    ctype = oid_str(p7[ch[0][2]:ch[0][2] + ch[0][3]])
    _expect(ctype == OID_SIGNED_DATA, "not signedData")
    inner = children(p7, ch[1][2], ch[1][3])
    _expect(len(inner) == 1 and inner[0][0] == 0x30, "SignedData is not a SEQUENCE")
    f = children(p7, inner[0][2], inner[0][3])
    _expect(len(f) >= 4 and f[0][0] == 0x02 and f[1][0] == 0x31 and f[2][0] == 0x30, "SignedData fields")
    eci = children(p7, f[2][2], f[2][3])
    _expect(eci and eci[0][0] == 0x06, "encapContentInfo")
    etype = oid_str(p7[eci[0][2]:eci[0][2] + eci[0][3]])
    certs = []
    rest = f[3:]
    if rest and rest[0][0] == 0xA0:
        for t, o, co, cl in children(p7, rest[0][2], rest[0][3]):
            if t == 0x30:
                certs.append(p7[o:co + cl])
        rest = rest[1:]
    if rest and rest[0][0] == 0xA1:
        rest = rest[1:]
    _expect(len(rest) == 1 and rest[0][0] == 0x31, "signerInfos")
    sis = []
    for t, o, co, cl in children(p7, rest[0][2], rest[0][3]):
        _expect(t == 0x30, "SignerInfo is not a SEQUENCE")
        g = children(p7, co, cl)
        _expect(len(g) >= 5 and g[0][0] == 0x02, "SignerInfo fields")
        si = {"off": o, "len": co + cl - o}
        sid = g[1]
        if sid[0] == 0x30:
            parts = children(p7, sid[2], sid[3])
            _expect(len(parts) == 2 and parts[0][0] == 0x30 and parts[1][0] == 0x02, "issuerAndSerialNumber")
            si["issuer"] = p7[parts[0][1]:parts[0][2] + parts[0][3]]
            si["serial"] = int.from_bytes(p7[parts[1][2]:parts[1][2] + parts[1][3]], "big", signed=True)
            si["ski"] = None
        elif sid[0] == 0x80:
            si["issuer"] = si["serial"] = None
            si["ski"] = p7[sid[2]:sid[2] + sid[3]]
        else:
            raise DerError("unknown sid choice")
        _expect(g[2][0] == 0x30, "digestAlgorithm")
        da = children(p7, g[2][2], g[2][3])
        si["digest_oid"] = oid_str(p7[da[0][2]:da[0][2] + da[0][3]])
        k = 3
        si["signed_attrs"] = None
        if g[k][0] == 0xA0:
            si["signed_attrs"] = p7[g[k][1]:g[k][2] + g[k][3]]  # whole TLV as encoded, tag 0xA0
            attrs = {}
            dup = False
            for at, ao, aco, acl in children(p7, g[k][2], g[k][3]):
                _expect(at == 0x30, "Attribute is not a SEQUENCE")
                ap = children(p7, aco, acl)
                _expect(len(ap) == 2 and ap[0][0] == 0x06 and ap[1][0] == 0x31, "Attribute shape")
                oid = oid_str(p7[ap[0][2]:ap[0][2] + ap[0][3]])
                vals = [(vt, p7[vco:vco + vcl]) for vt, vo, vco, vcl in children(p7, ap[1][2], ap[1][3])]
                if oid in attrs:
                    dup = True
                attrs[oid] = vals
            si["attrs"] = attrs
            si["attrs_dup"] = dup
            k += 1
        _expect(g[k][0] == 0x30 and g[k + 1][0] == 0x04, "signatureAlgorithm / signature")
        sa = children(p7, g[k][2], g[k][3])
        si["sig_alg_oid"] = oid_str(p7[sa[0][2]:sa[0][2] + sa[0][3]])
        si["signature"] = p7[g[k + 1][2]:g[k + 1][2] + g[k + 1][3]]
        si["signature_off"] = g[k + 1][2]
        si["signature_len"] = g[k + 1][3]
        sis.append(si)
    return {"content_type": ctype, "econtent_type": etype, "certs": certs, "signer_infos": sis}


def parse_cert(cert_der):
    """-> dict(issuer DER, serial, spki DER) by walking Certificate / TBSCertificate"""
    c = bytes(cert_der)
    tag, hl, ln = tlv(c, 0)
    _expect(tag == 0x30, "Certificate")
    top = children(c, hl, ln)
    _expect(top and top[0][0] == 0x30, "TBSCertificate")
    f = children(c, top[0][2], top[0][3])
    i = 1 if f and f[0][0] == 0xA0 else 0
    _expect(len(f) >= i + 6 and f[i][0] == 0x02, "TBSCertificate fields")
    return {"serial": int.from_bytes(c[f[i][2]:f[i][2] + f[i][3]], "big", signed=True),
            "issuer": c[f[i + 2][1]:f[i + 2][2] + f[i + 2][3]],
            "subject": c[f[i + 4][1]:f[i + 4][2] + f[i + 4][3]],
            "spki": c[f[i + 5][1]:f[i + 5][2] + f[i + 5][3]]}


_STRING_TAGS = {0x0C: "utf-8", 0x13: "ascii", 0x14: "latin-1", 0x16: "ascii", 0x1A: "ascii", 0x1E: "utf-16-be", 0x1C: "utf-32-be"}


def name_key(name_der):
    """comparison key of an X.501 Name as RFC 5280 7.1 compares names: per RDN the set of (type OID, value), string values compared
    by characters (not by string type), case-insensitively, with leading/trailing/multiple inner white space ignored"""
    n = bytes(name_der)
    tag, hl, ln = tlv(n, 0)
    _expect(tag == 0x30, "Name")
    out = []
    for t, o, co, cl in children(n, hl, ln):
        _expect(t == 0x31, "RDN")
        avas = []
        for at, ao, aco, acl in children(n, co, cl):
            p = children(n, aco, acl)
            _expect(at == 0x30 and len(p) == 2 and p[0][0] == 0x06, "AVA")
            oid = oid_str(n[p[0][2]:p[0][2] + p[0][3]])
            vt, raw = p[1][0], n[p[1][2]:p[1][2] + p[1][3]]
            if vt in _STRING_TAGS:
                try:
                    val = " ".join(raw.decode(_STRING_TAGS[vt]).split()).casefold()
                except UnicodeDecodeError:
                    val = (vt, raw)
            else:
                val = (vt, raw)
            avas.append((oid, val))
        out.append(tuple(sorted(avas, key=repr)))
    return tuple(out)


def verify_signer_info(si, econtent_type, sf_bytes, cert_der, require_content_type=False):
    """Does this SignerInfo carry a signature over sf_bytes that the key of cert_der verifies?
    -> (ok, reason, sid_matches)"""
    try:
        ci = parse_cert(cert_der)
        pub = serialization.load_der_public_key(ci["spki"])
    except Exception as e:  # noqa: BLE001
        return False, "certificate unusable: %r" % (e,), False
    try:
        sid_ok = si["ski"] is None and si["serial"] == ci["serial"] and (si["issuer"] == ci["issuer"] or name_key(si["issuer"]) == name_key(ci["issuer"]))
    except DerError:
        sid_ok = False
    digest = DIGEST_OIDS.get(si["digest_oid"])
    if digest is None:
        return False, "unknown digest algorithm %s" % si["digest_oid"], sid_ok
    if si["signed_attrs"] is not None:
        if si["attrs_dup"]:
            return False, "duplicate signed attribute", sid_ok
        md = si["attrs"].get(OID_MESSAGE_DIGEST)
        if not md or len(md) != 1 or md[0][0] != 0x04:
            return False, "no single messageDigest attribute", sid_ok
        if md[0][1] != hashlib.new(digest, sf_bytes).digest():
            return False, "messageDigest attribute differs from the digest of the .SF", sid_ok
        if require_content_type:
            ct = si["attrs"].get(OID_CONTENT_TYPE)
            if not ct or len(ct) != 1 or ct[0][0] != 0x06 or oid_str(ct[0][1]) != econtent_type:
                return False, "contentType attribute missing or different from eContentType", sid_ok
        tbs = b"\x31" + si["signed_attrs"][1:]
    else:
        tbs = sf_bytes
    h = HASHES[digest]()
    try:
        if isinstance(pub, rsa.RSAPublicKey):
            pub.verify(si["signature"], tbs, padding.PKCS1v15(), h)
        elif isinstance(pub, ec.EllipticCurvePublicKey):
            pub.verify(si["signature"], tbs, ec.ECDSA(h))
        elif isinstance(pub, dsa.DSAPublicKey):
            pub.verify(si["signature"], tbs, h)
        elif isinstance(pub, (ed25519.Ed25519PublicKey, ed448.Ed448PublicKey)):
            pub.verify(si["signature"], tbs)
        else:
            return False, "unsupported key type", sid_ok
    except InvalidSignature:
        return False, "signature does not verify", sid_ok
    except Exception as e:  # noqa: BLE001  (malformed signature encodings)
        return False, "signature rejected: %r" % (e,), sid_ok
    return True, "ok", sid_ok


def verify_v1(p7, sf_bytes, cert_der, require_content_type=False):
    """-> dict(ok: some SignerInfo verifies over sf_bytes with cert_der's key, sid_ok: that SignerInfo also references
    cert_der by issuer and serial number, reasons: per SignerInfo).  Raises DerError if p7 is not DER SignedData."""
    p = parse_p7(p7)
    res = {"ok": False, "sid_ok": False, "reasons": []}
    for si in p["signer_infos"]:
        ok, why, sid = verify_signer_info(si, p["econtent_type"], sf_bytes, cert_der, require_content_type)
        res["reasons"].append(why)
        if ok:
            res["ok"] = True
            res["sid_ok"] = res["sid_ok"] or sid
    return res
