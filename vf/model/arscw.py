"""Independent resources.arsc writer, from frameworks/base/libs/androidfw/include/androidfw/ResourceTypes.h.

Never imports androguard.  Model -> bytes, plus `read_back`, a small strict reader used as the writer's self-check and to read the
shipped resources.arsc files (so that writer, reader and aapt agree on the format).

  ResTable_header   { hdr(0x0002, 12); u32 packageCount }
  global ResStringPool (values)
  ResTable_package  { hdr(0x0200, 288 | 284); u32 id; u16 name[128]; u32 typeStrings; u32 lastPublicType; u32 keyStrings; u32 lastPublicKey;
                      [u32 typeIdOffset] }   typeStrings/keyStrings are offsets from the start of the package chunk
      type-name pool, key-name pool,
      per type: ResTable_typeSpec { hdr(0x0202, 16); u8 id; u8 res0; u16 typesCount; u32 entryCount; u32 flags[entryCount] }
                ResTable_type     { hdr(0x0201, 20 + config.size); u8 id; u8 flags; u16 reserved; u32 entryCount; u32 entriesStart; ResTable_config }
                    flags: SPARSE 0x01 (entryCount x { u16 idx; u16 offset/4 } sorted by idx), OFFSET16 0x02 (u16 offset/4, 0xFFFF = none),
                    else u32 offsets (0xFFFFFFFF = none); entries start at entriesStart (4-aligned)
      ResTable_entry      { u16 size=8; u16 flags; u32 key } Res_value
      ResTable_map_entry  { u16 size=16; u16 flags|COMPLEX; u32 key; u32 parent; u32 count } count x ResTable_map { u32 name; Res_value }
      compact entry       { u16 key; u16 flags|COMPACT (dataType in bits 8..15); u32 data }
      entry flags: COMPLEX 1, PUBLIC 2, WEAK 4, COMPACT 8
  ResTable_config (size 28..64): u32 size; u16 mcc, mnc; u8 language[2], country[2]; u8 orientation, touchscreen; u16 density;
      u8 keyboard, navigation, inputFlags, pad; u16 screenWidth, screenHeight; u16 sdkVersion, minorVersion;            (28)
      u8 screenLayout, uiMode; u16 smallestScreenWidthDp;                                                              (32)
      u16 screenWidthDp, screenHeightDp;                                                                               (36)
      u8 localeScript[4]; u8 localeVariant[8];                                                                         (48)
      u8 screenLayout2, colorMode; u16 pad2;                                                                           (52)
      u8 localeScriptWasComputed; u8 localeNumberingSystem[8]; pad                                                     (64)
"""
import struct

from vf.model.axmlw import StringPool, read_pool, res_value  # noqa: F401  (own code, androguard-free)

RES_TABLE_TYPE = 0x0002
RES_TABLE_PACKAGE_TYPE = 0x0200
RES_TABLE_TYPE_TYPE = 0x0201
RES_TABLE_TYPE_SPEC_TYPE = 0x0202
RES_TABLE_LIBRARY_TYPE = 0x0203
RES_TABLE_OVERLAYABLE_TYPE = 0x0204
RES_TABLE_STAGED_ALIAS_TYPE = 0x0206

FLAG_COMPLEX, FLAG_PUBLIC, FLAG_WEAK, FLAG_COMPACT = 1, 2, 4, 8
TYPE_FLAG_SPARSE, TYPE_FLAG_OFFSET16 = 0x01, 0x02
NO_ENTRY = 0xFFFFFFFF
SPEC_PUBLIC = 0x40000000

T_NULL, T_REF, T_ATTR, T_STRING, T_FLOAT, T_DIM, T_FRAC = 0, 1, 2, 3, 4, 5, 6
T_DEC, T_HEX, T_BOOL = 0x10, 0x11, 0x12
T_ARGB8, T_RGB8, T_ARGB4, T_RGB4 = 0x1C, 0x1D, 0x1E, 0x1F


def pack_lang_region(code, base):
    """ResTable_config::packLanguageOrRegion -> 2 bytes"""
    if not code:
        return b"\0\0"
    if len(code) == 2:
        return code.encode("ascii")
    f, s, t = [(ord(c) - ord(base)) & 0x7F for c in code]
    return bytes([(0x80 | (t << 2) | (s >> 3)) & 0xFF, ((s << 5) | f) & 0xFF])


def unpack_lang_region(b, base):
    if b[0] & 0x80:
        f = b[1] & 0x1F
        s = ((b[1] & 0xE0) >> 5) + ((b[0] & 0x03) << 3)
        t = (b[0] & 0x7C) >> 2
        return "".join(chr(x + ord(base)) for x in (f, s, t))
    return "".join(chr(x) for x in b if x)


class Config:
    def __init__(self, lang="", region="", density=0, sdk=0, size=64, script=b"", variant=b"", orientation=0, mcc=0, mnc=0,
                 screen_layout=0, ui_mode=0, sw_dp=0, w_dp=0, h_dp=0):
        self.lang, self.region, self.density, self.sdk, self.size = lang, region, density, sdk, size
        self.script, self.variant = script, variant
        self.orientation, self.mcc, self.mnc = orientation, mcc, mnc
        self.screen_layout, self.ui_mode, self.sw_dp, self.w_dp, self.h_dp = screen_layout, ui_mode, sw_dp, w_dp, h_dp

    def key(self):
        return (self.lang, self.region, self.density, self.sdk, bytes(self.script), bytes(self.variant), self.orientation, self.mcc, self.mnc,
                self.screen_layout, self.ui_mode, self.sw_dp, self.w_dp, self.h_dp)

    def locale_tag(self):
        """'' for the default locale, else lang[-rREGION]"""
        return self.lang + ("-r" + self.region if self.region else "")

    def pack(self):
        b = struct.pack("<IHH", self.size, self.mcc, self.mnc)
        b += pack_lang_region(self.lang, "a") + pack_lang_region(self.region, "0")
        b += struct.pack("<BBH", self.orientation, 0, self.density)
        b += struct.pack("<BBBB", 0, 0, 0, 0)
        b += struct.pack("<HH", 0, 0)
        b += struct.pack("<HH", self.sdk, 0)
        b += struct.pack("<BBH", self.screen_layout, self.ui_mode, self.sw_dp)
        b += struct.pack("<HH", self.w_dp, self.h_dp)
        b += bytes(self.script).ljust(4, b"\0") + bytes(self.variant).ljust(8, b"\0")
        b += struct.pack("<BBH", 0, 0, 0)
        b += b"\0" * 12
        assert len(b) == 64
        if self.size < 64:
            dropped = b[self.size:]
            if any(dropped):
                raise ValueError("config field does not fit into a %d-byte ResTable_config" % self.size)
        return b[:self.size]


class Value:
    """a Res_value; for T_STRING give `string`, the writer stores it in the global pool"""

    def __init__(self, dtype, data=0, string=None):
        self.dtype, self.data, self.string = dtype, data, string


class Entry:
    """kind: 'plain' | 'complex' | 'compact'.  complex: parent (res id or 0) and items [(name id, Value)]"""

    def __init__(self, key, kind="plain", value=None, parent=0, items=None, public=False, weak=False):
        self.key, self.kind, self.value, self.parent, self.items = key, kind, value, parent, items or []
        self.public, self.weak = public, weak


class TypeChunk:
    """one ResTable_type: a configuration and its entries {entry index: Entry}.  layout: 'normal' | 'sparse' | 'off16'"""

    def __init__(self, config, entries, layout="normal", share_identical=False):
        self.config, self.entries, self.layout, self.share_identical = config, entries, layout, share_identical


class ResType:
    def __init__(self, name, entry_count, chunks, spec_flags=None):
        self.name, self.entry_count, self.chunks, self.spec_flags = name, entry_count, chunks, spec_flags


class Package:
    def __init__(self, pid, name, types, header_size=288, utf8_types=True, utf8_keys=True, extra_chunks=(), unused_type_names=(), pre_chunks=()):
        self.pid, self.name, self.types, self.header_size = pid, name, types, header_size
        self.utf8_types, self.utf8_keys = utf8_types, utf8_keys
        self.pre_chunks = list(pre_chunks)  # raw chunks between the key pool and the first typeSpec (aapt2 puts the library chunk there)
        self.extra_chunks = list(extra_chunks)  # raw chunks appended after the types (overlayable, staged alias ...)
        self.unused_type_names = list(unused_type_names)  # type names at the end of the type pool with no typeSpec/type chunk


class Table:
    def __init__(self, packages, utf8=True, extra_strings=(), styled=(), dedupe=True):
        self.packages, self.utf8 = packages, utf8
        self.extra_strings = list(extra_strings)
        self.styled = list(styled)  # [(string, [(tag, first, last)])] placed first in the global pool (with their style spans)
        self.dedupe = dedupe


def chunk(ctype, header_rest, body):
    hsize = 8 + len(header_rest)
    return struct.pack("<HHI", ctype, hsize, hsize + len(body)) + header_rest + body


def library_chunk(libs):
    """ResTable_lib_header { hdr(0x0203, 12); u32 count } + count x { u32 packageId; u16 name[128] }"""
    body = b"".join(struct.pack("<I", pid) + name.encode("utf-16-le").ljust(256, b"\0") for pid, name in libs)
    return chunk(RES_TABLE_LIBRARY_TYPE, struct.pack("<I", len(libs)), body)


def build(table):
    gpool = StringPool(utf8=table.utf8)
    for i, (s, spans) in enumerate(table.styled):
        gpool.add(s, unique=True)
    tag_refs = []
    for i, (s, spans) in enumerate(table.styled):
        tag_refs.append([(gpool.add(tag), first, last) for tag, first, last in spans])
    for i, spans in enumerate(tag_refs):
        gpool.styles[i] = spans

    def gref(s):
        return gpool.add(s) if table.dedupe else gpool.add(s, unique=True)

    def val(v):
        if v.dtype == T_STRING and v.string is not None:
            v.data = gref(v.string)
        return res_value(v.dtype, v.data)

    pk_bytes = []
    for p in table.packages:
        tpool = StringPool(utf8=p.utf8_types)
        kpool = StringPool(utf8=p.utf8_keys)
        for t in p.types:
            tpool.add(t.name, unique=True)
        for n in p.unused_type_names:
            tpool.add(n, unique=True)
        body = bytearray()
        for x in p.pre_chunks:
            body += x
        for tid0, t in enumerate(p.types):
            tid = tid0 + 1
            if not t.chunks:
                continue
            flags = t.spec_flags or [0] * t.entry_count
            assert len(flags) == t.entry_count
            body += chunk(RES_TABLE_TYPE_SPEC_TYPE, struct.pack("<BBHI", tid, 0, 0, t.entry_count), b"".join(struct.pack("<I", f) for f in flags))
            for c in t.chunks:
                # entries in index order; offsets relative to entriesStart
                ebytes = bytearray()
                offs = {}
                seen = {}
                for idx in sorted(c.entries):
                    e = c.entries[idx]
                    assert 0 <= idx < t.entry_count
                    fl = (FLAG_PUBLIC if e.public else 0) | (FLAG_WEAK if e.weak else 0)
                    k = kpool.add(e.key)
                    if e.kind == "plain":
                        eb = struct.pack("<HHI", 8, fl, k) + val(e.value)
                    elif e.kind == "compact":
                        assert k < 0x10000
                        v = e.value
                        if v.dtype == T_STRING and v.string is not None:
                            v.data = gref(v.string)
                        eb = struct.pack("<HHI", k, fl | FLAG_COMPACT | (v.dtype << 8), v.data & 0xFFFFFFFF)
                    else:
                        eb = struct.pack("<HHIII", 16, fl | FLAG_COMPLEX, k, e.parent, len(e.items))
                        for name, v in e.items:
                            eb += struct.pack("<I", name & 0xFFFFFFFF) + val(v)
                    if c.share_identical and bytes(eb) in seen:
                        offs[idx] = seen[bytes(eb)]
                        continue
                    seen[bytes(eb)] = len(ebytes)
                    offs[idx] = len(ebytes)
                    ebytes += eb
                if c.layout == "sparse":
                    tflags = TYPE_FLAG_SPARSE
                    count = len(offs)
                    otab = b"".join(struct.pack("<HH", idx, offs[idx] // 4) for idx in sorted(offs))
                elif c.layout == "off16":
                    tflags = TYPE_FLAG_OFFSET16
                    count = t.entry_count
                    otab = b"".join(struct.pack("<H", offs[i] // 4 if i in offs else 0xFFFF) for i in range(count))
                    if len(otab) % 4:
                        otab += b"\0\0"
                else:
                    tflags = 0
                    count = t.entry_count
                    otab = b"".join(struct.pack("<I", offs.get(i, NO_ENTRY)) for i in range(count))
                if c.layout != "normal" and any(o // 4 >= 0xFFFF for o in offs.values()):
                    raise ValueError("entry offsets do not fit into 16 bits")
                cfg = c.config.pack()
                hsize = 8 + 12 + len(cfg)
                entries_start = hsize + len(otab)
                body += chunk(RES_TABLE_TYPE_TYPE, struct.pack("<BBHII", tid, tflags, 0, count, entries_start) + cfg, otab + bytes(ebytes))
        for x in p.extra_chunks:
            body += x
        tp = tpool.build()
        kp = kpool.build()
        name16 = p.name.encode("utf-16-le")
        assert len(name16) <= 254
        hrest = struct.pack("<I", p.pid) + name16.ljust(256, b"\0") + struct.pack("<IIII", p.header_size, len(tpool.strings), p.header_size + len(tp), len(kpool.strings))
        if p.header_size == 288:
            hrest += struct.pack("<I", 0)
        assert 8 + len(hrest) == p.header_size
        pk_bytes.append(chunk(RES_TABLE_PACKAGE_TYPE, hrest, tp + kp + bytes(body)))
    for s in table.extra_strings:
        gpool.add(s, unique=True)
    return chunk(RES_TABLE_TYPE, struct.pack("<I", len(table.packages)), gpool.build() + b"".join(pk_bytes))


# ---------------------------------------------------------------------------------------------------------------------
# strict independent reader
# ---------------------------------------------------------------------------------------------------------------------
def read_config(buf, off):
    size, = struct.unpack_from("<I", buf, off)
    raw = bytes(buf[off:off + size]).ljust(64, b"\0")
    mcc, mnc = struct.unpack_from("<HH", raw, 4)
    lang = unpack_lang_region(raw[8:10], "a")
    region = unpack_lang_region(raw[10:12], "0")
    orientation, touch, density = struct.unpack_from("<BBH", raw, 12)
    sdk, minor = struct.unpack_from("<HH", raw, 24)
    sl, ui, sw = struct.unpack_from("<BBH", raw, 28)
    w, h = struct.unpack_from("<HH", raw, 32)
    c = Config(lang, region, density, sdk, size, raw[36:40].rstrip(b"\0"), raw[40:48].rstrip(b"\0"), orientation, mcc, mnc, sl, ui, sw, w, h)
    c.raw = raw[:size]
    return c, size


def read_back(buf):
    """-> {"strings": [...], "packages": [{"id","name","types":{tid:{"name","entry_count","spec_flags","chunks":[{"config","layout","entries":{idx: entry}}]}}}]}
    entry = {"kind","flags","key","value":(dtype,data) | "parent","items":[(name,(dtype,data))]}"""
    ctype, hsize, total, npk = struct.unpack_from("<HHII", buf, 0)
    if ctype != RES_TABLE_TYPE or hsize != 12 or total != len(buf):
        raise ValueError("bad table header")
    off = 12
    out = {"packages": []}
    strings, psize, _ = read_pool(buf, off)
    out["strings"] = strings
    off += psize
    while off < total:
        ctype, hsize, size = struct.unpack_from("<HHI", buf, off)
        if ctype != RES_TABLE_PACKAGE_TYPE:
            raise ValueError("unexpected chunk %x in table" % ctype)
        pid, = struct.unpack_from("<I", buf, off + 8)
        name = bytes(buf[off + 12:off + 268]).decode("utf-16-le").split("\0")[0]
        tso, lpt, kso, lpk = struct.unpack_from("<IIII", buf, off + 268)
        tnames, tsize, _ = read_pool(buf, off + tso)
        knames, ksize, _ = read_pool(buf, off + kso)
        pk = {"id": pid, "name": name, "types": {}, "type_names": tnames, "key_names": knames, "other_chunks": []}
        p = off + kso + ksize
        if tso != hsize or kso != tso + tsize:
            raise ValueError("pools not contiguous after the package header")
        end = off + size
        while p < end:
            ct, hs, sz = struct.unpack_from("<HHI", buf, p)
            if sz < hs or p + sz > end or sz % 4:
                raise ValueError("bad chunk in package at %d" % p)
            if ct == RES_TABLE_TYPE_SPEC_TYPE:
                tid, res0, res1, n = struct.unpack_from("<BBHI", buf, p + 8)
                t = pk["types"].setdefault(tid, {"name": tnames[tid - 1], "chunks": []})
                t["entry_count"] = n
                t["spec_flags"] = list(struct.unpack_from("<%dI" % n, buf, p + hs))
            elif ct == RES_TABLE_TYPE_TYPE:
                tid, fl, rsv, n, estart = struct.unpack_from("<BBHII", buf, p + 8)
                cfg, csize = read_config(buf, p + 20)
                if hs != 20 + csize:
                    raise ValueError("type header size")
                t = pk["types"].setdefault(tid, {"name": tnames[tid - 1], "chunks": []})
                o = p + hs
                offs = {}
                if fl & TYPE_FLAG_SPARSE:
                    layout = "sparse"
                    last = -1
                    for i in range(n):
                        idx, o16 = struct.unpack_from("<HH", buf, o + 4 * i)
                        if idx <= last:
                            raise ValueError("sparse entries not sorted")
                        last = idx
                        offs[idx] = o16 * 4
                elif fl & TYPE_FLAG_OFFSET16:
                    layout = "off16"
                    for i in range(n):
                        o16, = struct.unpack_from("<H", buf, o + 2 * i)
                        if o16 != 0xFFFF:
                            offs[i] = o16 * 4
                else:
                    layout = "normal"
                    for i in range(n):
                        o32, = struct.unpack_from("<I", buf, o + 4 * i)
                        if o32 != NO_ENTRY:
                            offs[i] = o32
                entries = {}
                for idx, eo in offs.items():
                    q = p + estart + eo
                    a, eflags, b = struct.unpack_from("<HHI", buf, q)
                    if eflags & FLAG_COMPACT:
                        entries[idx] = {"kind": "compact", "flags": eflags & 0xFF, "key": knames[a], "value": (eflags >> 8, b)}
                    elif eflags & FLAG_COMPLEX:
                        parent, cnt = struct.unpack_from("<II", buf, q + 8)
                        items = []
                        for k in range(cnt):
                            nm, vs, r0, dt, d = struct.unpack_from("<IHBBI", buf, q + 16 + 12 * k)
                            items.append((nm, (dt, d)))
                        entries[idx] = {"kind": "complex", "flags": eflags, "key": knames[b], "parent": parent, "items": items}
                    else:
                        vs, r0, dt, d = struct.unpack_from("<HBBI", buf, q + 8)
                        if a != 8 or vs != 8:
                            raise ValueError("bad plain entry")
                        entries[idx] = {"kind": "plain", "flags": eflags, "key": knames[b], "value": (dt, d)}
                    if q + 8 > p + sz:
                        raise ValueError("entry outside chunk")
                t["chunks"].append({"config": cfg, "layout": layout, "entries": entries, "entry_count": n})
            else:
                pk["other_chunks"].append(ct)
            p += sz
        out["packages"].append(pk)
        off += size
    if len(out["packages"]) != npk:
        raise ValueError("package count")
    return out


def selfcheck(table, data):
    r = read_back(data)
    assert [p["name"] for p in r["packages"]] == [p.name for p in table.packages]
    for p, rp in zip(table.packages, r["packages"]):
        assert rp["id"] == p.pid
        for tid0, t in enumerate(p.types):
            if not t.chunks:
                assert (tid0 + 1) not in rp["types"]
                continue
            rt = rp["types"][tid0 + 1]
            assert rt["name"] == t.name and rt["entry_count"] == t.entry_count and len(rt["chunks"]) == len(t.chunks)
            for c, rc in zip(t.chunks, rt["chunks"]):
                assert rc["config"].key() == c.config.key(), (rc["config"].key(), c.config.key())
                assert rc["layout"] == c.layout and set(rc["entries"]) == set(c.entries)
                for idx, e in c.entries.items():
                    re_ = rc["entries"][idx]
                    assert re_["kind"] == e.kind and re_["key"] == e.key
                    assert bool(re_["flags"] & FLAG_PUBLIC) == e.public and bool(re_["flags"] & FLAG_WEAK) == e.weak
                    if e.kind == "complex":
                        assert re_["parent"] == e.parent
                        assert [(n & 0xFFFFFFFF, (v.dtype, v.data & 0xFFFFFFFF)) for n, v in e.items] == re_["items"]
                        for (n, v), (_, (dt, d)) in zip(e.items, re_["items"]):
                            if v.dtype == T_STRING and v.string is not None:
                                assert r["strings"][d] == v.string
                    else:
                        assert re_["value"] == (e.value.dtype, e.value.data & 0xFFFFFFFF)
                        if e.value.dtype == T_STRING and e.value.string is not None:
                            assert r["strings"][e.value.data] == e.value.string
    return True
