"""zip / APK builder on top of python's zipfile (never imports androguard).

Model: an archive is an ordered list of Entry(name, data, method, extra, comment) plus an archive comment.
build_zip() writes it with zipfile (stored / deflated, arbitrary names: zipfile encodes non-ASCII names as UTF-8 and sets
general purpose bit 11), read_zip() is the second reader used as oracle (zipfile over the same bytes), self_check() compares both.
A parseable binary AndroidManifest.xml is not generated here: its bytes are copied at run time from an APK shipped with the project
under test (tests/data/APK), chosen by the minSdkVersion it declares.
"""
import io
import os
import struct
import zipfile
import zlib

REPO = os.environ.get("VERIF_REPO", "/repo")
STORED = zipfile.ZIP_STORED
DEFLATED = zipfile.ZIP_DEFLATED

EOCD_SIG = b"PK\x05\x06"
CD_SIG = b"PK\x01\x02"
LH_SIG = b"PK\x03\x04"

# shipped APKs whose AndroidManifest.xml androguard is known to parse; value = (relative path, minSdkVersion it declares)
MANIFEST_SOURCES = {
    "sdk9": ("tests/data/APK/TestActivity.apk", 9),  # < 24: androguard tries only the first SignerInfo
    "sdk23": ("tests/data/APK/apksig/golden-aligned-in.apk", 23),
    "sdk29": ("tests/data/APK/apksig/v31-ec-p256-2-tgt-33-1-tgt-28-targetSdk-30.apk", 29),  # >= 24: all SignerInfos are tried
}
_manifest_cache = {}


def manifest_blob(kind="sdk9"):
    """bytes of a valid binary AndroidManifest.xml taken from a shipped APK (read with zipfile)."""
    if kind not in _manifest_cache:
        rel, _ = MANIFEST_SOURCES[kind]
        with zipfile.ZipFile(os.path.join(REPO, rel)) as z:
            _manifest_cache[kind] = z.read("AndroidManifest.xml")
    return _manifest_cache[kind]


def manifest_min_sdk(kind):
    return MANIFEST_SOURCES[kind][1]


class Entry:
    __slots__ = ("name", "data", "method", "extra", "comment", "level")

    def __init__(self, name, data=b"", method=STORED, extra=b"", comment=b"", level=6):
        self.name = name
        self.data = bytes(data)
        self.method = method
        self.extra = extra
        self.comment = comment
        self.level = level

    def describe(self):
        return {"name": self.name, "len": len(self.data), "method": "deflated" if self.method == DEFLATED else "stored",
                "extra": len(self.extra), "head": self.data[:16].hex()}


def build_zip(entries, comment=b""):
    """-> bytes of a zip archive holding the entries in order. Names must be distinct (zipfile would only warn)."""
    seen = set()
    buf = io.BytesIO()
    with zipfile.ZipFile(buf, "w") as z:
        for e in entries:
            if e.name in seen:
                raise ValueError("duplicate entry name %r" % e.name)
            seen.add(e.name)
            if "\x00" in e.name:
                raise ValueError("NUL in entry name")
            zi = zipfile.ZipInfo(e.name, date_time=(2008, 1, 1, 0, 0, 0))
            zi.compress_type = e.method
            zi.external_attr = (0o40755 << 16 | 0x10) if e.name.endswith("/") else (0o100644 << 16)
            if e.extra:
                zi.extra = e.extra
            if e.comment:
                zi.comment = e.comment
            z.writestr(zi, e.data, compress_type=e.method, compresslevel=e.level if e.method == DEFLATED else None)
        if comment:
            z.comment = comment
    return buf.getvalue()


def build_apk(entries, manifest="sdk9", manifest_method=DEFLATED, manifest_pos=0, comment=b""):
    """archive with an AndroidManifest.xml entry inserted at position manifest_pos (manifest=None: no manifest,
    manifest=bytes: those bytes)."""
    entries = list(entries)
    if manifest is not None:
        blob = manifest if isinstance(manifest, (bytes, bytearray)) else manifest_blob(manifest)
        entries.insert(min(manifest_pos, len(entries)), Entry("AndroidManifest.xml", blob, manifest_method))
    return build_zip(entries, comment)


def read_zip(data):
    """second reader: -> list of (name, content) in central directory order, read by zipfile (CRC checked)."""
    out = []
    with zipfile.ZipFile(io.BytesIO(data)) as z:
        for zi in z.infolist():
            out.append((zi.filename, z.read(zi)))
    return out


def find_eocd(data):
    """offset of the end-of-central-directory record (last one whose comment length reaches the end of the file)."""
    i = len(data) - 22
    while i >= 0:
        if data[i:i + 4] == EOCD_SIG:
            (clen,) = struct.unpack_from("<H", data, i + 20)
            if i + 22 + clen == len(data):
                return i
        i -= 1
    raise ValueError("no EOCD")


def eocd_fields(data):
    """-> dict(eocd_off, entries, cd_size, cd_off, comment_len)"""
    off = find_eocd(data)
    disk, cddisk, n_here, n_total, cd_size, cd_off, clen = struct.unpack_from("<HHHHIIH", data, off + 4)
    return {"eocd_off": off, "entries": n_total, "cd_size": cd_size, "cd_off": cd_off, "comment_len": clen}


def self_check(data, entries, comment=b""):
    """-> list of problems: structural validation of build_zip's output against the model."""
    probs = []
    try:
        e = eocd_fields(data)
    except ValueError as ex:
        return [str(ex)]
    if e["entries"] != len(entries):
        probs.append("entry count %d != %d" % (e["entries"], len(entries)))
    if e["cd_off"] + e["cd_size"] != e["eocd_off"]:
        probs.append("central directory does not end at the EOCD")
    if len(entries) and data[e["cd_off"]:e["cd_off"] + 4] != CD_SIG:
        probs.append("no central directory header at cd_off")
    if data[e["eocd_off"] + 22:] != comment:
        probs.append("archive comment differs")
    try:
        got = read_zip(data)
    except Exception as ex:  # zipfile refuses (bad CRC, ...)
        return probs + ["zipfile: %r" % ex]
    want = [(x.name, x.data) for x in entries]
    if got != want:
        probs.append("zipfile reads different names/contents than the model")
    # local headers: method and sizes as modelled
    pos = e["cd_off"]
    for x in entries:
        if data[pos:pos + 4] != CD_SIG:
            probs.append("central directory entry missing for %r" % x.name)
            break
        (vm, vn, flags, method, t, d, crc, csize, usize, nlen, xlen, clen, dn, ia, ea, lho) = struct.unpack_from("<HHHHHHIIIHHHHHII", data, pos + 4)
        if method != x.method or usize != len(x.data) or crc != (zlib.crc32(x.data) & 0xFFFFFFFF):
            probs.append("central directory fields differ for %r" % x.name)
        if data[lho:lho + 4] != LH_SIG:
            probs.append("no local header for %r" % x.name)
        pos += 46 + nlen + xlen + clen
    return probs
