"""DEX writer: model -> bytes, from the "Dalvik executable format" specification. Never imports androguard.

Model
-----
DexModel.classes: list of ClassDef (in the order they should appear in class_defs; the writer checks that
superclass/interfaces defined in the same file come first and reorders if asked).
Code.insns: list of items; an item is an int (one raw code unit) or a tuple (mnemonic, *args) where index arguments are
Ref objects (Str, Typ, Fld, Mth, Pro) that the writer resolves to pool indices after sorting the pools.
"""
import hashlib
import struct
import zlib

from vf.model import dalvik

ACC_PUBLIC, ACC_PRIVATE, ACC_PROTECTED, ACC_STATIC, ACC_FINAL = 0x1, 0x2, 0x4, 0x8, 0x10
ACC_SYNCHRONIZED, ACC_VOLATILE, ACC_BRIDGE, ACC_TRANSIENT, ACC_VARARGS = 0x20, 0x40, 0x40, 0x80, 0x80
ACC_NATIVE, ACC_INTERFACE, ACC_ABSTRACT, ACC_STRICT, ACC_SYNTHETIC = 0x100, 0x200, 0x400, 0x800, 0x1000
ACC_ANNOTATION, ACC_ENUM, ACC_CONSTRUCTOR, ACC_DECLARED_SYNCHRONIZED = 0x2000, 0x4000, 0x10000, 0x20000

NO_INDEX = 0xFFFFFFFF

T_HEADER, T_STRING_ID, T_TYPE_ID, T_PROTO_ID, T_FIELD_ID, T_METHOD_ID, T_CLASS_DEF = 0, 1, 2, 3, 4, 5, 6
T_MAP_LIST, T_TYPE_LIST, T_ANN_SET_REF_LIST, T_ANN_SET = 0x1000, 0x1001, 0x1002, 0x1003
T_CALL_SITE_ID, T_METHOD_HANDLE = 7, 8
T_CLASS_DATA, T_CODE, T_STRING_DATA, T_DEBUG_INFO, T_ANNOTATION, T_ENCODED_ARRAY, T_ANN_DIR = 0x2000, 0x2001, 0x2002, 0x2003, 0x2004, 0x2005, 0x2006

V_BYTE, V_SHORT, V_CHAR, V_INT, V_LONG, V_FLOAT, V_DOUBLE = 0x00, 0x02, 0x03, 0x04, 0x06, 0x10, 0x11
V_METHOD_TYPE, V_METHOD_HANDLE, V_STRING, V_TYPE, V_FIELD, V_METHOD, V_ENUM = 0x15, 0x16, 0x17, 0x18, 0x19, 0x1A, 0x1B
V_ARRAY, V_ANNOTATION, V_NULL, V_BOOLEAN = 0x1C, 0x1D, 0x1E, 0x1F


# ---- references ---------------------------------------------------------------------------------
class Str:
    def __init__(self, s):
        self.s = s

    def key(self):
        return ("S", self.s)


class Typ:
    def __init__(self, d):
        self.d = d

    def key(self):
        return ("T", self.d)


class Pro:
    def __init__(self, ret, params):
        self.ret, self.params = ret, tuple(params)

    def key(self):
        return ("P", self.ret, self.params)


class Fld:
    def __init__(self, cls, name, type):
        self.cls, self.name, self.type = cls, name, type

    def key(self):
        return ("F", self.cls, self.name, self.type)


class Mth:
    def __init__(self, cls, name, ret, params):
        self.cls, self.name, self.ret, self.params = cls, name, ret, tuple(params)

    def key(self):
        return ("M", self.cls, self.name, self.ret, self.params)

    @property
    def proto(self):
        return Pro(self.ret, self.params)


# ---- model ----------------------------------------------------------------------------------------
class EV:
    """encoded_value model. value meaning by type: ints -> python int; V_STRING -> str; V_TYPE -> descriptor;
    V_FIELD/V_ENUM -> Fld; V_METHOD -> Mth; V_ARRAY -> list[EV]; V_ANNOTATION -> Annotation; V_BOOLEAN -> bool; V_NULL -> None;
    V_FLOAT/V_DOUBLE -> raw bit pattern int. width: number of value bytes to emit (None = minimal)."""

    def __init__(self, vtype, value=None, width=None):
        self.vtype, self.value, self.width = vtype, value, width


class Annotation:
    def __init__(self, type_desc, elements, visibility=1):
        self.type, self.elements, self.visibility = type_desc, list(elements), visibility  # elements: [(name, EV)]


class Field:
    def __init__(self, cls, name, type, access=0, init=None, annotations=()):
        self.cls, self.name, self.type, self.access, self.init, self.annotations = cls, name, type, access, init, list(annotations)

    @property
    def ref(self):
        return Fld(self.cls, self.name, self.type)


class Try:
    def __init__(self, start, count, handlers, catch_all=None, share=None):
        """start/count in code units; handlers: [(type desc, addr units)], catch_all: addr or None.
        share: an int key - tries with the same key share one encoded_catch_handler (must have equal handlers)."""
        self.start, self.count, self.handlers, self.catch_all, self.share = start, count, list(handlers), catch_all, share


class Code:
    def __init__(self, registers, ins, outs, insns, tries=(), debug=None):
        self.registers, self.ins, self.outs, self.insns, self.tries, self.debug = registers, ins, outs, list(insns), list(tries), debug


class Method:
    def __init__(self, cls, name, ret, params, access=0, code=None, annotations=()):
        self.cls, self.name, self.ret, self.params, self.access, self.code = cls, name, ret, tuple(params), access, code
        self.annotations = list(annotations)

    @property
    def ref(self):
        return Mth(self.cls, self.name, self.ret, self.params)


class ClassDef:
    def __init__(self, name, access=ACC_PUBLIC, super="Ljava/lang/Object;", interfaces=(), source=None):
        self.name, self.access, self.super, self.interfaces, self.source = name, access, super, list(interfaces), source
        self.static_fields, self.instance_fields, self.direct_methods, self.virtual_methods = [], [], [], []
        self.annotations = []
        self.static_values_count = None  # None: up to the last field having an init value

    def add_field(self, name, type, access=0, init=None, annotations=()):
        f = Field(self.name, name, type, access, init, annotations)
        (self.static_fields if access & ACC_STATIC else self.instance_fields).append(f)
        return f

    def add_method(self, name, ret, params, access=0, code=None, annotations=()):
        m = Method(self.name, name, ret, params, access, code, annotations)
        direct = bool(access & (ACC_STATIC | ACC_PRIVATE | ACC_CONSTRUCTOR))
        (self.direct_methods if direct else self.virtual_methods).append(m)
        return m


class DexModel:
    def __init__(self):
        self.classes = []
        self.extra_refs = []  # Ref objects that must be in the pools although nothing references them
        self.version = b"035"
        # DEX 038+: method_handle_item list [(handle type 0..8, Fld | Mth)] and call_site_item list [[EV, ...]] (each an encoded_array_item:
        # [method handle, method name string, method type, extra constants...]); an invoke-custom operand indexes call_sites
        self.method_handles = []
        self.call_sites = []

    def add_class(self, *a, **k):
        c = ClassDef(*a, **k)
        self.classes.append(c)
        return c


# ---- primitives -----------------------------------------------------------------------------------
def uleb(v, pad=0):
    """pad > 0: a valid but NON-minimal encoding, `pad` redundant high groups (at most 5 bytes in all)"""
    assert v >= 0
    out = bytearray()
    while True:
        b = v & 0x7F
        v >>= 7
        if v:
            out.append(b | 0x80)
        else:
            out.append(b)
            break
    pad = min(pad, 5 - len(out))
    if pad > 0:
        out[-1] |= 0x80
        out += b"\x80" * (pad - 1) + b"\x00"
    return bytes(out)


def sleb(v, pad=0):
    out = bytearray()
    while True:
        b = v & 0x7F
        v >>= 7
        if (v == 0 and not b & 0x40) or (v == -1 and b & 0x40):
            out.append(b)
            break
        out.append(b | 0x80)
    pad = min(pad, 5 - len(out))
    if pad > 0:
        neg = bool(out[-1] & 0x40)
        out[-1] |= 0x80
        out += (b"\xff" if neg else b"\x80") * (pad - 1) + (b"\x7f" if neg else b"\x00")
    return bytes(out)


def utf16_units(s):
    b = s.encode("utf-16-le", "surrogatepass")
    return [b[i] | (b[i + 1] << 8) for i in range(0, len(b), 2)]


def mutf8(s):
    """python str (may contain lone surrogates / non-BMP) -> (MUTF-8 bytes without terminator, utf16 length)"""
    units = utf16_units(s)
    out = bytearray()
    for u in units:
        if u != 0 and u < 0x80:
            out.append(u)
        elif u < 0x800:
            out.append(0xC0 | (u >> 6))
            out.append(0x80 | (u & 0x3F))
        else:
            out.append(0xE0 | (u >> 12))
            out.append(0x80 | ((u >> 6) & 0x3F))
            out.append(0x80 | (u & 0x3F))
    return bytes(out), len(units)


def shorty_char(d):
    return "L" if d[0] in "L[" else d


def shorty(ret, params):
    return shorty_char(ret) + "".join(shorty_char(p) for p in params)


def string_sort_key(s):
    # "sorted by string contents, using UTF-16 code point values"
    return utf16_units(s)


def min_signed_bytes(v):
    n = 1
    while not (-(1 << (8 * n - 1)) <= v < (1 << (8 * n - 1))):
        n += 1
    return n


def min_unsigned_bytes(v):
    n = 1
    while v >= (1 << (8 * n)):
        n += 1
    return n


class Writer:
    def __init__(self, model, opts=None):
        self.m = model
        self.o = opts or {}
        self.strings, self.types, self.protos, self.fields, self.methods = set(), set(), set(), set(), set()

    # -- collection ---------------------------------------------------------------------------------
    def add_ref(self, r):
        if isinstance(r, Str):
            self.strings.add(r.s)
        elif isinstance(r, Typ):
            self.add_type(r.d)
        elif isinstance(r, Pro):
            self.add_proto(r.ret, r.params)
        elif isinstance(r, Fld):
            self.fields.add((r.cls, r.name, r.type))
            self.add_type(r.cls)
            self.add_type(r.type)
            self.strings.add(r.name)
        elif isinstance(r, Mth):
            self.methods.add((r.cls, r.name, r.ret, r.params))
            self.add_type(r.cls)
            self.strings.add(r.name)
            self.add_proto(r.ret, r.params)
        else:
            raise TypeError(r)

    def add_type(self, d):
        self.types.add(d)
        self.strings.add(d)

    def add_proto(self, ret, params):
        self.protos.add((ret, tuple(params)))
        self.add_type(ret)
        for p in params:
            self.add_type(p)
        self.strings.add(shorty(ret, params))

    def collect_ev(self, ev):
        t = ev.vtype
        if t == V_STRING:
            self.strings.add(ev.value)
        elif t == V_TYPE:
            self.add_type(ev.value)
        elif t in (V_FIELD, V_ENUM, V_METHOD):
            self.add_ref(ev.value)
        elif t == V_METHOD_TYPE:
            self.add_ref(ev.value)
        elif t == V_ARRAY:
            for e in ev.value:
                self.collect_ev(e)
        elif t == V_ANNOTATION:
            self.collect_annotation(ev.value)

    def collect_annotation(self, a):
        self.add_type(a.type)
        for name, ev in a.elements:
            self.strings.add(name)
            self.collect_ev(ev)

    def collect(self):
        for r in self.m.extra_refs:
            self.add_ref(r)
        for _, r in self.m.method_handles:
            self.add_ref(r)
        for cs in self.m.call_sites:
            for ev in cs:
                self.collect_ev(ev)
        for c in self.m.classes:
            self.add_type(c.name)
            if c.super is not None:
                self.add_type(c.super)
            for i in c.interfaces:
                self.add_type(i)
            if c.source is not None:
                self.strings.add(c.source)
            for a in c.annotations:
                self.collect_annotation(a)
            for f in c.static_fields + c.instance_fields:
                self.add_ref(f.ref)
                if f.init is not None:
                    self.collect_ev(f.init)
                for a in f.annotations:
                    self.collect_annotation(a)
            for mt in c.direct_methods + c.virtual_methods:
                self.add_ref(mt.ref)
                for a in mt.annotations:
                    self.collect_annotation(a)
                if mt.code:
                    for it in mt.code.insns:
                        if isinstance(it, tuple):
                            for x in it[1:]:
                                if isinstance(x, (Str, Typ, Pro, Fld, Mth)):
                                    self.add_ref(x)
                    for t in mt.code.tries:
                        for ty, _ in t.handlers:
                            self.add_type(ty)
                    if mt.code.debug:
                        for nm in mt.code.debug.get("param_names", []):
                            if nm is not None:
                                self.strings.add(nm)

    # -- pools --------------------------------------------------------------------------------------
    def sort_pools(self):
        self.string_list = sorted(self.strings, key=string_sort_key)
        self.sidx = {s: i for i, s in enumerate(self.string_list)}
        self.type_list = sorted(self.types, key=lambda d: self.sidx[d])
        self.tidx = {d: i for i, d in enumerate(self.type_list)}
        self.proto_list = sorted(self.protos, key=lambda p: (self.tidx[p[0]], [self.tidx[x] for x in p[1]]))
        self.pidx = {p: i for i, p in enumerate(self.proto_list)}
        self.field_list = sorted(self.fields, key=lambda f: (self.tidx[f[0]], self.sidx[f[1]], self.tidx[f[2]]))
        self.fidx = {f: i for i, f in enumerate(self.field_list)}
        self.method_list = sorted(self.methods, key=lambda m: (self.tidx[m[0]], self.sidx[m[1]], self.pidx[(m[2], m[3])]))
        self.midx = {m: i for i, m in enumerate(self.method_list)}

    def ref_index(self, r):
        if isinstance(r, Str):
            return self.sidx[r.s]
        if isinstance(r, Typ):
            return self.tidx[r.d]
        if isinstance(r, Pro):
            return self.pidx[(r.ret, r.params)]
        if isinstance(r, Fld):
            return self.fidx[(r.cls, r.name, r.type)]
        if isinstance(r, Mth):
            return self.midx[(r.cls, r.name, r.ret, r.params)]
        raise TypeError(r)

    # -- encoded values --------------------------------------------------------------------------------
    def enc_ev(self, ev):
        t = ev.vtype
        if t in (V_BYTE, V_SHORT, V_INT, V_LONG):
            v = ev.value
            n = ev.width or min_signed_bytes(v)
            if t == V_BYTE:
                n = 1
            data = (v & ((1 << (8 * n)) - 1)).to_bytes(n, "little")
            return bytes([((n - 1) << 5) | t]) + data
        if t == V_CHAR:
            v = ev.value
            n = ev.width or min_unsigned_bytes(v)
            return bytes([((n - 1) << 5) | t]) + v.to_bytes(n, "little")
        if t in (V_FLOAT, V_DOUBLE):
            full = 4 if t == V_FLOAT else 8
            raw = ev.value.to_bytes(full, "little")
            n = ev.width
            if n is None:
                n = full
                while n > 1 and raw[full - n] == 0:
                    n -= 1
            return bytes([((n - 1) << 5) | t]) + raw[full - n:]
        if t in (V_STRING, V_TYPE, V_FIELD, V_METHOD, V_ENUM, V_METHOD_TYPE):
            if t == V_STRING:
                idx = self.sidx[ev.value]
            elif t == V_TYPE:
                idx = self.tidx[ev.value]
            else:
                idx = self.ref_index(ev.value)
            n = ev.width or min_unsigned_bytes(idx)
            return bytes([((n - 1) << 5) | t]) + idx.to_bytes(n, "little")
        if t == V_METHOD_HANDLE:
            idx = ev.value          # index into the method_handles list
            n = ev.width or min_unsigned_bytes(idx)
            return bytes([((n - 1) << 5) | t]) + idx.to_bytes(n, "little")
        if t == V_ARRAY:
            return bytes([t]) + self.enc_array(ev.value)
        if t == V_ANNOTATION:
            return bytes([t]) + self.enc_annotation(ev.value)
        if t == V_NULL:
            return bytes([t])
        if t == V_BOOLEAN:
            return bytes([(1 << 5 if ev.value else 0) | t])
        raise ValueError(t)

    def enc_array(self, evs):
        return uleb(len(evs)) + b"".join(self.enc_ev(e) for e in evs)

    def enc_annotation(self, a):
        els = sorted(a.elements, key=lambda e: self.sidx[e[0]])
        out = uleb(self.tidx[a.type]) + uleb(len(els))
        for name, ev in els:
            out += uleb(self.sidx[name]) + self.enc_ev(ev)
        return out

    # -- code ------------------------------------------------------------------------------------------
    def assemble(self, insns):
        units = []
        for it in insns:
            if isinstance(it, int):
                units.append(it & 0xFFFF)
            else:
                args = [self.ref_index(x) if isinstance(x, (Str, Typ, Pro, Fld, Mth)) else x for x in it[1:]]
                units += dalvik.enc(it[0], *args)
        return units

    def enc_code(self, code, debug_off):
        units = self.assemble(code.insns)
        out = struct.pack("<HHHHII", code.registers, code.ins, code.outs, len(code.tries), debug_off, len(units))
        out += dalvik.units_to_bytes(units)
        if code.tries:
            if len(units) % 2:
                out += b"\0\0"
            # handler list
            hl = []  # encoded handlers in order
            keyoff = {}
            for t in code.tries:
                k = ("share", t.share) if t.share is not None else ("own", id(t))
                if k in keyoff:
                    continue
                enc = b""
                n = len(t.handlers)
                fat = getattr(code, "fat_leb", None)     # callable -> pad for the next number, or None (minimal encodings)
                pad = fat if fat else (lambda: 0)
                enc += sleb(-n if t.catch_all is not None else n, pad())
                for ty, addr in t.handlers:
                    enc += uleb(self.tidx[ty], pad()) + uleb(addr, pad())
                if t.catch_all is not None:
                    enc += uleb(t.catch_all, pad())
                keyoff[k] = len(hl)
                hl.append(enc)
            prefix = uleb(len(hl))
            offs = []
            pos = len(prefix)
            for e in hl:
                offs.append(pos)
                pos += len(e)
            for t in code.tries:
                k = ("share", t.share) if t.share is not None else ("own", id(t))
                out += struct.pack("<IHH", t.start, t.count, offs[keyoff[k]])
            out += prefix + b"".join(hl)
        return out, units

    def enc_debug(self, dbg):
        out = uleb(dbg.get("line_start", 1))
        names = dbg.get("param_names", [])
        out += uleb(len(names))
        for nm in names:
            out += uleb(0 if nm is None else self.sidx[nm] + 1)
        out += bytes(dbg.get("ops", [])) + b"\0"
        return out

    # -- layout ----------------------------------------------------------------------------------------
    def write(self):
        o = self.o
        self.collect()
        self.sort_pools()
        m = self.m
        classes = list(m.classes)
        if o.get("order_classes", True):
            # superclass / interfaces defined in this file must precede
            byname = {c.name: c for c in classes}
            done, order = set(), []

            def visit(c):
                if c.name in done:
                    return
                done.add(c.name)
                for dep in [c.super] + c.interfaces:
                    if dep in byname:
                        visit(byname[dep])
                order.append(c)
            for c in classes:
                visit(c)
            classes = order
        self.class_order = classes
        buf = bytearray(0x70)
        sections = {}  # type -> (count, offset)

        def align(n):
            while len(buf) % n:
                buf.append(0)

        # id sections (placeholders filled later)
        def reserve(t, count, size):
            align(4)
            off = len(buf) if count else 0
            if count:
                sections[t] = (count, off)
            buf.extend(b"\0" * (count * size))
            return off
        string_ids_off = reserve(T_STRING_ID, len(self.string_list), 4)
        type_ids_off = reserve(T_TYPE_ID, len(self.type_list), 4)
        proto_ids_off = reserve(T_PROTO_ID, len(self.proto_list), 12)
        field_ids_off = reserve(T_FIELD_ID, len(self.field_list), 8)
        method_ids_off = reserve(T_METHOD_ID, len(self.method_list), 8)
        class_defs_off = reserve(T_CLASS_DEF, len(classes), 32)
        call_site_ids_off = reserve(T_CALL_SITE_ID, len(m.call_sites), 4)
        method_handles_off = reserve(T_METHOD_HANDLE, len(m.method_handles), 8)
        data_off = len(buf)

        # ---- data: type lists
        tl_off = {}
        tls = []
        for p in self.proto_list:
            if p[1] and p[1] not in tl_off:
                tl_off[p[1]] = None
                tls.append(p[1])
        for c in classes:
            k = tuple(c.interfaces)
            if k and k not in tl_off:
                tl_off[k] = None
                tls.append(k)
        if o.get("sort_type_lists", True):
            tls.sort(key=lambda k: [self.tidx[x] for x in k])
        first = None
        for k in tls:
            align(4)
            if first is None:
                first = len(buf)
            tl_off[k] = len(buf)
            buf += struct.pack("<I", len(k)) + b"".join(struct.pack("<H", self.tidx[x]) for x in k)
        if tls:
            sections[T_TYPE_LIST] = (len(tls), first)

        # ---- debug info items
        dbg_off = {}
        first = None
        cnt = 0
        for c in classes:
            for mt in c.direct_methods + c.virtual_methods:
                if mt.code and mt.code.debug:
                    if first is None:
                        first = len(buf)
                    dbg_off[id(mt)] = len(buf)
                    buf += self.enc_debug(mt.code.debug)
                    cnt += 1
        if cnt:
            sections[T_DEBUG_INFO] = (cnt, first)

        # ---- code items
        code_off = {}
        self.code_units = {}
        first = None
        cnt = 0
        # opt-in "share_identical_code_items": "file" (or True) | "class" - methods whose encoded code_item is byte-identical point to ONE code_item
        # (legal: code-item deduplication of dexlayout / D8 produces it), over the whole file or only among the methods of one class.
        # Default (absent): one code_item per method, as ever.
        share = o.get("share_identical_code_items")
        shared = {}
        self.shared_code = {}      # code_off -> [(cls, name, ret, params), ...] for every code_item used by more than one method
        for c in classes:
            for mt in c.direct_methods + c.virtual_methods:
                if mt.code:
                    if share:
                        enc, units = self.enc_code(mt.code, dbg_off.get(id(mt), 0))
                        skey = (id(c) if share == "class" else None, enc)
                        if skey in shared:
                            code_off[id(mt)] = shared[skey][0]
                            self.code_units[(mt.cls, mt.name, mt.ret, mt.params)] = (shared[skey][0], units)
                            shared[skey][1].append((mt.cls, mt.name, mt.ret, mt.params))
                            self.shared_code[shared[skey][0]] = shared[skey][1]
                            continue
                    align(4)
                    if first is None:
                        first = len(buf)
                    code_off[id(mt)] = len(buf)
                    enc, units = self.enc_code(mt.code, dbg_off.get(id(mt), 0))
                    if share:
                        shared[skey] = (len(buf), [(mt.cls, mt.name, mt.ret, mt.params)])
                    self.code_units[(mt.cls, mt.name, mt.ret, mt.params)] = (len(buf), units)
                    buf += enc
                    cnt += 1
        if cnt:
            sections[T_CODE] = (cnt, first)

        # ---- annotation items / sets / directories
        ann_item_off = {}
        first = None
        cnt = 0

        def emit_ann_items(anns):
            nonlocal first, cnt
            for a in anns:
                if first is None:
                    first = len(buf)
                ann_item_off[id(a)] = len(buf)
                buf.extend(bytes([a.visibility]) + self.enc_annotation(a))
                cnt += 1
        for c in classes:
            emit_ann_items(c.annotations)
            for f in c.static_fields + c.instance_fields:
                emit_ann_items(f.annotations)
            for mt in c.direct_methods + c.virtual_methods:
                emit_ann_items(mt.annotations)
        if cnt:
            sections[T_ANNOTATION] = (cnt, first)
        set_off = {}
        first = None
        cnt = 0

        def emit_set(owner, anns):
            nonlocal first, cnt
            if not anns:
                return
            align(4)
            if first is None:
                first = len(buf)
            set_off[id(owner)] = len(buf)
            srt = sorted(anns, key=lambda a: self.tidx[a.type])
            buf.extend(struct.pack("<I", len(srt)) + b"".join(struct.pack("<I", ann_item_off[id(a)]) for a in srt))
            cnt += 1
        for c in classes:
            emit_set(c, c.annotations)
            for f in c.static_fields + c.instance_fields:
                emit_set(f, f.annotations)
            for mt in c.direct_methods + c.virtual_methods:
                emit_set(mt, mt.annotations)
        if cnt:
            sections[T_ANN_SET] = (cnt, first)
        dir_off = {}
        first = None
        cnt = 0
        for c in classes:
            fas = sorted([f for f in c.static_fields + c.instance_fields if f.annotations], key=lambda f: self.ref_index(f.ref))
            mas = sorted([mt for mt in c.direct_methods + c.virtual_methods if mt.annotations], key=lambda mt: self.ref_index(mt.ref))
            if not (c.annotations or fas or mas):
                continue
            align(4)
            if first is None:
                first = len(buf)
            dir_off[id(c)] = len(buf)
            buf += struct.pack("<IIII", set_off.get(id(c), 0), len(fas), len(mas), 0)
            for f in fas:
                buf += struct.pack("<II", self.ref_index(f.ref), set_off[id(f)])
            for mt in mas:
                buf += struct.pack("<II", self.ref_index(mt.ref), set_off[id(mt)])
            cnt += 1
        if cnt:
            sections[T_ANN_DIR] = (cnt, first)

        # ---- encoded arrays (static values)
        sv_off = {}
        first = None
        cnt = 0
        for c in classes:
            # static fields are emitted sorted by field index, static values follow that order
            sf = sorted(c.static_fields, key=lambda f: self.ref_index(f.ref))
            n = c.static_values_count
            if n is None:
                n = 0
                for i, f in enumerate(sf):
                    if f.init is not None:
                        n = i + 1
            if n == 0:
                continue
            vals = []
            for f in sf[:n]:
                if f.init is not None:
                    vals.append(f.init)
                else:
                    vals.append(default_ev(f.type))
            if first is None:
                first = len(buf)
            sv_off[id(c)] = len(buf)
            buf += self.enc_array(vals)
            cnt += 1
        cs_off = []
        for cs in m.call_sites:     # call_site_items are encoded_array_items as well and live in the same section
            if first is None:
                first = len(buf)
            cs_off.append(len(buf))
            buf += self.enc_array(cs)
            cnt += 1
        if cnt:
            sections[T_ENCODED_ARRAY] = (cnt, first)

        # ---- class data
        cd_off = {}
        first = None
        cnt = 0
        for c in classes:
            if not (c.static_fields or c.instance_fields or c.direct_methods or c.virtual_methods) and not o.get("empty_class_data", False):
                continue
            if first is None:
                first = len(buf)
            cd_off[id(c)] = len(buf)
            sf = sorted(c.static_fields, key=lambda f: self.ref_index(f.ref))
            inf = sorted(c.instance_fields, key=lambda f: self.ref_index(f.ref))
            dm = sorted(c.direct_methods, key=lambda x: self.ref_index(x.ref))
            vm = sorted(c.virtual_methods, key=lambda x: self.ref_index(x.ref))
            cdp = o.get("class_data_pad")    # callable -> redundant groups for the next uleb128 of a class_data_item (valid, non-minimal; rewriting
            # tools reserve fixed-width five-byte slots for offsets they patch later), or None
            cp = (lambda: cdp()) if cdp else (lambda: 0)
            out = uleb(len(sf), cp()) + uleb(len(inf), cp()) + uleb(len(dm), cp()) + uleb(len(vm), cp())
            for lst in (sf, inf):
                prev = 0
                for f in lst:
                    i = self.ref_index(f.ref)
                    out += uleb(i - prev, cp()) + uleb(f.access, cp())
                    prev = i
            for lst in (dm, vm):
                prev = 0
                for mt in lst:
                    i = self.ref_index(mt.ref)
                    out += uleb(i - prev, cp()) + uleb(mt.access, cp()) + uleb(code_off.get(id(mt), 0), cp())
                    prev = i
            buf += out
            cnt += 1
        if cnt:
            sections[T_CLASS_DATA] = (cnt, first)

        # ---- string data
        sd_off = [0] * len(self.string_list)
        first = len(buf)
        layout = list(range(len(self.string_list)))
        sdo = o.get("string_data_order")     # None (pool order) | "reversed" | a random.Random (shuffled): string_ids only store offsets
        if sdo == "reversed":
            layout.reverse()
        elif sdo is not None:
            sdo.shuffle(layout)
        fat = o.get("string_size_pad")       # callable -> redundant groups in the uleb128 utf16_size (valid, non-minimal), or None
        for i in layout:
            s = self.string_list[i]
            sd_off[i] = len(buf)
            data, n = mutf8(s)
            buf += uleb(n, fat() if fat else 0) + data + b"\0"
        if self.string_list:
            sections[T_STRING_DATA] = (len(self.string_list), first)
        pad_after_strings = o.get("pad_after_strings", None)
        if pad_after_strings:
            buf += pad_after_strings

        # ---- map list
        align(4)
        map_off = len(buf)
        sections[T_HEADER] = (1, 0)
        sections[T_MAP_LIST] = (1, map_off)
        entries = sorted(sections.items(), key=lambda kv: kv[1][1])
        perm = o.get("map_order")
        if perm is not None:
            entries = [entries[i] for i in perm]
        self.map_entries = entries
        buf += struct.pack("<I", len(entries))
        for t, (count, off) in entries:
            buf += struct.pack("<HHII", t, 0, count, off)
        if o.get("trailing"):
            buf += o["trailing"]

        # ---- fill id sections
        for i, off in enumerate(sd_off):
            struct.pack_into("<I", buf, string_ids_off + 4 * i, off)
        for i, d in enumerate(self.type_list):
            struct.pack_into("<I", buf, type_ids_off + 4 * i, self.sidx[d])
        for i, (ret, params) in enumerate(self.proto_list):
            struct.pack_into("<III", buf, proto_ids_off + 12 * i, self.sidx[shorty(ret, params)], self.tidx[ret], tl_off[params] if params else 0)
        for i, (cls, name, ty) in enumerate(self.field_list):
            struct.pack_into("<HHI", buf, field_ids_off + 8 * i, self.tidx[cls], self.tidx[ty], self.sidx[name])
        for i, (cls, name, ret, params) in enumerate(self.method_list):
            struct.pack_into("<HHI", buf, method_ids_off + 8 * i, self.tidx[cls], self.pidx[(ret, params)], self.sidx[name])
        for i, off in enumerate(cs_off):
            struct.pack_into("<I", buf, call_site_ids_off + 4 * i, off)
        for i, (ht, r) in enumerate(m.method_handles):
            struct.pack_into("<HHHH", buf, method_handles_off + 8 * i, ht, 0, self.ref_index(r), 0)
        for i, c in enumerate(classes):
            struct.pack_into("<IIIIIIII", buf, class_defs_off + 32 * i,
                             self.tidx[c.name], c.access, self.tidx[c.super] if c.super is not None else NO_INDEX,
                             tl_off[tuple(c.interfaces)] if c.interfaces else 0,
                             self.sidx[c.source] if c.source is not None else NO_INDEX,
                             dir_off.get(id(c), 0), cd_off.get(id(c), 0), sv_off.get(id(c), 0))
        # ---- header
        self.layout = {"string_ids_off": string_ids_off, "type_ids_off": type_ids_off, "proto_ids_off": proto_ids_off, "field_ids_off": field_ids_off,
                       "method_ids_off": method_ids_off, "class_defs_off": class_defs_off, "data_off": data_off, "map_off": map_off,
                       "string_data_off": sd_off, "code_off": {k: v[0] for k, v in self.code_units.items()}}
        struct.pack_into("<8s", buf, 0, b"dex\n" + m.version + b"\0")
        struct.pack_into("<IIIIII", buf, 32, len(buf), 0x70, 0x12345678, 0, 0, map_off)
        struct.pack_into("<IIIIIIIIIIIIII", buf, 56,
                         len(self.string_list), string_ids_off if self.string_list else 0,
                         len(self.type_list), type_ids_off if self.type_list else 0,
                         len(self.proto_list), proto_ids_off if self.proto_list else 0,
                         len(self.field_list), field_ids_off if self.field_list else 0,
                         len(self.method_list), method_ids_off if self.method_list else 0,
                         len(classes), class_defs_off if classes else 0,
                         len(buf) - data_off, data_off)
        out = fix_checksum(bytes(buf))
        return out


def default_ev(type_desc):
    if type_desc[0] in "L[":
        return EV(V_NULL)
    if type_desc == "Z":
        return EV(V_BOOLEAN, False)
    if type_desc == "C":
        return EV(V_CHAR, 0)
    if type_desc == "F":
        return EV(V_FLOAT, 0)
    if type_desc == "D":
        return EV(V_DOUBLE, 0)
    return EV({"B": V_BYTE, "S": V_SHORT, "I": V_INT, "J": V_LONG}[type_desc], 0)


def fix_checksum(b):
    """recompute SHA-1 signature (bytes 12..32 over bytes 32..) and Adler-32 checksum (bytes 8..12 over bytes 12..)"""
    b = bytearray(b)
    b[12:32] = hashlib.sha1(bytes(b[32:])).digest()
    struct.pack_into("<I", b, 8, zlib.adler32(bytes(b[12:])) & 0xFFFFFFFF)
    return bytes(b)


def fix_adler_only(b):
    b = bytearray(b)
    struct.pack_into("<I", b, 8, zlib.adler32(bytes(b[12:])) & 0xFFFFFFFF)
    return bytes(b)


def write_dex(model, opts=None, want_writer=False):
    w = Writer(model, opts)
    data = w.write()
    if want_writer:
        return data, w
    return data


def self_check(data):
    """structural validator of the writer's own output; returns list of problems"""
    probs = []
    if len(data) < 0x70:
        return ["short"]
    magic, checksum, sig, file_size, header_size, endian, link_size, link_off, map_off = struct.unpack_from("<8sI20sIIIIII", data, 0)
    if magic[:4] != b"dex\n" or magic[7] != 0:
        probs.append("magic")
    if checksum != zlib.adler32(data[12:]) & 0xFFFFFFFF:
        probs.append("adler")
    if sig != hashlib.sha1(data[32:]).digest():
        probs.append("sha1")
    if file_size != len(data):
        probs.append("file_size")
    if header_size != 0x70 or endian != 0x12345678:
        probs.append("header")
    (ss, so, ts, to, ps, po, fs, fo, ms, mo, cs, co, ds, do) = struct.unpack_from("<14I", data, 56)
    if map_off % 4 or not (do <= map_off < len(data)):
        probs.append("map_off")
    n = struct.unpack_from("<I", data, map_off)[0]
    prev = -1
    seen = {}
    for i in range(n):
        t, _, cnt, off = struct.unpack_from("<HHII", data, map_off + 4 + 12 * i)
        seen[t] = (cnt, off)
        if off >= len(data):
            probs.append("map entry offset outside file")
    for t, cnt, off in ((T_STRING_ID, ss, so), (T_TYPE_ID, ts, to), (T_PROTO_ID, ps, po), (T_FIELD_ID, fs, fo), (T_METHOD_ID, ms, mo), (T_CLASS_DEF, cs, co)):
        if cnt and seen.get(t) != (cnt, off):
            probs.append("map/header mismatch for type %d" % t)
        if off % 4:
            probs.append("unaligned id section")
    # string ids sorted, unique
    last = None
    for i in range(ss):
        off = struct.unpack_from("<I", data, so + 4 * i)[0]
        # decode uleb length, then raw bytes to NUL
        p = off
        while data[p] & 0x80:
            p += 1
        p += 1
        e = data.index(b"\0", p)
        raw = data[p:e]
        units = mutf8_units(raw)
        if last is not None and not (last < units):
            probs.append("string ids not sorted/unique at %d" % i)
        last = units
    return probs


def mutf8_units(raw):
    out = []
    i = 0
    while i < len(raw):
        b = raw[i]
        if b < 0x80:
            out.append(b)
            i += 1
        elif b >> 5 == 0b110:
            out.append(((b & 0x1F) << 6) | (raw[i + 1] & 0x3F))
            i += 2
        else:
            out.append(((b & 0x0F) << 12) | ((raw[i + 1] & 0x3F) << 6) | (raw[i + 2] & 0x3F))
            i += 3
    return out
