"""Tiny helper: pack {name: bytes} into a zip archive (python zipfile) - the container of an APK.  Never imports androguard."""
import io
import zipfile


def pack(files, compress=True):
    """files: dict or list of (name, bytes) in archive order -> zip bytes"""
    items = files.items() if isinstance(files, dict) else files
    bio = io.BytesIO()
    with zipfile.ZipFile(bio, "w", zipfile.ZIP_DEFLATED if compress else zipfile.ZIP_STORED) as z:
        for name, data in items:
            zi = zipfile.ZipInfo(name, date_time=(2020, 1, 1, 0, 0, 0))
            zi.compress_type = zipfile.ZIP_DEFLATED if compress else zipfile.ZIP_STORED
            zi.external_attr = 0o644 << 16
            z.writestr(zi, data)
    return bio.getvalue()
