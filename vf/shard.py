"""child process: run module.func(ctx, arg) and write the partial result"""
import importlib
import json
import os
import sys
import traceback

sys.path.insert(0, os.path.dirname(os.path.dirname(os.path.abspath(__file__))))
from vf import harness  # noqa: E402


def main():
    fin, fout = sys.argv[1:3]
    with open(fin) as f:
        j = json.load(f)
    harness.quiet_androguard()
    ctx = harness.Ctx(j["pid"], j["tier"], j["seed"], shard=j["shard"])
    mod = importlib.import_module(j["module"])
    try:
        getattr(mod, j["func"])(ctx, j["arg"])
    except Exception:
        ctx.inconclusive("shard %s crashed: %s" % (j["shard"], traceback.format_exc()[-1500:]))
    with open(fout + ".tmp", "w") as f:
        json.dump(ctx.dump_partial(), f)
    os.replace(fout + ".tmp", fout)


if __name__ == "__main__":
    main()
