"""Common plumbing: tiers, seeds, sharding into subprocesses, evidence, verdicts, known findings.

Verdicts are three-valued:
  held          exit 0
  violated      exit 1, one line "VIOLATION property=<id> replay=<path>" per distinct mechanism
  inconclusive  exit 3, line "INCONCLUSIVE property=<id> reason=..."
A violation whose *mechanism* is listed (status "known") in known_findings.json prints
"KNOWN-FINDING: property=<id> <what fails>" instead and does not fail the run.
"""
import hashlib
import json
import os
import random
import subprocess
import sys
import tempfile
import threading
import time
import traceback
from concurrent.futures import ThreadPoolExecutor

ROOT = os.path.dirname(os.path.dirname(os.path.abspath(__file__)))
REPO = os.environ.get("VERIF_REPO", "/repo")
PY = "/venv/bin/python"
NCPU = min(16, os.cpu_count() or 4)
MAX_WITNESS_PER_MECH = 3
MAX_SAMPLES = 6


def jsonable(o, depth=0):
    if depth > 8:
        return repr(o)[:200]
    if isinstance(o, (str, int, float, bool)) or o is None:
        if isinstance(o, str) and len(o) > 4000:
            return o[:4000] + "...<%d>" % len(o)
        if isinstance(o, str):
            return o.encode("utf-8", "backslashreplace").decode("utf-8")
        if isinstance(o, float) and (o != o or o in (float("inf"), float("-inf"))):
            return repr(o)
        return o
    if isinstance(o, (bytes, bytearray)):
        h = bytes(o).hex()
        return {"hex": h if len(h) <= 8000 else h[:8000] + "...", "len": len(o)}
    if isinstance(o, dict):
        return {str(k): jsonable(v, depth + 1) for k, v in list(o.items())[:200]}
    if isinstance(o, (list, tuple, set, frozenset)):
        seq = sorted(o, key=repr) if isinstance(o, (set, frozenset)) else o
        return [jsonable(v, depth + 1) for v in list(seq)[:200]]
    return repr(o)[:400]


def shash(*parts):
    h = hashlib.sha1()
    for p in parts:
        h.update(repr(p).encode("utf-8", "backslashreplace"))
        h.update(b"\0")
    return h.hexdigest()[:16]


class Ctx:
    def __init__(self, pid, tier="quick", seed=0, shard=None):
        self.pid = pid
        self.tier = tier
        self.seed = seed
        self.shard = shard
        self.evaluations = 0
        self.sigs = set()
        self.counters = {}
        self.maxima = {}
        self.samples = []
        self.violations = {}  # mechanism -> {"what":..., "count": n, "witnesses":[...]}
        self.inconclusive_reasons = []
        self.rule = ""
        self.assumptions = []
        self.exhaustive = None
        self.extra = {}
        self.t0 = time.time()
        self.min_distinct = 2
        self.required_counters = []

    # ---- recording -------------------------------------------------------
    @property
    def quick(self):
        return self.tier == "quick"

    def rng(self, *salt):
        return random.Random(shash(self.pid, self.seed, *salt))

    def ev(self, n=1):
        self.evaluations += n

    def sig(self, *parts):
        """record a distinct non-trivial case signature"""
        self.sigs.add(shash(*parts))

    def count(self, name, n=1):
        self.counters[name] = self.counters.get(name, 0) + n

    def maxi(self, name, v):
        if v > self.maxima.get(name, float("-inf")):
            self.maxima[name] = v

    def sample(self, obj):
        if len(self.samples) < MAX_SAMPLES:
            self.samples.append(jsonable(obj))

    def violation(self, mechanism, what, witness=None):
        v = self.violations.setdefault(mechanism, {"what": what, "count": 0, "witnesses": []})
        v["count"] += 1
        if len(v["witnesses"]) < MAX_WITNESS_PER_MECH:
            v["witnesses"].append(jsonable(witness))

    def inconclusive(self, reason):
        if reason not in self.inconclusive_reasons:
            self.inconclusive_reasons.append(reason)

    def require_counter(self, name, minimum=1):
        self.required_counters.append((name, minimum))

    # ---- sharding ---------------------------------------------------------
    def dump_partial(self):
        return {
            "evaluations": self.evaluations,
            "sigs": sorted(self.sigs),
            "counters": self.counters,
            "maxima": self.maxima,
            "samples": self.samples,
            "violations": self.violations,
            "inconclusive": self.inconclusive_reasons,
            "extra": self.extra,
        }

    def merge(self, p):
        self.evaluations += p["evaluations"]
        self.sigs.update(p["sigs"])
        for k, v in p["counters"].items():
            self.count(k, v)
        for k, v in p["maxima"].items():
            self.maxi(k, v)
        for s in p["samples"]:
            if len(self.samples) < MAX_SAMPLES:
                self.samples.append(s)
        for m, v in p["violations"].items():
            mine = self.violations.setdefault(m, {"what": v["what"], "count": 0, "witnesses": []})
            mine["count"] += v["count"]
            for w in v["witnesses"]:
                if len(mine["witnesses"]) < MAX_WITNESS_PER_MECH:
                    mine["witnesses"].append(w)
        for r in p["inconclusive"]:
            self.inconclusive(r)
        for k, v in p.get("extra", {}).items():
            if isinstance(v, list):
                self.extra.setdefault(k, []).extend(v)
            elif isinstance(v, dict):
                self.extra.setdefault(k, {}).update(v)
            else:
                self.extra[k] = v

    def run_shards(self, module, func, args_list, timeout=900, env=None, workers=None, on_timeout="inconclusive"):
        """Run module.func(ctx, arg) for every arg in its own fresh python process; merge partial results.
        on_timeout: "inconclusive" or a callable(arg) -> None (e.g. to record a violation)."""
        results = [None] * len(args_list)
        lock = threading.Lock()

        def one(i):
            arg = args_list[i]
            with tempfile.TemporaryDirectory(prefix="vf_shard_") as td:
                fin = os.path.join(td, "in.json")
                fout = os.path.join(td, "out.json")
                with open(fin, "w") as f:
                    json.dump({"pid": self.pid, "tier": self.tier, "seed": self.seed, "module": module, "func": func, "arg": arg, "shard": i}, f)
                e = dict(os.environ)
                if env:
                    e.update(env if isinstance(env, dict) else env(arg))
                cmd = [PY, "-B", os.path.join(ROOT, "vf", "shard.py"), fin, fout]
                try:
                    cp = subprocess.run(cmd, env=e, timeout=timeout, stdout=subprocess.PIPE, stderr=subprocess.PIPE)
                except subprocess.TimeoutExpired:
                    with lock:
                        if callable(on_timeout):
                            on_timeout(arg)
                        else:
                            self.inconclusive("watchdog: shard %d of %s.%s exceeded %ss" % (i, module, func, timeout))
                    return
                if cp.returncode != 0 or not os.path.exists(fout):
                    with lock:
                        self.inconclusive("shard %d of %s.%s crashed rc=%s: %s" % (i, module, func, cp.returncode, cp.stderr.decode("utf-8", "replace")[-600:]))
                    return
                with open(fout) as f:
                    results[i] = json.load(f)

        with ThreadPoolExecutor(max_workers=workers or NCPU) as ex:
            list(ex.map(one, range(len(args_list))))
        for r in results:
            if r is not None:
                self.merge(r)
        return results

    # ---- verdict ------------------------------------------------------------
    def finish(self):
        known = load_known().get(self.pid, {})
        for name, minimum in self.required_counters:
            if self.counters.get(name, 0) < minimum:
                self.inconclusive("monitor counter %s=%d < %d (deciding monitor not reached)" % (name, self.counters.get(name, 0), minimum))
        if len(self.sigs) < self.min_distinct:
            self.inconclusive("only %d distinct non-trivial cases (< %d)" % (len(self.sigs), self.min_distinct))
        if not self.samples:
            self.inconclusive("no samples recorded")
        if self.evaluations < 1:
            self.inconclusive("no evaluations")
        unknown = []
        known_hit = []
        if self.shard is None:
            import shutil
            shutil.rmtree(os.path.join(ROOT, "replay", self.pid), ignore_errors=True)
        lines = []
        for mech, v in sorted(self.violations.items()):
            if mech in known:
                known_hit.append(mech)
                lines.append("KNOWN-FINDING: property=%s %s [%s; %d case(s) this run]" % (self.pid, known[mech], mech, v["count"]))
            else:
                rdir = os.path.join(ROOT, "replay", self.pid)
                os.makedirs(rdir, exist_ok=True)
                path = os.path.join(rdir, "%s.json" % "".join(c if c.isalnum() or c in "-_." else "_" for c in mech)[:120])
                with open(path, "w") as f:
                    json.dump({"property": self.pid, "mechanism": mech, "what": v["what"], "count": v["count"], "tier": self.tier, "seed": self.seed, "witnesses": v["witnesses"]}, f, indent=1)
                unknown.append((mech, path, v))
        wall = time.time() - self.t0
        cov = {
            "evaluations": int(self.evaluations),
            "distinct_nontrivial": len(self.sigs),
            "rule": self.rule,
            "samples": self.samples[:MAX_SAMPLES],
            "monitor_counters": dict(sorted(self.counters.items())),
            "monitor_maxima": dict(sorted(self.maxima.items())),
            "known_findings_hit": known_hit,
            "violation_mechanisms": {m: {"what": v["what"], "count": v["count"]} for m, v in sorted(self.violations.items())},
            "inconclusive": self.inconclusive_reasons,
            "verdict": "violated" if unknown else ("inconclusive" if self.inconclusive_reasons else "held"),
        }
        if self.exhaustive is not None:
            cov["exhaustive"] = bool(self.exhaustive)
        for k, v in self.extra.items():
            cov.setdefault(k, jsonable(v))
        evd = {
            "property_id": self.pid,
            "tier": self.tier,
            "seed": int(self.seed),
            "level": "exploration",
            "coverage": cov,
            "assumptions": self.assumptions,
            "wall_s": round(wall, 2),
            "violations": len(unknown),
        }
        evdir = os.environ.get("VERIF_EVIDENCE_DIR") or os.path.join(ROOT, "evidence")
        os.makedirs(evdir, exist_ok=True)
        tmp = os.path.join(evdir, ".%s.json.tmp" % self.pid)
        with open(tmp, "w") as f:
            json.dump(evd, f, indent=1, sort_keys=False)
            f.write("\n")
        os.replace(tmp, os.path.join(evdir, "%s.json" % self.pid))
        for l in lines:
            print(l)
        print("%s tier=%s seed=%s evaluations=%d distinct_nontrivial=%d wall=%.1fs counters=%s" % (
            self.pid, self.tier, self.seed, self.evaluations, len(self.sigs), wall,
            json.dumps(dict(sorted(self.counters.items())))[:1500]))
        if unknown:
            for mech, path, v in unknown:
                print("  mechanism=%s count=%d what=%s" % (mech, v["count"], v["what"]))
                print("VIOLATION property=%s replay=%s" % (self.pid, path))
            return 1
        if self.inconclusive_reasons:
            for r in self.inconclusive_reasons:
                print("INCONCLUSIVE property=%s reason=%s" % (self.pid, r))
            return 3
        print("HELD property=%s" % self.pid)
        return 0


def load_known():
    """-> {pid: {mechanism: what}} for entries with status "known" only (fixed entries suppress nothing)."""
    path = os.path.join(ROOT, "known_findings.json")
    out = {}
    if os.path.exists(path):
        with open(path) as f:
            data = json.load(f)
        for e in data.get("findings", []):
            if e.get("status") == "known":
                out.setdefault(e["property"], {})[e["mechanism"]] = e["what"]
    return out


def quiet_androguard():
    """loguru off (androguard logs a lot on hostile inputs)."""
    try:
        from loguru import logger
        logger.remove()
    except Exception:
        pass


def exc_str(e):
    return "%s: %s" % (type(e).__name__, str(e)[:200])
