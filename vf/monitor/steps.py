"""Step budget via sys.monitoring (3.12): counts PY_START, PY_RESUME, JUMP and BRANCH events of Python code executed inside the monitored call and
raises BudgetExceeded(BaseException) inside it when the budget is exhausted. A loop in Python code must execute backward jumps or calls, so it cannot
hide from the counter; loops inside C code are not counted (left to the wall-clock watchdog => inconclusive)."""
import sys

TOOL = 4
mon = sys.monitoring
E = mon.events
EVENTS = E.PY_START | E.PY_RESUME | E.JUMP | E.BRANCH


class BudgetExceeded(BaseException):
    pass


class _State:
    n = 0
    budget = 0
    active = False


def _tick(*a):
    _State.n += 1
    if _State.n > _State.budget:
        mon.set_events(TOOL, 0)
        raise BudgetExceeded(_State.budget)


def run_with_budget(fn, budget):
    """-> number of events used. Raises BudgetExceeded if fn does not finish within `budget` events."""
    if _State.active:
        raise RuntimeError("nested step budgets are not supported")
    _State.active = True
    _State.n = 0
    _State.budget = budget
    try:
        mon.use_tool_id(TOOL, "vf-steps")
    except ValueError:
        pass
    for ev in (E.PY_START, E.PY_RESUME, E.JUMP, E.BRANCH):
        mon.register_callback(TOOL, ev, _tick)
    mon.set_events(TOOL, EVENTS)
    try:
        fn()
    finally:
        mon.set_events(TOOL, 0)
        for ev in (E.PY_START, E.PY_RESUME, E.JUMP, E.BRANCH):
            mon.register_callback(TOOL, ev, None)
        try:
            mon.free_tool_id(TOOL)
        except Exception:
            pass
        _State.active = False
    return _State.n
