"""Cross-process rendez-vous scheduler (C36).

Children are real OS processes executing the real `androguard.session.Session(db_url=...)`.  In each child
  dataset.table.Table.__len__        point "R"  (the row count that becomes the session id)
  dataset.table.Table.insert         point "I"  (the INSERT of the session row)
and, in extended mode,
  dataset.table.Table._sync_table    point "S"  (the lazy reflect / CREATE TABLE that runs inside insert; then "I" sits after
                                                 _sync_columns, i.e. directly before the INSERT statement)
  sqlalchemy SchemaGenerator._can_create_table   point "C" (checkfirst said "table missing", CREATE TABLE is next)
are wrapped - only for the table named "session" - so that the child reports {"ev":"at","point":P} on its channel and blocks until
the parent answers "go".  Exactly one child runs at a time, so a schedule is the sequence of (child, point) releases.  All pause
points lie between statements that the code executes as separate autocommit statements (no SQLite lock is held while paused), i.e.
where the OS could really pre-empt the process.

Process creation: a *zygote* (one python process that has imported androguard.session once, single-threaded) forks a pristine child
per request; children talk to the parent over an AF_UNIX socket.  Forking instead of exec'ing saves the 1.3 s import per child (there
are ~600 children in the quick tier) and gives every child identical, connection-free initial state.

Worker pool (default in the check): instead of forking k children per schedule, n persistent workers forked once serve one constructor
call per run; whatever the call opened is closed before the worker reports (what the end of the process would do).  One-shot children
(fork per constructor, process ends after the report) remain available and are cross-checked against the pool in the check.

Stress mode: no pauses; seeded random sleeps of 0..max_sleep_ms at the same hook points; per round k fresh children, released together
from a barrier; each child process ends right after its constructor returned or raised.

This module never looks at results: it returns the recorded history; the oracle lives in the check.
Run as script: `sched.py zygote` (internal).
"""
import gc
import json
import os
import random
import select
import signal
import socket
import subprocess
import sys
import threading
import time

SESSION_TABLE = "session"
PY = "/venv/bin/python"


# =====================================================================================================================
# child side
# =====================================================================================================================
class _Chan:
    def __init__(self, sock):
        self.sock = sock
        self.buf = b""

    def send(self, obj):
        self.sock.sendall((json.dumps(obj) + "\n").encode())

    def recv(self, timeout=None):
        """-> dict, or None on EOF; raises TimeoutError"""
        while b"\n" not in self.buf:
            if timeout is not None:
                r, _, _ = select.select([self.sock], [], [], timeout)
                if not r:
                    raise TimeoutError()
            d = self.sock.recv(65536)
            if not d:
                return None
            self.buf += d
        line, self.buf = self.buf.split(b"\n", 1)
        return json.loads(line.decode())

    def close(self):
        try:
            self.sock.close()
        except OSError:
            pass


class _ChildState:
    def __init__(self):
        self.points = ()
        self.dbs = []  # dataset.Database objects created by the constructor under observation
        self.in_insert = False
        self.log = []  # (point, "begin"/"end"/value..., monotonic_ns)
        self.hook = None  # callable(point)


class _Points:
    """the enabled points of the current run (st.points), evaluated at call time"""

    def __init__(self, st):
        self.st = st

    def __contains__(self, p):
        return p in self.st.points


def _install_patches(st):
    """wrap the real dataset methods once per process; st.hook(point) is called at each point enabled in st.points (session table only)"""
    import dataset
    import dataset.database
    import dataset.table
    T = dataset.table.Table
    o_len, o_insert, o_sync_table, o_sync_columns = T.__len__, T.insert, T._sync_table, T._sync_columns
    points = _Points(st)
    o_connect = dataset.connect

    def w_connect(*a, **k):
        db = o_connect(*a, **k)
        st.dbs.append(db)  # passive: remembered only to close it after the constructor returned or raised
        return db
    dataset.connect = w_connect

    def make_read(orig, label):
        # every way of READING the session table outside an insert is the point "R" (the code may count, find, iterate ...); nested reads
        # (len -> count, find_one -> find) are one point
        def w_read(self, *a, **k):
            if self.name != SESSION_TABLE or st.in_insert or getattr(st, "in_read", False):
                return orig(self, *a, **k)
            st.in_read = True
            try:
                if "R" in points:
                    st.hook("R")
                st.log.append(("R", "begin " + label, time.monotonic_ns()))
                try:
                    v = orig(self, *a, **k)
                except BaseException as e:
                    st.log.append(("R", "raised %s" % type(e).__name__, time.monotonic_ns()))
                    raise
                st.log.append(("R", "value %r" % (v if isinstance(v, (int, type(None))) else type(v).__name__,), time.monotonic_ns()))
                return v
            finally:
                st.in_read = False
        return w_read
    w_len = make_read(o_len, "len")

    def w_insert(self, row, *a, **k):
        if self.name != SESSION_TABLE:
            return o_insert(self, row, *a, **k)
        extended = "S" in points or "C" in points
        if "I" in points and not extended:
            st.hook("I")
        st.in_insert = True
        st.log.append(("I", "begin %r" % (dict(row),), time.monotonic_ns()))
        try:
            v = o_insert(self, row, *a, **k)
        except BaseException as e:
            st.log.append(("I", "raised %s" % type(e).__name__, time.monotonic_ns()))
            raise
        finally:
            st.in_insert = False
        st.log.append(("I", "value %r" % (v,), time.monotonic_ns()))
        return v

    def w_sync_table(self, columns):
        if self.name == SESSION_TABLE and st.in_insert and "S" in points:
            st.hook("S")
            st.log.append(("S", "begin table_loaded=%s ncolumns=%d" % (self._table is not None, len(columns)), time.monotonic_ns()))
        return o_sync_table(self, columns)

    def w_sync_columns(self, row, ensure, types=None):
        out = o_sync_columns(self, row, ensure, types=types)
        extended = "S" in points or "C" in points
        if self.name == SESSION_TABLE and st.in_insert and extended and "I" in points:
            st.hook("I")
            st.log.append(("I", "execute", time.monotonic_ns()))
        return out

    D = dataset.database.Database
    if hasattr(D, "_auto_commit"):
        o_auto_commit = D._auto_commit

        def w_auto_commit(self, *a, **k):
            # point "X": the INSERT statement was executed, its transaction is not committed yet (the process holds the write lock)
            if st.in_insert and "X" in points:
                st.hook("X")
                st.log.append(("X", "before commit", time.monotonic_ns()))
            return o_auto_commit(self, *a, **k)
        D._auto_commit = w_auto_commit
    T.__len__ = w_len
    for nm_ in ("count", "find", "find_one", "all", "distinct", "__iter__"):
        if hasattr(T, nm_):
            setattr(T, nm_, make_read(getattr(T, nm_), nm_))
    T.insert = w_insert
    T._sync_table = w_sync_table
    T._sync_columns = w_sync_columns
    import sqlalchemy.sql.ddl as ddl
    o_can = ddl.SchemaGenerator._can_create_table

    def w_can(self, table):
        r = o_can(self, table)
        if "C" in points and r and getattr(table, "name", None) == SESSION_TABLE and st.in_insert and self.checkfirst:
            st.hook("C")
            st.log.append(("C", "about to CREATE TABLE", time.monotonic_ns()))
        return r
    ddl.SchemaGenerator._can_create_table = w_can


def _exc_text(e):
    s = "%s: %s" % (type(e).__name__, str(e))
    return s[:600]


def _construct(db_url, st):
    """the real code under observation"""
    from androguard.session import Session
    res = {"session_id": None, "exc": None}
    t0 = time.monotonic_ns()
    s = None
    try:
        s = Session(db_url=db_url)
        res["session_id"] = s.session_id
    except BaseException as e:  # noqa: BLE001 - everything a constructor can throw is "not created successfully"
        res["exc"] = _exc_text(e)
        res["exc_type"] = type(e).__name__
    res["t_begin"], res["t_end"] = t0, time.monotonic_ns()
    res["log"] = st.log
    st.log = []
    st.in_insert = False
    # After the constructor returned or raised: close every database it opened before reporting.  For other processes this is what
    # the end of the process would be (connections closed, a half-done write transaction of a failed INSERT rolled back, locks
    # released); it lets the parent read a quiescent file and lets a worker process serve the next run without leftovers.
    del s
    for db in st.dbs:
        try:
            db.close()
        except Exception:
            pass
    st.dbs = []
    gc.collect()
    return res


def _child_body(cfg):
    sock = socket.socket(socket.AF_UNIX, socket.SOCK_STREAM)
    sock.connect(cfg["sock"])
    ch = _Chan(sock)
    st = _ChildState()
    ch.send({"ev": "hello", "idx": cfg["idx"], "pid": os.getpid()})
    def pause(point):
        ch.send({"ev": "at", "point": point})
        m = ch.recv()
        if m is None or m.get("cmd") != "go":
            os._exit(1)
    _install_patches(st)

    def one(run):
        st.points = tuple(run["points"])
        if run["mode"] == "rendezvous":
            st.hook = pause
        elif run.get("stall"):
            # injected delay: this process sleeps the given number of seconds the FIRST time it reaches the named point
            todo = dict(run["stall"])
            st.hook = lambda point: time.sleep(todo.pop(point, 0))
        else:
            rng = random.Random(run["seed"])
            max_ms = run["max_sleep_ms"]
            st.hook = lambda point: time.sleep(rng.uniform(0, max_ms) / 1000.0)
        res = _construct(run["db_url"], st)
        res["ev"] = "exit"
        ch.send(res)
    if cfg["mode"] == "server":
        # persistent worker: one constructor call per "run" message; everything the call opened is closed before the report
        while True:
            m = ch.recv()
            if m is None or m.get("cmd") != "run":
                break
            one(m)
    else:
        # one-shot child: configuration came with the fork request; "go" is the start barrier; the process ends after the report
        m = ch.recv()
        if m is None or m.get("cmd") != "go":
            os._exit(1)
        one(cfg)
    ch.close()


def zygote_main():
    """reads one json cfg per line on stdin, forks a child for it, answers {"pid":..} on stdout"""
    signal.signal(signal.SIGCHLD, signal.SIG_IGN)  # auto-reap
    try:
        from loguru import logger
        logger.remove()
    except Exception:
        pass
    import dataset.table  # noqa: F401
    import sqlalchemy.sql.ddl  # noqa: F401
    import androguard.session  # noqa: F401
    # warm-up: the first create_engine()/connect/reflect imports the SQLite dialect and compiles caches (~0.2 s); do it once here on
    # a private in-memory database (own table name), then dispose it, so that forked children start connection-free but warm
    try:
        import gc
        import dataset
        wdb = dataset.connect("sqlite://")
        wt = wdb["vf_warmup"]
        len(wt)
        wt.insert(dict(id=0))
        len(wt)
        wdb.close()
        ws = androguard.session.Session(db_url="sqlite://")  # same, through the constructor itself (private in-memory database)
        ws.db.close()
        del wdb, wt, ws
        gc.collect()
        gc.freeze()
    except Exception:
        pass
    out = os.fdopen(os.dup(1), "w")
    os.dup2(2, 1)  # stray prints of the real code go to stderr, never into the protocol
    out.write(json.dumps({"ready": True, "session_file": androguard.session.__file__}) + "\n")
    out.flush()
    for line in sys.stdin:
        line = line.strip()
        if not line:
            continue
        cfg = json.loads(line)
        if cfg.get("cmd") == "quit":
            break
        pid = os.fork()
        if pid == 0:
            code = 0
            try:
                try:
                    sys.stdin.close()
                    out.close()
                except Exception:
                    pass
                _child_body(cfg)
            except BaseException:  # noqa: BLE001
                import traceback
                traceback.print_exc()
                code = 1
            finally:
                os._exit(code)
        out.write(json.dumps({"pid": pid}) + "\n")
        out.flush()


# =====================================================================================================================
# parent side
# =====================================================================================================================
class Watchdog(Exception):
    pass


class Zygote:
    def __init__(self, cwd, env=None, start_timeout=120):
        self.lock = threading.Lock()
        self.stderr_path = os.path.join(cwd, "zygote.stderr")
        self._errf = open(self.stderr_path, "wb")
        self.p = subprocess.Popen([PY, "-B", os.path.abspath(__file__), "zygote"], stdin=subprocess.PIPE, stdout=subprocess.PIPE,
                                  stderr=self._errf, cwd=cwd, env=env or dict(os.environ))
        r, _, _ = select.select([self.p.stdout], [], [], start_timeout)
        if not r:
            self.close()
            raise Watchdog("zygote did not start within %ss" % start_timeout)
        line = self.p.stdout.readline()
        if not line:
            self.close()
            raise RuntimeError("zygote died at start: %s" % self.stderr_tail())
        self.info = json.loads(line.decode())
        self.spawned = 0

    def stderr_tail(self, n=800):
        try:
            with open(self.stderr_path, "rb") as f:
                return f.read()[-n:].decode("utf-8", "replace")
        except OSError:
            return ""

    def spawn(self, cfg):
        with self.lock:
            self.p.stdin.write((json.dumps(cfg) + "\n").encode())
            self.p.stdin.flush()
            r, _, _ = select.select([self.p.stdout], [], [], 30)
            if not r:
                raise Watchdog("zygote did not answer a spawn request")
            line = self.p.stdout.readline()
            if not line:
                raise RuntimeError("zygote died: %s" % self.stderr_tail())
            self.spawned += 1
            return json.loads(line.decode())["pid"]

    def close(self):
        try:
            if self.p.poll() is None:
                try:
                    self.p.stdin.write(b'{"cmd": "quit"}\n')
                    self.p.stdin.flush()
                    self.p.stdin.close()
                except OSError:
                    pass
                try:
                    self.p.wait(timeout=5)
                except subprocess.TimeoutExpired:
                    self.p.kill()
                    self.p.wait(timeout=5)
        finally:
            try:
                self._errf.close()
            except OSError:
                pass


class ZygotePool:
    """several zygotes, used round-robin: a fork of the (large) androguard image costs tens to hundreds of ms of kernel time and one
    zygote forks sequentially"""

    def __init__(self, n, cwd, env=None):
        self.zs = []
        try:
            for i in range(n):
                d = os.path.join(cwd, "z%d" % i)
                os.mkdir(d)
                self.zs.append(Zygote(d, env))
        except BaseException:
            self.close()
            raise
        self.info = self.zs[0].info
        self._n = 0
        self._lock = threading.Lock()

    @property
    def spawned(self):
        return sum(z.spawned for z in self.zs)

    def spawn(self, cfg):
        with self._lock:
            self._n += 1
            z = self.zs[self._n % len(self.zs)]
        return z.spawn(cfg)

    def close(self):
        for z in self.zs:
            try:
                z.close()
            except Exception:
                pass


_sock_counter = [0]
_sock_lock = threading.Lock()


class _Group:
    """k forked children connected to the parent"""

    def __init__(self, zy, sockdir, cfgs, timeout):
        with _sock_lock:
            _sock_counter[0] += 1
            n = _sock_counter[0]
        self.path = os.path.join(sockdir, "s%d.sock" % n)
        self.timeout = timeout
        self.listener = socket.socket(socket.AF_UNIX, socket.SOCK_STREAM)
        self.listener.bind(self.path)
        self.listener.listen(len(cfgs))
        self.pids = []
        self.chans = {}
        try:
            for c in cfgs:
                c = dict(c)
                c["sock"] = self.path
                self.pids.append(zy.spawn(c))
            self.listener.settimeout(timeout)
            for _ in cfgs:
                try:
                    conn, _ = self.listener.accept()
                except socket.timeout:
                    raise Watchdog("child did not connect")
                ch = _Chan(conn)
                hello = ch.recv(timeout)
                if hello is None:
                    raise RuntimeError("child closed the channel before hello")
                ch.pid = hello["pid"]
                self.chans[hello["idx"]] = ch
        except BaseException:
            self.kill()
            raise

    def recv(self, idx):
        try:
            m = self.chans[idx].recv(self.timeout)
        except TimeoutError:
            raise Watchdog("child %d silent for %ss" % (idx, self.timeout))
        return m

    def kill(self):
        for pid in self.pids:
            try:
                os.kill(pid, signal.SIGKILL)
            except OSError:
                pass
        self.close()

    def close(self):
        for ch in self.chans.values():
            ch.close()
        try:
            self.listener.close()
        except OSError:
            pass
        try:
            os.unlink(self.path)
        except OSError:
            pass


class _Lease:
    """k workers borrowed from a WorkerPool; same interface as _Group"""

    def __init__(self, pool, workers, timeout):
        self.pool, self.workers, self.timeout = pool, workers, timeout
        self.chans = {i: w[1] for i, w in enumerate(workers)}
        self.dead = False

    def recv(self, idx):
        try:
            return self.chans[idx].recv(self.timeout)
        except TimeoutError:
            raise Watchdog("worker %d silent for %ss" % (idx, self.timeout))

    def kill(self):
        self.dead = True
        for pid, ch in self.workers:
            try:
                os.kill(pid, signal.SIGKILL)
            except OSError:
                pass
            ch.close()

    def close(self):
        self.pool._give_back(self)


class WorkerPool:
    """n persistent worker processes (forked from the zygotes, mode "server").  Every run borrows k of them; a worker executes one
    real constructor call per run and closes everything that call opened before it reports.  Forking ~3 processes per schedule costs
    ~0.1 s of kernel time each (copy-on-write of the 90 MB androguard image), which is what dominated the wall time; the processes
    are as real and as separate as before, only longer lived.  Workers of a run that hit the watchdog are killed and replaced."""

    def __init__(self, zy, sockdir, n, timeout=60):
        self.zy, self.sockdir, self.n, self.timeout = zy, sockdir, n, timeout
        self.cv = threading.Condition()
        self.free = []
        self.alive = 0
        self.forked = 0
        self.runs = 0
        self._grow(n)

    def _grow(self, m):
        g = _Group(self.zy, self.sockdir, [{"mode": "server", "idx": i} for i in range(m)], self.timeout)
        for i in range(m):
            ch = g.chans[i]
            self.free.append((ch.pid, ch))
        self.alive += m
        self.forked += m
        try:
            g.listener.close()
            os.unlink(g.path)
        except OSError:
            pass

    def acquire(self, k):
        with self.cv:
            while True:
                if len(self.free) >= k:
                    ws = [self.free.pop() for _ in range(k)]
                    self.runs += 1
                    return _Lease(self, ws, self.timeout)
                if self.alive < self.n:
                    self._grow(self.n - self.alive)
                    continue
                self.cv.wait(1.0)

    def _give_back(self, lease):
        with self.cv:
            if lease.dead:
                self.alive -= len(lease.workers)
            else:
                self.free.extend(lease.workers)
            lease.workers = []
            self.cv.notify_all()

    def close(self):
        with self.cv:
            for pid, ch in self.free:
                try:
                    ch.send({"cmd": "quit"})
                except OSError:
                    pass
                ch.close()
                try:
                    os.kill(pid, signal.SIGKILL)
                except OSError:
                    pass
            self.free = []


def run_schedule(zy, sockdir, k, db_url, points, chooser, timeout=60, pool=None):
    """Run k constructors on db_url under the rendez-vous scheduler.
    chooser(step_no, enabled) -> child idx, where enabled = sorted list of (idx, point) of paused children.
    -> {"status": "ok" | "watchdog: ...", "trace": [(idx, point)], "enabled": [[idx,...] per step], "results": {idx: exit message},
        "schedule": "R0 R1 I0 I1"}"""
    out = {"status": "ok", "trace": [], "enabled": [], "results": {}, "schedule": "", "step_ms": []}
    t_start = time.time()
    cfgs = [{"mode": "rendezvous", "idx": i, "db_url": db_url, "points": list(points)} for i in range(k)]
    g = None
    try:
        if pool is not None:
            g = pool.acquire(k)
            start = [dict(c, cmd="run") for c in cfgs]
        else:
            g = _Group(zy, sockdir, cfgs, timeout)
            start = [{"cmd": "go"}] * k
        at = {}
        # start: every child runs up to its first pause point (nothing of the real code touches the database before the
        # first point: dataset.connect() only builds a lazy engine, the first connection is made inside Table.__len__)
        for i in range(k):
            g.chans[i].send(start[i])
        for i in range(k):
            m = g.recv(i)
            if m is None:
                out["results"][i] = {"ev": "exit", "session_id": None, "exc": "child died before the first point", "exc_type": "ChildDied", "log": []}
            elif m["ev"] == "at":
                at[i] = m["point"]
            else:
                out["results"][i] = m
        step = 0
        out["startup_ms"] = int((time.time() - t_start) * 1000)
        while at:
            t_step = time.time()
            enabled = sorted(at.items())
            i = chooser(step, enabled)
            out["enabled"].append([e[0] for e in enabled])
            out["trace"].append((i, at[i]))
            del at[i]
            g.chans[i].send({"cmd": "go"})
            m = g.recv(i)
            if m is None:
                out["results"][i] = {"ev": "exit", "session_id": None, "exc": "child died", "exc_type": "ChildDied", "log": []}
            elif m["ev"] == "at":
                at[i] = m["point"]
            else:
                out["results"][i] = m
            out["step_ms"].append(int((time.time() - t_step) * 1000))
            step += 1
        if pool is not None and any(r.get("exc_type") == "ChildDied" for r in out["results"].values()):
            g.kill()  # never hand a dead worker back to the pool
    except Watchdog as e:
        out["status"] = "watchdog: %s" % e
        if g:
            g.kill()
    finally:
        if g:
            g.close()
    out["schedule"] = " ".join("%s%d" % (p, i) for i, p in out["trace"])
    return out


def follow(prefix):
    """chooser: follow the given child-index prefix, then always the lowest enabled child"""
    def ch(step, enabled):
        ids = [e[0] for e in enabled]
        if step < len(prefix) and prefix[step] in ids:
            return prefix[step]
        return ids[0]
    return ch


def random_chooser(rng):
    def ch(step, enabled):
        return rng.choice([e[0] for e in enabled])
    return ch


def explore_all(run_prefix, workers=8, max_runs=None, rng=None):
    """Stateless depth-first enumeration of ALL interleavings of a deterministic system.
    run_prefix(prefix tuple) -> result of run_schedule(... follow(prefix)); because the default policy picks the lowest enabled child,
    every alternative at a step beyond the prefix is a new, not yet explored branch: each leaf is executed exactly once.
    max_runs bounds the number of executions (a retrying implementation has an unbounded tree); when an rng is given the next branch
    is drawn at random from the frontier instead of depth-first, so that a truncated exploration is not confined to one subtree.
    -> (list of results, complete: bool)"""
    from concurrent.futures import FIRST_COMPLETED, ThreadPoolExecutor, wait
    results = []
    pending = {}
    todo = [()]
    started = 0
    complete = True
    with ThreadPoolExecutor(max_workers=workers) as ex:
        while todo or pending:
            while todo and len(pending) < workers:
                if max_runs is not None and started >= max_runs:
                    complete = False
                    todo = []
                    break
                p = todo.pop(rng.randrange(len(todo))) if rng is not None else todo.pop()
                pending[ex.submit(run_prefix, p)] = p
                started += 1
            if not pending:
                break
            done, _ = wait(list(pending), return_when=FIRST_COMPLETED)
            for f in done:
                p = pending.pop(f)
                r = f.result()
                r["prefix"] = list(p)
                results.append(r)
                if r["status"] != "ok":
                    complete = False
                    continue
                chosen = [t[0] for t in r["trace"]]
                for i in range(len(p), len(chosen)):
                    for alt in r["enabled"][i]:
                        if alt != chosen[i]:
                            todo.append(tuple(chosen[:i]) + (alt,))
    return results, complete


def run_unscheduled(zy, sockdir, k, db_urls, points, seed, max_sleep_ms=2.0, timeout=120, pool=None, stalls=None):
    """per db_url one round: k processes (fresh one-shot children waiting at a barrier, or k pool workers) are released together and
    run the constructor with seeded random sleeps of 0..max_sleep_ms at the hook points.
    -> list of {"status", "results": {idx: msg}, "round"} per round"""
    rounds = []
    for r, url in enumerate(db_urls):
        rd = {"status": "ok", "results": {}, "round": r}
        rounds.append(rd)
        cfgs = [{"mode": "stress", "idx": i, "seed": "%s/%d/%d" % (seed, r, i), "max_sleep_ms": max_sleep_ms, "points": list(points), "db_url": url}
                for i in range(k)]
        if stalls:
            for i in range(k):
                cfgs[i]["stall"] = stalls.get(i, {"-": 0})
        g = None
        try:
            if pool is not None:
                g = pool.acquire(k)
                start = [dict(c, cmd="run") for c in cfgs]
            else:
                g = _Group(zy, sockdir, cfgs, timeout)
                start = [{"cmd": "go"}] * k
            for i in range(k):
                g.chans[i].send(start[i])
            for i in range(k):
                m = g.recv(i)
                if m is None:
                    m = {"session_id": None, "exc": "child died", "exc_type": "ChildDied", "log": []}
                rd["results"][i] = m
            if pool is not None and any(m.get("exc_type") == "ChildDied" for m in rd["results"].values()):
                g.kill()
        except Watchdog as e:
            rd["status"] = "watchdog: %s" % e
            if g:
                g.kill()
        finally:
            if g:
                g.close()
    return rounds


if __name__ == "__main__":
    if len(sys.argv) > 1 and sys.argv[1] == "zygote":
        zygote_main()
