"""Hash perturbation + iteration-site monitors/fixes for the DAD decompiler (C22).

Node, Interval and IRForm (and every subclass: BasicBlock kinds, Variable, Param ...) define neither __eq__ nor __hash__, so they hash by
address and are put into sets (Interval.content, Node.update_attribute_with, MergeNodes' pred/dest sets, simplify's to_update,
BasicBlock.var_to_declare ...).  install() gives every such object a hash drawn from a seeded PRNG at its first hashing.  Equality stays
identity, so this is a legal execution of the same program: whatever differs in the output under perturbation can also differ between
two ordinary runs whose allocator happens to lay the objects out differently.

site fixes: deterministic replacements of single iteration sites (monkeypatched in the child process only, never in /repo), used to
*isolate* which set iteration makes the output order-dependent: if the output is stable under perturbation once site S is fixed, S is the cause.
"""
import inspect
import random

STATE = {"installed": None, "hashed_objects": 0, "sites": {}, "orig": {}}
CLASSES = ("Node", "Interval", "IRForm")


def _targets():
    from androguard.decompiler import instruction, node
    return {"Node": node.Node, "Interval": node.Interval, "IRForm": instruction.IRForm}


def audit_identity_hashing():
    """-> names of decompiler classes that inherit object.__hash__ (identity) although instances end up in sets"""
    out = []
    for name, cls in _targets().items():
        todo = [cls]
        while todo:
            c = todo.pop()
            if "__eq__" in c.__dict__ or ("__hash__" in c.__dict__ and not getattr(c.__dict__["__hash__"], "_vf", False)):
                out.append("%s defines its own __eq__/__hash__" % c.__name__)
            todo.extend(c.__subclasses__())
    return out


def install(seed, classes=CLASSES):
    """replace __hash__ of the given base classes by a per-object value from Random(seed). Re-installable (new seed => new stream)."""
    rng = random.Random("hashperturb-%s" % seed)
    tg = _targets()
    for name in CLASSES:
        cls = tg[name]
        if name not in STATE["orig"]:
            STATE["orig"][name] = cls.__dict__.get("__hash__")
        if name not in classes:
            _restore(cls, name)
            continue

        def h(self, _rng=rng):
            d = self.__dict__
            v = d.get("_vf_h")
            if v is None:
                v = d["_vf_h"] = _rng.getrandbits(60)
                STATE["hashed_objects"] += 1
            return v
        h._vf = True
        cls.__hash__ = h
    STATE["installed"] = (seed, tuple(classes))


def _restore(cls, name):
    o = STATE["orig"].get(name)
    if o is None:
        if "__hash__" in cls.__dict__:
            del cls.__hash__
    else:
        cls.__hash__ = o


def uninstall():
    tg = _targets()
    for name in CLASSES:
        if name in STATE["orig"]:
            _restore(tg[name], name)
    STATE["installed"] = None


# ---- reached-ness monitors --------------------------------------------------------------------------------------------------------
def _count(site, n=1):
    STATE["sites"][site] = STATE["sites"].get(site, 0) + n


def install_site_monitors():
    """count, per site, how often a set with >= 2 identity-hashed elements was iterated where the order can matter"""
    from androguard.decompiler import basic_blocks, node, writer
    if STATE.get("monitors"):
        return
    STATE["monitors"] = True
    orig_ce = node.Interval.compute_end

    def compute_end(self, graph):
        if len(self.content) >= 2:
            _count("Interval.compute_end:set>=2")
            exits = [n for n in self.content if any(s not in self.content for s in graph.sucs(n))]
            if len(exits) >= 2:
                _count("Interval.compute_end:>=2 exit candidates (result depends on set order)")
        return orig_ce(self, graph)
    node.Interval.compute_end = compute_end
    STATE["orig"]["Interval.compute_end"] = orig_ce
    orig_ua = node.Node.update_attribute_with

    def update_attribute_with(self, n_map):
        if len(set(self.loop_nodes)) >= 2:
            _count("Node.update_attribute_with:loop_nodes set>=2")
        return orig_ua(self, n_map)
    node.Node.update_attribute_with = update_attribute_with
    STATE["orig"]["Node.update_attribute_with"] = orig_ua
    orig_vn = writer.Writer.visit_node

    def visit_node(self, n):
        if n not in self.visited_nodes and len([v for v in n.var_to_declare if not v.declared]) >= 2:
            _count("Writer.visit_node:var_to_declare set>=2")
        return orig_vn(self, n)
    writer.Writer.visit_node = visit_node
    STATE["orig"]["Writer.visit_node"] = orig_vn
    orig_ci = basic_blocks.Condition.__init__

    def cinit(self, *a, **k):
        _count("short_circuit_struct.MergeNodes:calls")
        return orig_ci(self, *a, **k)
    basic_blocks.Condition.__init__ = cinit


# ---- deterministic replacements of single sites ----------------------------------------------------------------------------------------
class OSet:
    """insertion-ordered set (identity/eq semantics of a set, iteration in insertion order)"""

    def __init__(self, it=()):
        self.d = {}
        self.update(it)

    def add(self, x):
        self.d[x] = None

    def update(self, it):
        for x in it:
            self.d[x] = None

    def difference_update(self, it):
        for x in it:
            self.d.pop(x, None)

    def remove(self, x):
        del self.d[x]

    def discard(self, x):
        self.d.pop(x, None)

    def copy(self):
        return OSet(self.d)

    def pop(self):
        k = next(iter(self.d))
        del self.d[k]
        return k

    def __contains__(self, x):
        return x in self.d

    def __iter__(self):
        return iter(list(self.d))

    def __len__(self):
        return len(self.d)


def _head_num(n):
    try:
        return n.get_head().num
    except Exception:
        return 0


def _rewrite(module, funcname, replacements):
    """re-exec the source of module.funcname with textual replacements (in the child's copy of the module only)"""
    f = getattr(module, funcname)
    src = inspect.getsource(f)
    for a, b in replacements:
        if a not in src:
            raise RuntimeError("site fix: %r not found in %s.%s" % (a, module.__name__, funcname))
        src = src.replace(a, b)
    ns = module.__dict__
    ns["_VF_OSet"] = OSet
    exec(compile(src, "<vf site fix %s>" % funcname, "exec"), ns)


SITES = ("Interval.compute_end", "Node.update_attribute_with", "short_circuit_struct.MergeNodes", "graph.simplify+split_if_nodes.to_update",
         "BasicBlock.var_to_declare", "Interval.content")
_applied = {}


def apply_fix(site):
    from androguard.decompiler import basic_blocks, control_flow, graph, node
    if site in _applied:
        return
    if site == "Interval.compute_end":
        orig = node.Interval.compute_end

        def compute_end(self, g):
            for n in sorted(self.content, key=_head_num):
                for suc in g.sucs(n):
                    if suc not in self.content:
                        self.end = n
            self.end = self.end or self.head
        node.Interval.compute_end = compute_end
        _applied[site] = lambda: setattr(node.Interval, "compute_end", orig)
    elif site == "Node.update_attribute_with":
        orig = node.Node.update_attribute_with

        def update_attribute_with(self, n_map):
            self.latch = n_map.get(self.latch, self.latch)
            for follow_type, value in self.follow.items():
                self.follow[follow_type] = n_map.get(value, value)
            seen = {}
            for n in self.loop_nodes:
                seen.setdefault(n_map.get(n, n), None)
            self.loop_nodes = list(seen)
        node.Node.update_attribute_with = update_attribute_with
        _applied[site] = lambda: setattr(node.Node, "update_attribute_with", orig)
    elif site == "short_circuit_struct.MergeNodes":
        orig = control_flow.short_circuit_struct
        _rewrite(control_flow, "short_circuit_struct", [("lpreds = set()", "lpreds = _VF_OSet()"), ("ldests = set()", "ldests = _VF_OSet()")])
        _applied[site] = lambda: setattr(control_flow, "short_circuit_struct", orig)
    elif site == "graph.simplify+split_if_nodes.to_update":
        o1, o2 = graph.simplify, graph.split_if_nodes
        _rewrite(graph, "simplify", [("to_update = set()", "to_update = _VF_OSet()")])
        _rewrite(graph, "split_if_nodes", [("to_update = set()", "to_update = _VF_OSet()")])

        def undo():
            graph.simplify, graph.split_if_nodes = o1, o2
        _applied[site] = undo
    elif site == "BasicBlock.var_to_declare":
        orig = basic_blocks.BasicBlock.__init__

        def init(self, *a, **k):
            orig(self, *a, **k)
            self.var_to_declare = OSet()
        basic_blocks.BasicBlock.__init__ = init
        _applied[site] = lambda: setattr(basic_blocks.BasicBlock, "__init__", orig)
    elif site == "Interval.content":
        orig = node.Interval.__init__

        def iinit(self, head):
            orig(self, head)
            self.content = OSet([head])
        node.Interval.__init__ = iinit
        _applied[site] = lambda: setattr(node.Interval, "__init__", orig)
    else:
        raise ValueError(site)


def remove_fix(site):
    u = _applied.pop(site, None)
    if u:
        u()


def remove_all_fixes():
    for s in list(_applied):
        remove_fix(s)
