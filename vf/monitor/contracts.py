"""icontract contracts attached to the real functions from the harness (no repository edit). Conditions RECORD and return True, so a broken
contract never changes the behaviour it observes; the harness turns the recorded failures into witnesses. Evaluation counts are kept so that
"never evaluated" is reported as inconclusive rather than held."""
import os
import sys

HERE = os.path.dirname(os.path.dirname(os.path.dirname(os.path.abspath(__file__))))
if os.path.join(HERE, ".deps") not in sys.path:
    sys.path.append(os.path.join(HERE, ".deps"))


def ensure_icontract():
    try:
        import icontract  # noqa: F401
        return True
    except ImportError:
        import subprocess
        subprocess.run(["/venv/bin/pip", "install", "-q", "--no-index", "--find-links", "/opt/veriftools/wheels", "--target", os.path.join(HERE, ".deps"), "icontract"],
                       stdout=subprocess.DEVNULL, stderr=subprocess.DEVNULL, env=dict(os.environ, PIP_NO_INDEX="1"))
        import importlib
        importlib.invalidate_caches()  # .deps did not exist when the path entry was first looked at
        sys.path_importer_cache.pop(os.path.join(HERE, ".deps"), None)
        try:
            import icontract  # noqa: F401
            return True
        except ImportError:
            return False


class Recorder:
    def __init__(self):
        self.evaluations = {}
        self.failures = []

    def note(self, name, ok, detail):
        self.evaluations[name] = self.evaluations.get(name, 0) + 1
        if not ok and len(self.failures) < 50:
            self.failures.append((name, detail))
        return True


class ContractBroken(Exception):
    pass


def install_leb_contracts(rec):
    """range postconditions on the LEB128 readers while real DEX parsing runs"""
    import icontract
    from androguard.core import dex

    def uleb_in_range(result):
        return rec.note("readuleb128", isinstance(result, int) and 0 <= result < (1 << 32) + (1 << 35), result) and (0 <= result)

    def uleb32(result):
        return rec.note("readuleb128-32bit", 0 <= result < (1 << 32), result)

    def sleb32(result):
        return rec.note("readsleb128-32bit", -(1 << 31) <= result < (1 << 31), result)

    def p1(result):
        return rec.note("readuleb128p1", -1 <= result < (1 << 32), result)
    orig = (dex.readuleb128, dex.readsleb128, dex.readuleb128p1)
    dex.readuleb128 = icontract.ensure(uleb32, error=ContractBroken)(dex.readuleb128)
    dex.readsleb128 = icontract.ensure(sleb32, error=ContractBroken)(dex.readsleb128)
    dex.readuleb128p1 = icontract.ensure(p1, error=ContractBroken)(dex.readuleb128p1)

    def undo():
        dex.readuleb128, dex.readsleb128, dex.readuleb128p1 = orig
    return undo
