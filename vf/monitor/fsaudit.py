"""File-system audit monitor (C37, usable by C38).

Monitor 1: a `sys.addaudithook` hook that records every event that can create or replace a directory entry
  open (only with a writing/creating mode or flags), os.mkdir, os.rename, os.replace, os.link, os.symlink, os.truncate,
  shutil.copyfile/copytree/move/make_archive/unpack_archive
together with the path resolved by os.path.realpath *at event time* (so the cwd and the symlinks in force at that moment decide).
Audit hooks cannot be removed, so one hook is installed per process and switched on/off by a window.

Monitor 2: `snapshot(dir)` / `diff(before, after)`: a directory listing taken before and after, independent of the hook
(sees creation through any channel the hook does not see, e.g. C extensions).

Never imports androguard.
"""
import os
import sys

_WRITE_FLAGS = os.O_WRONLY | os.O_RDWR | os.O_CREAT | os.O_TRUNC | os.O_APPEND

# event -> index of the argument naming the entry that is created/replaced
_DST_ARG = {
    "os.mkdir": 0,
    "os.rename": 1,  # os.replace raises os.rename as well
    "os.link": 1,
    "os.symlink": 1,
    "os.truncate": 0,
    "shutil.copyfile": 1,
    "shutil.copytree": 1,
    "shutil.move": 1,
    "shutil.make_archive": 0,
    "shutil.unpack_archive": 1,
}


def _is_write_open(mode, flags):
    if isinstance(mode, str) and any(c in mode for c in "wax+"):
        return True
    if isinstance(flags, int) and flags & _WRITE_FLAGS:
        return True
    return False


def _to_str(p):
    if isinstance(p, bytes):
        return os.fsdecode(p)
    if isinstance(p, str):
        return p
    try:
        return os.fspath(p) if not isinstance(p, int) else None
    except TypeError:
        return None


def _statsig(p):
    try:
        st = os.lstat(p)
    except (OSError, ValueError):
        return None
    return (st.st_ino, st.st_mode, st.st_size, st.st_mtime_ns, st.st_ctime_ns)


class FsAudit:
    """usage: a = FsAudit.get(); a.start(); <call>; events = a.stop()
    events: list of dicts {event, path (as given), real (realpath at event time), cwd, before, after, effective}
    Audit events fire *before* the operation and also for operations that then fail (ENOENT, EEXIST ...).  `before` is the lstat
    signature of `real` at event time, `after` the signature at the next audit event of any kind (or at stop()); `effective` says
    that the entry came into being or changed - only effective events are creations."""
    _inst = None

    def __init__(self):
        self.on = False
        self.events = []
        self.seen_total = 0  # all audit events delivered while the window was open (liveness of the hook)
        self._busy = False
        self._pending = []

    @classmethod
    def get(cls):
        if cls._inst is None:
            cls._inst = cls()
            sys.addaudithook(cls._inst._hook)
        return cls._inst

    def _hook(self, event, args):
        if not self.on or self._busy:
            return
        self.seen_total += 1
        if self._pending:
            self._busy = True
            try:
                self._settle()
            finally:
                self._busy = False
        path = None
        if event == "open":
            if len(args) >= 3 and _is_write_open(args[1], args[2]):
                path = _to_str(args[0])
        elif event in _DST_ARG:
            i = _DST_ARG[event]
            if len(args) > i:
                path = _to_str(args[i])
        if path is None:
            return
        self._busy = True  # realpath itself raises audit events (os.listdir/os.readlink are not recorded anyway)
        try:
            try:
                cwd = os.getcwd()
            except OSError:
                cwd = None
            try:
                real = os.path.realpath(path)
            except Exception:
                real = os.path.abspath(path)
            self.events.append({"event": event, "path": path, "real": real, "cwd": cwd, "before": _statsig(real), "after": None, "effective": None})
            self._pending.append(self.events[-1])
        finally:
            self._busy = False

    def _settle(self):
        for e in self._pending:
            e["after"] = _statsig(e["real"])
            e["effective"] = e["after"] is not None and e["after"] != e["before"]
        self._pending = []

    def start(self):
        self.events = []
        self._pending = []
        self.seen_total = 0
        self.on = True

    def stop(self):
        self.on = False
        self._settle()
        return self.events


def inside(real, root_real):
    """real == root or below it (both already realpath'ed)"""
    return real == root_real or real.startswith(root_real.rstrip(os.sep) + os.sep)


def snapshot(top):
    """-> {relative path: 'd' | 'l' | 'f:<size>:<mtime_ns>'} of everything below top (links not followed);
    size/mtime make the overwriting of an existing file visible as well"""
    out = {}
    top = os.path.realpath(top)
    for r, dirs, files in os.walk(top, followlinks=False):
        for n in dirs + files:
            p = os.path.join(r, n)
            rel = os.path.relpath(p, top)
            if os.path.islink(p):
                out[rel] = "l"
            elif os.path.isdir(p):
                out[rel] = "d"
            else:
                try:
                    st = os.lstat(p)
                    out[rel] = "f:%d:%d" % (st.st_size, st.st_mtime_ns)
                except OSError:
                    out[rel] = "f"
    return out


def diff(before, after):
    """-> sorted list of relative paths that are new or changed kind"""
    return sorted(p for p, k in after.items() if before.get(p) != k)
