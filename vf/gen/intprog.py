"""Generator of well-typed *structured* static methods over int and long, compiled to Dalvik code units the way dx lays code out.

Typed AST (tuples):
  expr :  ("var", name) | ("const", T, value, form) | ("bin", op, T, a, b, form) | ("un", insn, a)
            T in "I","J"; op in add sub mul div rem and or xor shl shr ushr rsub; form in 3reg 2addr lit8 lit16 (for lit forms b is a python int)
  cond :  ("cmp", test, T, a, b, z) | ("and", c, c) | ("or", c, c) | ("not", c)        test in eq ne lt ge gt le; z: compare int against 0 with if-testz
  stmt :  ("assign", name, expr) | ("dead", name, expr) | ("if", cond, [stmt], [stmt]) | ("while", cond, [stmt], style) | ("dowhile", [stmt], cond)
          | ("switch", expr, [(keys, [stmt], falls_through)], default [stmt] or None, kind) | ("return", expr)
Registers: locals first, then expression temporaries, parameters LAST (Dalvik convention); longs take register pairs.
Every method carries the *feature set* of the instructions/constructs actually emitted.  Never imports androguard.
"""
from vf.model import dalvik as D

I32_MIN, I32_MAX = -(1 << 31), (1 << 31) - 1
I64_MIN, I64_MAX = -(1 << 63), (1 << 63) - 1
BINOPS = ("add", "sub", "mul", "div", "rem", "and", "or", "xor", "shl", "shr", "ushr")
LIT16_OPS = ("add", "rsub", "mul", "div", "rem", "and", "or", "xor")
LIT8_OPS = LIT16_OPS + ("shl", "shr", "ushr")
TESTS = ("eq", "ne", "lt", "ge", "gt", "le")
NEG_TEST = {"eq": "ne", "ne": "eq", "lt": "ge", "ge": "lt", "gt": "le", "le": "gt"}
UNARY = {  # insn -> (operand type, result type)
    "neg-int": ("I", "I"), "not-int": ("I", "I"), "neg-long": ("J", "J"), "not-long": ("J", "J"),
    "int-to-long": ("I", "J"), "long-to-int": ("J", "I"), "int-to-byte": ("I", "I"), "int-to-char": ("I", "I"), "int-to-short": ("I", "I"),
}
JAVA_OP = {"add": "+", "sub": "-", "mul": "*", "div": "/", "rem": "%", "and": "&", "or": "|", "xor": "^", "shl": "<<", "shr": ">>", "ushr": ">>>"}
JAVA_TEST = {"eq": "==", "ne": "!=", "lt": "<", "ge": ">=", "gt": ">", "le": "<="}


class TooBig(Exception):
    pass


def sx(v, bits):
    return D.sx(v, bits)


def const_form_for(T, v):
    """smallest encoding, as dx picks it"""
    if T == "I":
        if -8 <= v <= 7:
            return "const/4"
        if -32768 <= v <= 32767:
            return "const/16"
        if v & 0xFFFF == 0:
            return "const/high16"
        return "const"
    if -32768 <= v <= 32767:
        return "const-wide/16"
    if I32_MIN <= v <= I32_MAX:
        return "const-wide/32"
    if v & ((1 << 48) - 1) == 0:
        return "const-wide/high16"
    return "const-wide"


def const_ok(form, v):
    return {"const/4": -8 <= v <= 7, "const/16": -32768 <= v <= 32767, "const": I32_MIN <= v <= I32_MAX,
            "const/high16": I32_MIN <= v <= I32_MAX and v & 0xFFFF == 0,
            "const-wide/16": -32768 <= v <= 32767, "const-wide/32": I32_MIN <= v <= I32_MAX, "const-wide": I64_MIN <= v <= I64_MAX,
            "const-wide/high16": I64_MIN <= v <= I64_MAX and v & ((1 << 48) - 1) == 0}[form]


def mkconst(T, v, form=None):
    form = form or const_form_for(T, v)
    assert const_ok(form, v), (form, v)
    return ("const", T, v, form)


def expr_type(e, env):
    k = e[0]
    if k == "var":
        return env[e[1]]
    if k == "const":
        return e[1]
    if k == "bin":
        return e[2]
    if k == "un":
        return UNARY[e[1]][1]
    raise AssertionError(e)


def bin_insn(op, T, form):
    t = "int" if T == "I" else "long"
    if form == "3reg":
        return "%s-%s" % (op, t)
    if form == "2addr":
        return "%s-%s/2addr" % (op, t)
    if form == "lit8":
        return "rsub-int/lit8" if op == "rsub" else "%s-int/lit8" % op
    if form == "lit16":
        return "rsub-int" if op == "rsub" else "%s-int/lit16" % op
    raise AssertionError(form)


def is_const_expr(e):
    """no variable anywhere below: DAD prints it as a literal-only Java expression"""
    if e[0] == "const":
        return True
    if e[0] == "un":
        return is_const_expr(e[2])
    if e[0] == "bin":
        return is_const_expr(e[3]) and (isinstance(e[4], int) or is_const_expr(e[4]))
    return False


def bin_shape_features(e):
    """operand-shape refinements of a binary node: constant on the left (@cp) / on the right (@pc)"""
    _, op, T, a, b, form = e
    insn = bin_insn(op, T, form)
    out = []
    if is_const_expr(a):
        out.append("op:%s@cp" % insn)
    if not isinstance(b, int) and is_const_expr(b):
        out.append("op:%s@pc" % insn)
    if len(out) == 2:
        out.append("op:%s@cc" % insn)
    return out


class Method:
    def __init__(self, name, ret, params, locals_, body, pool="P5", subject=None, shape=None, separate_banks=False):
        self.name, self.ret, self.params, self.locals, self.body = name, ret, list(params), list(locals_), body
        self.pool, self.subject, self.shape, self.separate_banks = pool, subject, shape, separate_banks
        self.features = set()
        self.units = None
        self.registers = self.ins = None
        # how the back edge of bottom-tested loops is compiled: False: `if cond -> head` (dx); True: `if !cond -> exit; goto head` (other
        # compilers / optimisers): the latch block's TRUE branch then leaves the loop
        self.latch_exit_goto = False

    @property
    def env(self):
        return dict(self.params + self.locals)

    def clone(self, body=None, separate_banks=None):
        m = Method(self.name, self.ret, self.params, self.locals, self.body if body is None else body, self.pool, self.subject, self.shape,
                   self.separate_banks if separate_banks is None else separate_banks)
        m.latch_exit_goto = self.latch_exit_goto
        return m

    def shape_sig(self):
        """structure without literal values / variable names"""
        def ex(e):
            k = e[0]
            if k == "var":
                return "v"
            if k == "const":
                return ("c", e[1], e[3])
            if k == "bin":
                return ("b", e[1], e[2], e[5], ex(e[3]), "lit" if isinstance(e[4], int) else ex(e[4]))
            return ("u", e[1], ex(e[2]))

        def co(c):
            if c[0] == "cmp":
                return ("cmp", c[1], c[2], c[5], ex(c[3]), ex(c[4]))
            if c[0] == "not":
                return ("not", co(c[1]))
            return (c[0], co(c[1]), co(c[2]))

        def st(s):
            k = s[0]
            if k in ("assign", "dead"):
                return (k, ex(s[2]))
            if k == "if":
                return ("if", co(s[1]), bl(s[2]), bl(s[3]))
            if k == "while":
                return ("while", s[3], co(s[1]), bl(s[2]))
            if k == "dowhile":
                return ("dowhile", bl(s[1]), co(s[2]))
            if k == "switch":
                return ("switch", s[4], ex(s[1]), tuple((len(ks), bl(b), ft) for ks, b, ft in s[2]), None if s[3] is None else bl(s[3]))
            return ("return", ex(s[1]))

        def bl(b):
            return tuple(st(s) for s in b)
        return (self.ret, tuple(t for _, t in self.params), bl(self.body))


# =====================================================================================================
# compiler
# =====================================================================================================
class Compiler:
    def __init__(self, m):
        self.m = m
        self.env = m.env
        self.code = []          # items: ("ins", mnemonic, [operands]) | ("label", name) | ("switch", kind, reg, payload label)
        self.payloads = []      # (label, kind, keys, [case labels], base switch index)
        self.feat = set()
        self.nlabel = 0
        self.loc = {}
        off = 0
        for n, t in m.locals:
            self.loc[n] = ("L", off)
            off += 2 if t == "J" else 1
        self.nloc = off
        off = 0
        for n, t in m.params:
            self.loc[n] = ("P", off)
            off += 2 if t == "J" else 1
        self.nins = off
        self.top = {"T": 0, "TI": 0, "TJ": 0}
        self.maxtop = {"T": 0, "TI": 0, "TJ": 0}
        self.temp_types = {}    # ("T", off) -> set of types held

    # ---- helpers ------------------------------------------------------------------------------------
    def label(self):
        self.nlabel += 1
        return "L%d" % self.nlabel

    def emit(self, mn, *ops):
        self.code.append(("ins", mn, list(ops)))

    def place(self, lbl):
        self.code.append(("label", lbl))

    def bank(self, T):
        if self.m.separate_banks:
            return "TJ" if T == "J" else "TI"
        return "T"

    def mark(self):
        return dict(self.top)

    def reset(self, mk):
        self.top = dict(mk)

    def alloc(self, T):
        b = self.bank(T)
        off = self.top[b]
        size = 2 if T == "J" else 1
        self.top[b] = off + size
        self.maxtop[b] = max(self.maxtop[b], self.top[b])
        for k in range(size):
            self.temp_types.setdefault((b, off + k), set()).add(T)
        return (b, off)

    def alloc_dest(self, T, mk, sources):
        """destination temp for an operation whose source registers are dead afterwards: reuse the slot at the mark when that is
        either disjoint from every source temp or exactly one of them (same width) - never a partial overlap of a pair; else above."""
        b = self.bank(T)
        size = 2 if T == "J" else 1
        d = mk[b]
        ok = True
        for r, t in sources:
            if not self.is_temp(r) or r[0] != b:
                continue
            ssz = 2 if t == "J" else 1
            disjoint = r[1] + ssz <= d or d + size <= r[1]
            if not (disjoint or (r[1] == d and ssz == size)):
                ok = False
        if ok:
            self.reset(mk)
        return self.alloc(T)

    def is_temp(self, r):
        return r[0] in ("T", "TI", "TJ")

    # ---- expressions --------------------------------------------------------------------------------
    def uses_var(self, e, name):
        k = e[0]
        if k == "var":
            return e[1] == name
        if k == "const":
            return False
        if k == "bin":
            return self.uses_var(e[3], name) or (not isinstance(e[4], int) and self.uses_var(e[4], name))
        return self.uses_var(e[2], name)

    def eval(self, e, dest=None):
        """-> symbolic register holding the value; if dest (a symbolic register) is given the value ends up there"""
        k = e[0]
        T = expr_type(e, self.env)
        if k == "var":
            r = self.loc[e[1]]
            if dest is not None and dest != r:
                mv = e[2] if len(e) > 2 else ("move-wide" if T == "J" else "move")
                self.emit(mv, dest, r)
                self.feat.add("move:" + mv)
                return dest
            return r
        if k == "const":
            rd = dest or self.alloc(T)
            _, _, v, form = e
            if form in ("const/high16",):
                self.emit(form, rd, (v >> 16) & 0xFFFF)
            elif form == "const-wide/high16":
                self.emit(form, rd, (v >> 48) & 0xFFFF)
            else:
                self.emit(form, rd, v)
            self.feat.add("const:" + form)
            if T == "J" and not (I32_MIN <= v <= I32_MAX):
                self.feat.add("constval:beyond-int")
            if v < 0:
                self.feat.add("constval:negative")
            return rd
        if k == "un":
            insn, a = e[1], e[2]
            ta, tr = UNARY[insn]
            mk = self.mark()
            ra = self.eval(a)
            rd = dest or self.alloc_dest(tr, mk, [(ra, ta)])
            self.emit(insn, rd, ra)
            self.feat.add("un:" + insn)
            return rd
        if k == "bin":
            _, op, T, a, b, form = e
            insn = bin_insn(op, T, form)
            self.feat.add("op:" + insn)
            for f in bin_shape_features(e):
                self.feat.add(f)
            if form in ("lit8", "lit16"):
                mk = self.mark()
                ra = self.eval(a)
                rd = dest or self.alloc_dest("I", mk, [(ra, "I")])
                self.emit(insn, rd, ra, b)
                if b < 0:
                    self.feat.add("litval:negative")
                if b == 0 and op in ("div", "rem"):
                    self.feat.add("litval:div-by-literal-zero")
                return rd
            mk = self.mark()
            ra = self.eval(a)
            rb = self.eval(b)
            tb = expr_type(b, self.env)
            if form == "3reg":
                rd = dest or self.alloc_dest(T, mk, [(ra, T), (rb, tb)])  # tb: shift counts are int while the result may be long
                self.emit(insn, rd, ra, rb)
                return rd
            # 2addr: the first operand register is also the destination
            if self.is_temp(ra):
                w = ra
            else:
                if dest is not None and (rb != dest or ra == dest):
                    w = dest      # x = x op e, x = y op e (e not x), x = x op x
                else:
                    w = self.alloc(T)   # x = y op x needs a temporary
                if w != ra:
                    mv = "move-wide" if T == "J" else "move"
                    self.emit(mv, w, ra)
                    self.feat.add("move:" + mv)
            self.emit(insn, w, rb)
            # keep w allocated, release what lies above it
            if self.is_temp(w):
                bnk = w[0]
                self.top[bnk] = w[1] + (2 if T == "J" else 1)
                for ob in self.top:
                    if ob != bnk:
                        self.top[ob] = mk[ob] if ob in mk else self.top[ob]
            else:
                self.reset(mk)
            if dest is not None and w != dest:
                mv = "move-wide" if T == "J" else "move"
                self.emit(mv, dest, w)
                self.feat.add("move:" + mv)
                return dest
            return w
        raise AssertionError(e)

    # ---- conditions ---------------------------------------------------------------------------------
    def branch(self, c, target, jump_if):
        k = c[0]
        if k == "not":
            self.feat.add("ctl:not")
            return self.branch(c[1], target, not jump_if)
        if k in ("and", "or"):
            self.feat.add("ctl:" + k)
            # and: false as soon as one is false; or: true as soon as one is true
            short_val = (k == "or")
            if jump_if == short_val:
                self.branch(c[1], target, jump_if)
                self.branch(c[2], target, jump_if)
            else:
                skip = self.label()
                self.branch(c[1], skip, short_val)
                self.branch(c[2], target, jump_if)
                self.place(skip)
            return
        _, test, T, a, b, z = c
        t = test if jump_if else NEG_TEST[test]
        mk = self.mark()
        if T == "J":
            ra = self.eval(a)
            rb = self.eval(b)
            self.reset(mk)
            rt = self.alloc("I")
            self.emit("cmp-long", rt, ra, rb)
            self.feat.add("cmp:cmp-long")
            self.feat.add("cmp:cmp-long-" + t)
            self.emit("if-%sz" % t, rt, ("lbl", target))
        elif z:
            ra = self.eval(a)
            self.emit("if-%sz" % t, ra, ("lbl", target))
            self.feat.add("cmp:if-%sz" % t)
        else:
            ra = self.eval(a)
            rb = self.eval(b)
            self.emit("if-%s" % t, ra, rb, ("lbl", target))
            self.feat.add("cmp:if-%s" % t)
        self.reset(mk)

    # ---- statements ---------------------------------------------------------------------------------
    def block(self, stmts):
        """-> True if control can fall out of the end"""
        for i, s in enumerate(stmts):
            if not self.stmt(s):
                assert i == len(stmts) - 1, "unreachable statement generated"
                return False
        return True

    def back_edge(self, c, top):
        if self.m.latch_exit_goto:
            self.feat.add("latch:exit-goto")
            out = self.label()
            self.branch(c, out, False)
            self.emit("goto", ("lbl", top))
            self.place(out)
        else:
            self.branch(c, top, True)

    def stmt(self, s):
        k = s[0]
        if k in ("assign", "dead"):
            mk = self.mark()
            self.eval(s[2], dest=self.loc[s[1]])
            self.reset(mk)
            if k == "dead":
                self.feat.update(dead_features(s[2]))
            return True
        if k == "return":
            mk = self.mark()
            r = self.eval(s[1])
            self.reset(mk)
            self.emit("return-wide" if self.m.ret == "J" else "return", r)
            return False
        if k == "if":
            _, c, th, el = s
            end = self.label()
            if el:
                self.feat.add("ctl:if-else")
                els = self.label()
                self.branch(c, els, False)
                ft = self.block(th)
                if ft:
                    self.emit("goto", ("lbl", end))
                self.place(els)
                fe = self.block(el)
                self.place(end)
                return ft or fe
            self.feat.add("ctl:if")
            self.branch(c, end, False)
            self.block(th)
            self.place(end)
            return True
        if k == "while":
            _, c, body, style = s
            self.feat.add("ctl:while-" + style)
            if style == "top":
                head, end = self.label(), self.label()
                self.place(head)
                self.branch(c, end, False)
                if self.block(body):
                    self.emit("goto", ("lbl", head))
                self.place(end)
            else:
                cond, top = self.label(), self.label()
                self.emit("goto", ("lbl", cond))
                self.place(top)
                ft = self.block(body)
                assert ft, "bottom-tested loop body must fall through"
                self.place(cond)
                self.back_edge(c, top)
            return True
        if k == "dowhile":
            _, body, c = s
            self.feat.add("ctl:do-while")
            top = self.label()
            self.place(top)
            ft = self.block(body)
            assert ft
            self.back_edge(c, top)
            return True
        if k == "switch":
            _, e, cases, default, kind = s
            self.feat.add("ctl:%s-switch" % kind)
            mk = self.mark()
            r = self.eval(e)
            self.reset(mk)
            pl = self.label()
            end = self.label()
            labels = [self.label() for _ in cases]
            keys, targets = [], []
            for (ks, _, _), lb in zip(cases, labels):
                for kk in ks:
                    keys.append(kk)
                    targets.append(lb)
            order = sorted(range(len(keys)), key=lambda i: keys[i])
            keys = [keys[i] for i in order]
            targets = [targets[i] for i in order]
            if kind == "packed":
                assert keys == list(range(keys[0], keys[0] + len(keys))), keys
            self.code.append(("switch", kind, r, pl))
            self.payloads.append((pl, kind, keys, targets))
            falls = False
            if default is not None:
                self.feat.add("ctl:switch-default")
                if self.block(default):
                    self.emit("goto", ("lbl", end))
                    falls = True
            else:
                self.emit("goto", ("lbl", end))
                falls = True
            for i, ((ks, body, ft_next), lb) in enumerate(zip(cases, labels)):
                self.place(lb)
                if len(ks) > 1:
                    self.feat.add("ctl:switch-multi-label")
                ft = self.block(body)
                last = i == len(cases) - 1
                if ft:
                    if ft_next and not last:
                        self.feat.add("ctl:switch-fallthrough")
                    else:
                        falls = True
                        if not last:
                            self.emit("goto", ("lbl", end))
                else:
                    self.feat.add("ctl:switch-return-in-case")
            self.place(end)
            return falls
        raise AssertionError(s)

    # ---- assembly -----------------------------------------------------------------------------------
    def resolve(self, r):
        kind, off = r
        if kind == "L":
            return off
        if kind == "T":
            return self.nloc + off
        if kind == "TI":
            return self.nloc + off
        if kind == "TJ":
            return self.nloc + self.maxtop["TI"] + off
        return self.nloc + self.ntemp + off

    def finish(self):
        m = self.m
        ft = self.block(m.body)
        assert not ft, "method body falls off the end"
        self.ntemp = self.maxtop["T"] + self.maxtop["TI"] + self.maxtop["TJ"]
        registers = self.nloc + self.ntemp + self.nins
        if registers > 16:
            raise TooBig("needs %d registers" % registers)
        if any(len(v) > 1 for v in self.temp_types.values()):
            self.feat.add("reuse:int-long")
        # peephole: drop goto to the directly following label, then collect
        items = []
        for it in self.code:
            items.append(it)
        changed = True
        while changed:
            changed = False
            for i, it in enumerate(items):
                if it[0] == "ins" and it[1] == "goto":
                    tgt = it[2][0][1]
                    j = i + 1
                    while j < len(items) and items[j][0] == "label":
                        if items[j][1] == tgt:
                            del items[i]
                            changed = True
                            break
                        j += 1
                    if changed:
                        break
        items = thread_jumps(items, self.payloads)
        # sizes with goto relaxation
        wide_goto = set()
        while True:
            addr = {}
            pc = 0
            sizes = []
            for i, it in enumerate(items):
                if it[0] == "label":
                    addr[it[1]] = pc
                    sizes.append(0)
                elif it[0] == "switch":
                    sizes.append(3)
                    pc += 3
                else:
                    mn = it[1]
                    if mn == "goto" and i in wide_goto:
                        mn = "goto/16"
                    n = D.FORMAT_UNITS[D.OPCODES[D.NAME2OP[mn]][1]]
                    sizes.append(n)
                    pc += n
            end_code = pc
            ppos = {}
            for pl, kind, keys, targets in self.payloads:
                if pc % 2:
                    pc += 1
                ppos[pl] = pc
                pc += (len(keys) * 2 + 4) if kind == "packed" else (len(keys) * 4 + 2)
            grow = False
            pc = 0
            for i, it in enumerate(items):
                if it[0] == "ins" and it[1] == "goto" and i not in wide_goto:
                    off = addr[it[2][0][1]] - pc
                    if not (-128 <= off <= 127) or off == 0:
                        if off == 0:
                            raise TooBig("goto to itself")
                        wide_goto.add(i)
                        grow = True
                pc += sizes[i]
            if not grow:
                break
        units = []
        switch_addr = {}
        for i, it in enumerate(items):
            here = len(units)
            if it[0] == "label":
                continue
            if it[0] == "switch":
                _, kind, r, pl = it
                switch_addr[pl] = here
                units += D.enc("%s-switch" % kind, self.resolve(r), ppos[pl] - here)
                continue
            mn = it[1]
            if mn == "goto" and i in wide_goto:
                mn = "goto/16"
                self.feat.add("goto:goto/16")
            ops = []
            for o in it[2]:
                if isinstance(o, tuple) and o[0] == "lbl":
                    off = addr[o[1]] - here
                    if not (-32768 <= off <= 32767):
                        raise TooBig("branch offset")
                    ops.append(off)
                elif isinstance(o, tuple):
                    ops.append(self.resolve(o))
                else:
                    ops.append(o)
            fmt = D.OPCODES[D.NAME2OP[mn]][1]
            if fmt in ("12x", "11n", "22t", "22s", "22c") and any(isinstance(o, tuple) and o[0] != "lbl" and self.resolve(o) > 15 for o in it[2]):
                raise TooBig("4-bit register field")
            units += D.enc(mn, *ops)
        assert len(units) == end_code
        for pl, kind, keys, targets in self.payloads:
            if len(units) % 2:
                units += D.enc("nop")
            assert len(units) == ppos[pl]
            base = switch_addr[pl]
            rel = [addr[t] - base for t in targets]
            if kind == "packed":
                units += D.packed_switch_payload(keys[0], rel)
            else:
                units += D.sparse_switch_payload(keys, rel)
        m.units, m.registers, m.ins = units, registers, self.nins
        m.features = set(self.feat)
        return m


def thread_jumps(items, payloads=()):
    """what dx's removeEmptyGotos does: a branch to a block consisting only of `goto X` goes to X directly; gotos nobody reaches are dropped"""
    for _ in range(20):
        pos = {it[1]: i for i, it in enumerate(items) if it[0] == "label"}

        def final(lbl):
            seen = set()
            while lbl not in seen:
                seen.add(lbl)
                j = pos[lbl]
                while j < len(items) and items[j][0] == "label":
                    j += 1
                if j < len(items) and items[j][0] == "ins" and items[j][1] == "goto":
                    lbl = items[j][2][0][1]
                else:
                    break
            return lbl
        changed = False
        for it in items:
            if it[0] == "ins":
                for k, o in enumerate(it[2]):
                    if isinstance(o, tuple) and o[0] == "lbl":
                        f = final(o[1])
                        if f != o[1]:
                            it[2][k] = ("lbl", f)
                            changed = True
        for pl in payloads:
            tg = pl[3]
            for k, lb in enumerate(tg):
                f = final(lb)
                if f != lb:
                    tg[k] = f
                    changed = True
        # referenced labels
        refs = set()
        for pl in payloads:
            refs.update(pl[3])
        for it in items:
            if it[0] == "ins":
                for o in it[2]:
                    if isinstance(o, tuple) and o[0] == "lbl":
                        refs.add(o[1])
        out = []
        reachable = True
        for it in items:
            if it[0] == "label":
                if it[1] in refs:
                    reachable = True
                out.append(it)
                continue
            if not reachable:
                if it[0] == "ins" and it[1] == "goto":
                    changed = True
                    continue      # unreachable goto
                raise AssertionError("unreachable non-goto instruction %r" % (it,))
            out.append(it)
            if it[0] == "ins" and it[1] in ("goto", "return", "return-wide"):
                reachable = False
        # goto to the directly following label
        i = 0
        while i < len(out):
            it = out[i]
            if it[0] == "ins" and it[1] == "goto":
                j = i + 1
                drop = False
                while j < len(out) and out[j][0] == "label":
                    if out[j][1] == it[2][0][1]:
                        drop = True
                    j += 1
                if drop:
                    del out[i]
                    changed = True
                    continue
            i += 1
        items = out
        if not changed:
            break
    return items


def compile_method(m):
    return Compiler(m).finish()


# =====================================================================================================
# AST -> Java (used to cross-check the interpreter against the JVM; this is NOT the decompiler's output)
# =====================================================================================================
def java_expr(e, env):
    k = e[0]
    if k == "var":
        return e[1]
    if k == "const":
        v = e[2]
        if e[1] == "J":
            return "(%dL)" % v if v != I64_MIN else "(Long.MIN_VALUE)"
        return "(%d)" % v if v != I32_MIN else "(Integer.MIN_VALUE)"
    if k == "un":
        a = java_expr(e[2], env)
        return {"neg-int": "(-%s)", "not-int": "(~%s)", "neg-long": "(-%s)", "not-long": "(~%s)", "int-to-long": "((long) %s)",
                "long-to-int": "((int) %s)", "int-to-byte": "((int) (byte) %s)", "int-to-char": "((int) (char) %s)",
                "int-to-short": "((int) (short) %s)"}[e[1]] % a
    _, op, T, a, b, form = e
    if form in ("lit8", "lit16"):
        lit = "(%d)" % b
        if op == "rsub":
            return "(%s - %s)" % (lit, java_expr(a, env))
        return "(%s %s %s)" % (java_expr(a, env), JAVA_OP[op], lit)
    return "(%s %s %s)" % (java_expr(a, env), JAVA_OP[op], java_expr(b, env))


def java_cond(c, env):
    if c[0] == "not":
        return "(!%s)" % java_cond(c[1], env)
    if c[0] in ("and", "or"):
        return "(%s %s %s)" % (java_cond(c[1], env), "&&" if c[0] == "and" else "||", java_cond(c[2], env))
    _, test, T, a, b, z = c
    return "(%s %s %s)" % (java_expr(a, env), JAVA_TEST[test], "0" if z else java_expr(b, env))


def java_block(stmts, env, ind, out):
    sp = "    " * ind
    for s in stmts:
        k = s[0]
        if k in ("assign", "dead"):
            out.append("%s%s = %s;" % (sp, s[1], java_expr(s[2], env)))
        elif k == "return":
            out.append("%sreturn %s;" % (sp, java_expr(s[1], env)))
        elif k == "if":
            out.append("%sif %s {" % (sp, java_cond(s[1], env)))
            java_block(s[2], env, ind + 1, out)
            if s[3]:
                out.append("%s} else {" % sp)
                java_block(s[3], env, ind + 1, out)
            out.append("%s}" % sp)
        elif k == "while":
            out.append("%swhile %s {" % (sp, java_cond(s[1], env)))
            java_block(s[2], env, ind + 1, out)
            out.append("%s}" % sp)
        elif k == "dowhile":
            out.append("%sdo {" % sp)
            java_block(s[1], env, ind + 1, out)
            out.append("%s} while %s;" % (sp, java_cond(s[2], env)))
        elif k == "switch":
            _, e, cases, default, kind = s
            out.append("%sswitch (%s) {" % (sp, java_expr(e, env)))
            # bytecode order: default code sits right after the switch instruction, but in Java the position of `default` is irrelevant
            # as nothing falls into it and it falls into nothing (it ends with break or return)
            for ks, body, ft in cases:
                for kk in ks:
                    out.append("%s    case %d:" % (sp, kk))
                sub = []
                java_block(body, env, ind + 2, sub)
                out.extend(sub)
                if not ft and block_falls(body):
                    out.append("%s        break;" % sp)
            if default is not None:
                out.append("%s    default:" % sp)
                java_block(default, env, ind + 2, out)
                if block_falls(default):
                    out.append("%s        break;" % sp)
            out.append("%s}" % sp)
        else:
            raise AssertionError(s)


def block_falls(stmts):
    """can control reach the end of the statement list (same rule as the compiler)"""
    for s in stmts:
        if not stmt_falls(s):
            return False
    return True


def stmt_falls(s):
    k = s[0]
    if k == "return":
        return False
    if k == "if":
        return (block_falls(s[2]) or block_falls(s[3])) if s[3] else True
    if k == "switch":
        _, e, cases, default, kind = s
        if default is None or block_falls(default):
            return True
        for i, (ks, body, ft) in enumerate(cases):
            if block_falls(body) and (not ft or i == len(cases) - 1):
                return True
        return False
    return True


def to_java(m):
    jt = {"I": "int", "J": "long"}
    env = m.env
    out = ["    public static %s %s(%s) {" % (jt[m.ret], m.name, ", ".join("%s %s" % (jt[t], n) for n, t in m.params))]
    for n, t in m.locals:
        out.append("        %s %s;" % (jt[t], n))
    java_block(m.body, env, 2, out)
    out.append("    }")
    return "\n".join(out) + "\n"


# =====================================================================================================
# argument tuples
# =====================================================================================================
INT_BOUNDARY = [0, 1, -1, I32_MIN, I32_MAX, 31, 32, 33, 63, 64, 0x55555555]
LONG_BOUNDARY = [0, 1, -1, I64_MIN, I64_MAX, 31, 32, 33, 63, 64, 0x5555555555555555, I32_MIN, I32_MAX, 0x55555555, 1 << 32]


def values_for(T, rng, nrand=3):
    if T == "I":
        return INT_BOUNDARY + [rng.randint(I32_MIN, I32_MAX) for _ in range(nrand)] + [rng.randint(-200, 200)]
    return LONG_BOUNDARY + [rng.randint(I64_MIN, I64_MAX) for _ in range(nrand)] + [rng.randint(-200, 200)]


def tuples_for(types, rng, many=120):
    """all values for 1 param, all pairs for 2, a boundary-directed sample for more"""
    vals = [values_for(t, rng) for t in types]
    if not types:
        return [()]
    if len(types) == 1:
        return [(v,) for v in vals[0]]
    if len(types) == 2:
        return [(a, b) for a in vals[0] for b in vals[1]]
    out = []
    seen = set()
    for i in range(max(len(v) for v in vals)):  # every value of every position at least once
        t = tuple(v[i % len(v)] for v in vals)
        if t not in seen:
            seen.add(t)
            out.append(t)
    while len(out) < many:
        t = tuple(rng.choice(v) for v in vals)
        if t not in seen:
            seen.add(t)
            out.append(t)
    return out


# =====================================================================================================
# random generator
# =====================================================================================================
BENIGN_OPS = {"I": ("add", "sub", "mul", "and", "or", "xor"), "J": ("add", "sub", "mul", "and", "or", "xor")}
INT_CONST_POOL = [0, 1, -1, 2, 7, -8, 8, 100, -129, 255, 32767, -32768, 32768, 65535, 65536, 0x10000, 0x7FFF0000, -65536, 0x55555555, I32_MAX, I32_MIN, 31, 32, 33]
LONG_CONST_POOL = [0, 1, -1, 5, 32767, -32768, 32768, 100000, I32_MAX, I32_MIN, I32_MAX + 1, I32_MIN - 1, 1 << 32, 0x123456789AB, 1 << 48, -(1 << 48),
                   0x7FFF << 48, I64_MAX, I64_MIN, 0x5555555555555555, 63, 64]


class Gen:
    def __init__(self, rng, palette="full"):
        self.rng = rng
        self.palette = palette
        self.assign_params = False

    # ---- expressions --------------------------------------------------------------------------------
    def const(self, T):
        r = self.rng
        if self.palette == "benign":
            v = r.choice([0, 1, 2, 3, 5, 7, -1, -3, 10, 100, 1000, -200])
            return mkconst(T, v)
        v = r.choice(INT_CONST_POOL if T == "I" else LONG_CONST_POOL)
        if r.random() < 0.2:
            v = r.randint(I32_MIN, I32_MAX) if T == "I" else r.randint(I64_MIN, I64_MAX)
        forms = [f for f in (("const/4", "const/16", "const", "const/high16") if T == "I" else
                             ("const-wide/16", "const-wide/32", "const-wide", "const-wide/high16")) if const_ok(f, v)]
        # dx picks the smallest; other encodings are legal and appear in hand-written / obfuscated code
        form = const_form_for(T, v) if r.random() < 0.7 else r.choice(forms)
        return mkconst(T, v, form)

    def leaf(self, T, vars_):
        r = self.rng
        names = [n for n, t in vars_.items() if t == T]
        if names and r.random() < 0.75:
            return ("var", r.choice(names))
        other = [n for n, t in vars_.items() if t != T]
        if other and r.random() < 0.5:
            return ("un", "int-to-long" if T == "J" else "long-to-int", ("var", r.choice(other)))
        return self.const(T)

    def expr(self, T, depth, vars_):
        r = self.rng
        if depth <= 0 or r.random() < 0.15:
            return self.leaf(T, vars_)
        benign = self.palette == "benign"
        x = r.random()
        if x < 0.15 and not benign:
            cands = [i for i, (ta, tr) in UNARY.items() if tr == T]
            insn = r.choice(cands)
            return ("un", insn, self.expr(UNARY[insn][0], depth - 1, vars_))
        if x < 0.35 and T == "I":
            # literal forms
            if benign:
                op, form = r.choice(("add", "mul", "and", "xor")), "lit8"
                lit = r.choice([1, 2, 3, 5, 7, 15, -1])
            else:
                form = r.choice(("lit8", "lit16"))
                op = r.choice(LIT8_OPS if form == "lit8" else LIT16_OPS)
                lit = r.choice([0, 1, -1, 2, 3, 7, 31, 32, 33, 127, -128]) if form == "lit8" else r.choice([0, 1, -1, 255, 256, 1000, 32767, -32768])
                if op in ("div", "rem") and lit == 0 and r.random() < 0.8:
                    lit = 3
            return ("bin", op, "I", self.expr("I", depth - 1, vars_), lit, form)
        ops = BENIGN_OPS[T] if benign else BINOPS
        op = r.choice(ops)
        if not benign and op in ("div", "rem") and r.random() < 0.5:
            op = r.choice(("add", "sub", "xor"))
        form = "3reg" if benign or r.random() < 0.6 else "2addr"
        a = self.expr(T, depth - 1, vars_)
        tb = "I" if op in ("shl", "shr", "ushr") else T
        b = self.expr(tb, depth - 1, vars_)
        return ("bin", op, T, a, b, form)

    def cmp(self, vars_, depth=1):
        r = self.rng
        T = r.choice("IIJ") if any(t == "J" for t in vars_.values()) else "I"
        test = r.choice(TESTS)
        a = self.expr(T, depth, vars_)
        if T == "I" and r.random() < 0.4:
            return ("cmp", test, "I", a, mkconst("I", 0), True)
        return ("cmp", test, T, a, self.expr(T, max(0, depth - 1), vars_), False)

    def cond(self, vars_, leaves, depth=1):
        r = self.rng
        if leaves <= 1:
            c = self.cmp(vars_, depth)
        else:
            k = r.randint(1, leaves - 1)
            c = (r.choice(("and", "or")), self.cond(vars_, k, depth), self.cond(vars_, leaves - k, depth))
        if r.random() < 0.15:
            c = ("not", c)
        return c

    # ---- statements ---------------------------------------------------------------------------------
    def assign(self, decl, vars_, depth):
        r = self.rng
        if self.assign_params and r.random() < 0.15:
            pc = sorted(n for n in vars_ if n[0] == "p")
            if pc:   # compilers reuse the parameter registers for `p += ...`
                n = r.choice(pc)
                return ("assign", n, self.expr(vars_[n], depth, vars_))
        cand = [n for n in decl if n[0] == "x"]
        n = r.choice(cand)
        return ("assign", n, self.expr(decl[n], depth, vars_))

    def block(self, decl, vars_, budget, allow, ret, depth, nest=0, must_fall=False):
        """-> (stmts, vars after). decl: all declared locals name->type; vars_: definitely assigned (incl. params).
        allow: set of constructs out of {"if","sc","loop","switch","ret"}"""
        r = self.rng
        out = []
        vars_ = dict(vars_)
        n = r.randint(1, max(1, budget))
        for _ in range(n):
            kinds = ["assign", "assign"]
            if nest < 2:
                if "if" in allow:
                    kinds += ["if", "if"]
                if "loop" in allow:
                    kinds += ["loop"]
                if "switch" in allow:
                    kinds += ["switch"]
            k = r.choice(kinds)
            if k == "assign":
                s = self.assign(decl, vars_, depth)
                out.append(s)
                vars_[s[1]] = decl[s[1]] if s[1] in decl else vars_[s[1]]
            elif k == "if":
                leaves = r.choice((1, 1, 2, 2, 3)) if "sc" in allow else 1
                c = self.cond(vars_, leaves, min(depth, 1))
                early = "ret" in allow and r.random() < 0.3
                if early:
                    th = [("return", self.expr(ret, depth, vars_))]
                    va = vars_
                else:
                    th, va = self.block(decl, vars_, max(1, budget - 1), allow, ret, depth, nest + 1, must_fall=True)
                if r.random() < 0.5:
                    el, vb = self.block(decl, vars_, max(1, budget - 1), allow, ret, depth, nest + 1, must_fall=True)
                    out.append(("if", c, th, el))
                    if early:
                        vars_ = vb
                    else:
                        vars_ = {n_: t for n_, t in va.items() if n_ in vb}
                else:
                    out.append(("if", c, th, []))
            elif k == "loop":
                out += self.loop(decl, vars_, budget, allow, ret, depth, nest)
                vars_ = dict(vars_)
                vars_[self._last_counter] = "I"
                if self._last_style == "dowhile":
                    vars_.update(self._last_body_vars)
            elif k == "switch":
                s, va = self.switch(decl, vars_, budget, allow, ret, depth, nest)
                out.append(s)
                vars_ = va
        return out, vars_

    def loop(self, decl, vars_, budget, allow, ret, depth, nest):
        r = self.rng
        k = "k%d" % nest
        start = r.choice([0, 0, 1, -1])
        bound = start + r.randint(1, 5)
        style = r.choice(("top", "bottom", "dowhile"))
        inner = dict(vars_)
        inner[k] = "I"
        body, vb = self.block(decl, inner, max(1, budget - 1), allow - {"switch"} if nest else allow, ret, depth, nest + 1, must_fall=True)
        inc = r.choice((("bin", "add", "I", ("var", k), 1, "lit8"), ("bin", "add", "I", ("var", k), mkconst("I", 1), "2addr"),
                        ("bin", "add", "I", ("var", k), 2, "lit8")))
        body = body + [("assign", k, inc)]
        c = ("cmp", r.choice(("lt", "lt", "le", "ne")) if inc[4] != 2 else "lt", "I", ("var", k), mkconst("I", bound), False)
        if c[1] == "ne" and start > bound:
            c = ("cmp", "lt", "I", ("var", k), mkconst("I", bound), False)
        if "sc" in allow and r.random() < 0.3:
            c = ("and", c, self.cmp(inner, 0))
        self._last_counter, self._last_style, self._last_body_vars = k, style, vb
        init = ("assign", k, mkconst("I", start))
        if style == "dowhile":
            return [init, ("dowhile", body, c)]
        return [init, ("while", c, body, style)]

    def switch(self, decl, vars_, budget, allow, ret, depth, nest):
        r = self.rng
        kind = r.choice(("packed", "sparse"))
        ncase = r.randint(2, 4)
        if kind == "packed":
            base = r.choice((0, 0, 1, -1, 10))
            keys = list(range(base, base + ncase + r.randint(0, 1)))
        else:
            keys = r.sample([-100, -1, 0, 3, 7, 1000, 65536, I32_MAX, I32_MIN], ncase + r.randint(0, 1))
        groups = [[kk] for kk in keys[:ncase]]
        for kk in keys[ncase:]:
            r.choice(groups).append(kk)
        if kind == "packed":
            sel = r.choice((("var", None), ("rem", None), ("and", None)))[0]
        else:
            sel = "var"
        ints = [n for n, t in vars_.items() if t == "I"]
        if ints:
            v = ("var", r.choice(ints))
        else:
            v = ("un", "long-to-int", ("var", r.choice(list(vars_))))
        if sel == "rem":
            e = ("bin", "rem", "I", v, ncase + 1, "lit8")
        elif sel == "and":
            e = ("bin", "and", "I", v, 3, "lit8")
        else:
            e = v
        cases = []
        outs = []
        sub_allow = allow - {"switch", "loop"}
        for i, g in enumerate(groups):
            if "ret" in allow and r.random() < 0.25:
                body, va = [("return", self.expr(ret, depth, vars_))], None
            else:
                body, va = self.block(decl, vars_, 1, sub_allow, ret, depth, nest + 1, must_fall=True)
            ft = r.random() < 0.2 and i < len(groups) - 1
            cases.append((g, body, ft))
            if va is not None and block_falls(body) and not ft:
                outs.append(va)
        default = None
        if r.random() < 0.6:
            default, vd = self.block(decl, vars_, 1, sub_allow, ret, depth, nest + 1, must_fall=True)
            outs.append(vd)
            after = dict(vars_)
            common = None
            for o in outs:
                common = set(o) if common is None else common & set(o)
            for n_ in common or ():
                after[n_] = decl.get(n_, vars_.get(n_))
        else:
            after = dict(vars_)
        return ("switch", e, cases, default, kind), after

    # ---- whole methods ------------------------------------------------------------------------------
    def method(self, name, pool, allow, budget=3, depth=2, subject=None):
        r = self.rng
        for _ in range(50):
            np_ = r.choice((1, 2, 2, 3))
            params = [("p%d" % i, r.choice("IIJ")) for i in range(np_)]
            ret = r.choice("IIJ")
            decl = {"x0": "I", "x1": r.choice("IJ"), "x2": r.choice("IJ")}
            vars_ = dict(params)
            self.assign_params = r.random() < 0.3
            latch = r.random() < 0.25
            body = []
            for n_ in ("x0", "x1"):
                if r.random() < 0.8:
                    body.append(("assign", n_, self.expr(decl[n_], depth, vars_)))
                    vars_[n_] = decl[n_]
            b2, vars_ = self.block(decl, vars_, budget, set(allow), ret, depth)
            body += b2
            if block_falls(body):
                body.append(("return", self.expr(ret, depth, vars_)))
            else:
                continue
            if not all(stmt_ok(s) for s in body):
                continue
            body = drop_dead(body)
            used = assigned_names(body)
            locals_ = [(n_, t) for n_, t in list(decl.items()) + [("k0", "I"), ("k1", "I"), ("k2", "I")] if n_ in used]
            m = Method(name, ret, params, locals_, body, pool=pool, subject=subject, separate_banks=r.random() < 0.25)
            m.latch_exit_goto = latch
            try:
                return compile_method(m)
            except TooBig:
                depth = max(1, depth - 1)
                continue
        raise RuntimeError("generator could not produce a method that fits")


def stmt_ok(s):
    """no statement after one that cannot complete; loop bodies complete normally"""
    k = s[0]
    if k == "if":
        return blk_ok(s[2]) and blk_ok(s[3])
    if k == "while":
        return blk_ok(s[2]) and block_falls(s[2])
    if k == "dowhile":
        return blk_ok(s[1]) and block_falls(s[1])
    if k == "switch":
        return all(blk_ok(b) for _, b, _ in s[2]) and (s[3] is None or blk_ok(s[3]))
    return True


def blk_ok(b):
    for i, s in enumerate(b):
        if not stmt_ok(s):
            return False
        if not stmt_falls(s) and i != len(b) - 1:
            return False
    return True


def assigned_names(body):
    out = set()

    def walk(b):
        for s in b:
            k = s[0]
            if k in ("assign", "dead"):
                out.add(s[1])
            elif k == "if":
                walk(s[2])
                walk(s[3])
            elif k == "while":
                walk(s[2])
            elif k == "dowhile":
                walk(s[1])
            elif k == "switch":
                for _, b2, _ in s[2]:
                    walk(b2)
                if s[3] is not None:
                    walk(s[3])
    walk(body)
    return out


# =====================================================================================================
# pools
# =====================================================================================================
def _ret(e):
    return [("return", e)]


def p0_methods(rng):
    """single-subject straight-line methods: exactly ONE operator / constant form / move form each (plus benign glue)."""
    ms = []

    def add(ret, params, locals_, body, subject, shape):
        m = Method("m%d" % len(ms), ret, params, locals_, body, pool="P0", subject=subject, shape=shape)
        ms.append(compile_method(m))

    # A/B: 3reg and 2addr binops, operand shapes pp / pc / cp
    for T in "IJ":
        for op in BINOPS:
            shift = op in ("shl", "shr", "ushr")
            tb = "I" if shift else T
            for form in ("3reg", "2addr"):
                insn = bin_insn(op, T, form)
                pa, pb = ("var", "p0"), ("var", "p1")
                ca = mkconst(T, rng.choice([-7, 5, 100] if T == "I" else [-7, 5, 300]))
                cb = mkconst(tb, rng.choice([3, 5, 7] if shift else [-7, 6, 100] if tb == "I" else [-7, 6, 300]))
                add(T, [("p0", T), ("p1", tb)], [], _ret(("bin", op, T, pa, pb, form)), "op:" + insn, "pp")
                add(T, [("p0", T)], [], _ret(("bin", op, T, pa, cb, form)), "op:" + insn + "@pc", "pc")
                add(T, [("p0", tb)], [], _ret(("bin", op, T, ca, ("var", "p0"), form)), "op:" + insn + "@cp", "cp")
                big = {"sub": I32_MIN}.get(op, I32_MAX) if T == "J" else {"sub": -100}.get(op, 100)
                cc_b = mkconst(tb, 33 if shift else 3)
                add(T, [("p0", T)], [], _ret(("bin", op, T, mkconst(T, big), cc_b, form)), "op:" + insn + "@cc", "cc")
                if form == "2addr":  # x = x op y  (the in-place statement form)
                    add(T, [("p0", T), ("p1", tb)], [("x0", T)],
                        [("assign", "x0", pa), ("assign", "x0", ("bin", op, T, ("var", "x0"), pb, form)), ("return", ("var", "x0"))], "op:" + insn, "inplace")
                # old and new value in ONE Java variable (loop accumulator / redefinition before a join): the writer may print a compound assignment
                kinit = ("assign", "k0", mkconst("I", 0))
                kcond = ("cmp", "lt", "I", ("var", "k0"), mkconst("I", 3), False)
                kinc = ("assign", "k0", ("bin", "add", "I", ("var", "k0"), 1, "lit8"))
                x0v = ("var", "x0")
                add(T, [("p0", T), ("p1", tb)], [("x0", T), ("k0", "I")],
                    [("assign", "x0", pa), kinit, ("while", kcond, [("assign", "x0", ("bin", op, T, x0v, pb, form)), kinc], "top"), ("return", x0v)], "op:" + insn + "@acc1", "acc1")
                if form == "3reg" and tb == T:   # x = y op x : the accumulator is the SECOND operand (not commutative for - / % << >> >>>)
                    add(T, [("p0", T), ("p1", T)], [("x0", T), ("k0", "I")],
                        [("assign", "x0", pa), kinit, ("while", kcond, [("assign", "x0", ("bin", op, T, pb, x0v, form)), kinc], "top"), ("return", x0v)], "op:" + insn + "@acc2", "acc2")
                    add(T, [("p0", T), ("p1", T)], [("x0", T)],
                        [("assign", "x0", pa), ("if", ("cmp", "gt", T, pb, mkconst(T, 0), T == "I"), [("assign", "x0", ("bin", op, T, pb, x0v, form))], []), ("return", x0v)],
                        "op:" + insn + "@join2", "join2")
    # C: literal forms
    for op in LIT8_OPS:
        for lit in ([1, 7, 33, -128] if op in ("shl", "shr", "ushr") else [1, 7, -1, -128, 127]):
            add("I", [("p0", "I")], [], _ret(("bin", op, "I", ("var", "p0"), lit, "lit8")), "op:" + bin_insn(op, "I", "lit8"), "lit%d" % lit)
    for op in LIT16_OPS:
        for lit in (300, -32768, 32767, -1):
            add("I", [("p0", "I")], [], _ret(("bin", op, "I", ("var", "p0"), lit, "lit16")), "op:" + bin_insn(op, "I", "lit16"), "lit%d" % lit)
    for op in ("div", "rem"):
        for form in ("lit8", "lit16"):
            add("I", [("p0", "I")], [], _ret(("bin", op, "I", ("var", "p0"), 0, form)), "op:" + bin_insn(op, "I", form), "lit0")
    # D: unary / casts
    for insn, (ta, tr) in UNARY.items():
        add(tr, [("p0", ta)], [], _ret(("un", insn, ("var", "p0"))), "un:" + insn, "p")
        add(tr, [("p0", ta)], [("x0", tr)], [("assign", "x0", ("un", insn, ("var", "p0"))), ("return", ("var", "x0"))], "un:" + insn, "local")
    # E: constant forms
    cv = {"const/4": [-8, 7, 0], "const/16": [-32768, 32767, 256], "const": [I32_MIN, I32_MAX, 0x55555555, -65537],
          "const/high16": [0x10000, I32_MIN, 0x7FFF0000, -65536],
          "const-wide/16": [-1, 32767], "const-wide/32": [I32_MIN, I32_MAX, 100000],
          "const-wide": [I64_MIN, I64_MAX, 1 << 32, I32_MAX + 1, I32_MIN - 1, 0x123456789AB, 5],
          "const-wide/high16": [1 << 48, I64_MIN, 0x7FFF << 48, -(1 << 48)]}
    for form, vals in cv.items():
        T = "J" if form.startswith("const-wide") else "I"
        for v in vals:
            tag = "beyond-int" if not (I32_MIN <= v <= I32_MAX) else ("neg" if v < 0 else "pos")
            add(T, [("p0", T)], [], _ret(mkconst(T, v, form)), "const:" + form, "ret-" + tag)
            add(T, [("p0", T)], [], _ret(("bin", "xor", T, ("var", "p0"), mkconst(T, v, form), "3reg")), "const:" + form, "xor-" + tag)
            add(T, [("p0", T)], [("x0", T)], [("assign", "x0", mkconst(T, v, form)), ("assign", "x0", ("bin", "add", T, ("var", "x0"), ("var", "p0"), "2addr")),
                                              ("return", ("var", "x0"))], "const:" + form, "local-" + tag)
    # F: move forms
    for mv in ("move", "move/from16", "move/16", "move-wide", "move-wide/from16", "move-wide/16"):
        T = "J" if "wide" in mv else "I"
        add(T, [("p0", T), ("p1", T)], [("x0", T)],
            [("assign", "x0", ("var", "p0", mv)), ("assign", "x0", ("bin", "add", T, ("var", "x0"), ("var", "p1"), "3reg")), ("return", ("var", "x0"))],
            "move:" + mv, "p")
    # G: results that are never used (the instruction can still throw)
    for T in "IJ":
        for op in ("div", "rem", "add"):
            add(T, [("p0", T), ("p1", T)], [("d0", T)],
                [("dead", "d0", ("bin", op, T, ("var", "p0"), ("var", "p1"), "3reg")), ("return", ("var", "p0"))], "dead:" + bin_insn(op, T, "3reg"), "pp")
    for T in "IJ":
        for op in ("div", "rem"):
            add(T, [("p0", T), ("p1", T)], [("d0", T)],
                [("dead", "d0", ("bin", op, T, ("var", "p0"), ("var", "p1"), "2addr")), ("return", ("var", "p0"))], "dead:" + bin_insn(op, T, "2addr"), "pp")
    for op in ("div", "rem"):
        for form in ("lit8", "lit16"):
            add("I", [("p0", "I")], [("d0", "I")], [("dead", "d0", ("bin", op, "I", ("var", "p0"), 0, form)), ("return", ("var", "p0"))],
                "dead:" + bin_insn(op, "I", form), "lit0")
    return ms


def p1_methods(rng):
    """benign straight-line glue + ONE if/else per comparison kind"""
    ms = []

    def add(ret, params, locals_, body, subject, shape):
        m = Method("m%d" % len(ms), ret, params, locals_, body, pool="P1", subject=subject, shape=shape)
        ms.append(compile_method(m))
    one, two = mkconst("I", 1), mkconst("I", 2)
    for test in TESTS:
        variants = [("cmp:if-%s" % test, "I", ("cmp", test, "I", ("var", "p0"), ("var", "p1"), False), [("p0", "I"), ("p1", "I")]),
                    ("cmp:if-%sz" % test, "I", ("cmp", test, "I", ("var", "p0"), mkconst("I", 0), True), [("p0", "I"), ("p1", "I")]),
                    ("cmp:cmp-long-%s" % test, "J", ("cmp", test, "J", ("var", "p0"), ("var", "p1"), False), [("p0", "J"), ("p1", "J")])]
        for subject, T, c, params in variants:
            for neg in (False, True):
                cc = ("not", c) if neg else c
                sfx = "-neg" if neg else ""
                add("I", params, [], [("if", cc, _ret(one), _ret(two))], subject, "if-else-return" + sfx)
                add("I", params, [("x0", "I")], [("assign", "x0", one), ("if", cc, [("assign", "x0", two)], []), ("return", ("var", "x0"))], subject, "if-assign" + sfx)
                add("I", params, [("x0", "I")], [("if", cc, [("assign", "x0", one)], [("assign", "x0", two)]),
                                                  ("return", ("bin", "add", "I", ("var", "x0"), 10, "lit8"))], subject, "if-else-assign" + sfx)
            if T == "I" and subject.endswith(test):
                add("I", [("p0", "I")], [], [("if", ("cmp", test, "I", ("var", "p0"), mkconst("I", 100), False), _ret(one), _ret(two))], subject, "vs-const")
    return ms


POOL_ALLOW = {"P0m": (), "P2": ("if", "sc", "ret"), "P3": ("if", "loop", "ret"), "P4": ("if", "switch", "ret"), "P5": ("if", "sc", "loop", "switch", "ret")}


def random_methods(rng, pool, n, start=0):
    """P0m: multi-operator straight-line (full palette); P2 P3 P4: benign glue + the pool's control constructs; P5: everything, full palette"""
    palette = "full" if pool in ("P0m", "P5") else "benign"
    g = Gen(rng, palette)
    out = []
    for i in range(n):
        name = "m%d" % (start + i)
        if pool == "P0m":
            m = g.method(name, pool, (), budget=2, depth=3)
        elif pool == "P5":
            m = g.method(name, pool, POOL_ALLOW[pool], budget=3, depth=2)
        else:
            # make sure the pool's construct is present
            need = {"P2": ("ctl:and", "ctl:or"), "P3": ("ctl:while-top", "ctl:while-bottom", "ctl:do-while"), "P4": ("ctl:packed-switch", "ctl:sparse-switch")}[pool]
            for _ in range(40):
                m = g.method(name, pool, POOL_ALLOW[pool], budget=2, depth=1)
                if any(f in m.features for f in need):
                    break
        m.subject = pool_subject(m)
        out.append(m)
    return out


def pool_subject(m):
    ctl = sorted(f[4:] for f in m.features if f.startswith("ctl:"))
    return "ctl:" + "+".join(ctl) if ctl else "straight-line"


# =====================================================================================================
# neutralisation (explain-away re-run): replace every construct whose feature is known-bad by a benign equivalent
# =====================================================================================================
def neutralise(m, bad, avoid=()):
    """-> (new compiled Method, set of features replaced). `bad`: features to replace; `avoid`: features a replacement must not introduce."""
    done = set()
    target = set(bad)
    bad = set(bad) | set(avoid)

    def ex(e):
        k = e[0]
        if k == "var":
            if len(e) > 2 and "move:" + e[2] in target:
                done.add("move:" + e[2])
                return ("var", e[1])
            return e
        if k == "const":
            f = "const:" + e[3]
            if f in target:
                T = e[1]
                alt = mkconst(T, 1)
                if "const:" + alt[3] not in bad:
                    done.add(f)
                    return alt
            return e
        if k == "un":
            a = ex(e[2])
            f = "un:" + e[1]
            if f in target and UNARY[e[1]][0] == UNARY[e[1]][1]:
                done.add(f)
                return a
            return ("un", e[1], a)
        _, op, T, a, b, form = e
        a = ex(a)
        lit = isinstance(b, int)
        if not lit:
            b = ex(b)
        node = ("bin", op, T, a, b, form)
        fs = ["op:" + bin_insn(op, T, form)] + bin_shape_features(node)
        hit = [f for f in fs if f in target]
        if hit:
            tb = "I" if op in ("shl", "shr", "ushr") else T
            bb = mkconst(tb, b) if lit else b
            for op2, form2 in ((op, "3reg"), ("xor", "3reg"), ("add", "3reg"), ("and", "3reg")):
                if op2 == "rsub":
                    continue
                bb2 = ("un", "int-to-long", bb) if (op2 != op and tb != T and T == "J") else bb  # a shift count is int
                alt = ("bin", op2, T, a, bb2, form2)
                if not any(f in bad for f in ["op:" + bin_insn(op2, T, form2)] + bin_shape_features(alt)):
                    done.update(hit)
                    return alt
        return node

    def co(c):
        if c[0] == "cmp":
            return ("cmp", c[1], c[2], ex(c[3]), ex(c[4]), c[5])
        if c[0] == "not":
            return ("not", co(c[1]))
        return (c[0], co(c[1]), co(c[2]))

    def bl(b):
        out = []
        for s in b:
            k = s[0]
            if k == "dead":
                fs = [f for f in dead_features(s[2]) if f in target]
                if fs:
                    done.update(fs)
                    continue
                out.append(("dead", s[1], ex(s[2])))
            elif k == "assign":
                out.append(("assign", s[1], ex(s[2])))
            elif k == "return":
                out.append(("return", ex(s[1])))
            elif k == "if":
                out.append(("if", co(s[1]), bl(s[2]), bl(s[3])))
            elif k == "while":
                out.append(("while", co(s[1]), bl(s[2]), s[3]))
            elif k == "dowhile":
                out.append(("dowhile", bl(s[1]), co(s[2])))
            elif k == "switch":
                out.append(("switch", ex(s[1]), [(ks, bl(b2), ft) for ks, b2, ft in s[2]], None if s[3] is None else bl(s[3]), s[4]))
        return out

    body = drop_dead(bl(m.body))
    sep = m.separate_banks
    if "reuse:int-long" in target and "reuse:int-long" in m.features:
        sep = True
        done.add("reuse:int-long")
    used = assigned_names(body)
    n = m.clone(body=body, separate_banks=sep)
    n.locals = [(a, t) for a, t in m.locals if a in used]
    return compile_method(n), done


# =====================================================================================================
# liveness: assignments whose value is never read become ("dead", ...) statements, so that the feature set says so
# =====================================================================================================
def expr_uses(e, out=None):
    out = set() if out is None else out
    k = e[0]
    if k == "var":
        out.add(e[1])
    elif k == "un":
        expr_uses(e[2], out)
    elif k == "bin":
        expr_uses(e[3], out)
        if not isinstance(e[4], int):
            expr_uses(e[4], out)
    return out


def cond_uses(c, out=None):
    out = set() if out is None else out
    if c[0] == "cmp":
        expr_uses(c[3], out)
        expr_uses(c[4], out)
    elif c[0] == "not":
        cond_uses(c[1], out)
    else:
        cond_uses(c[1], out)
        cond_uses(c[2], out)
    return out


def mark_dead(stmts, live_out=frozenset()):
    """-> (rewritten statements, live-in set)"""
    live = set(live_out)
    out = []
    for s in reversed(stmts):
        k = s[0]
        if k == "return":
            live = expr_uses(s[1])
            out.append(s)
        elif k in ("assign", "dead"):
            if s[1] in live:
                out.append(("assign", s[1], s[2]))
                live = (live - {s[1]}) | expr_uses(s[2])
            else:
                out.append(("dead", s[1], s[2]))
                live = live | expr_uses(s[2])
        elif k == "if":
            th, lt = mark_dead(s[2], live)
            el, le = mark_dead(s[3], live) if s[3] else ([], set(live))
            out.append(("if", s[1], th, el))
            live = cond_uses(s[1]) | lt | le
        elif k == "while":
            L = set(live) | cond_uses(s[1])
            while True:
                body, lb = mark_dead(s[2], L)
                L2 = L | lb
                if L2 == L:
                    break
                L = L2
            out.append(("while", s[1], body, s[3]))
            live = L
        elif k == "dowhile":
            L = set(live) | cond_uses(s[2])
            while True:
                body, lb = mark_dead(s[1], L)
                L2 = L | lb
                if L2 == L:
                    break
                L = L2
            out.append(("dowhile", body, s[2]))
            live = lb
        elif k == "switch":
            _, e, cases, default, kind = s
            after = set(live)
            newcases = [None] * len(cases)
            nxt_in = None
            acc = set()
            for i in range(len(cases) - 1, -1, -1):
                ks, body, ft = cases[i]
                lo = nxt_in if (ft and i < len(cases) - 1) else after
                b2, li = mark_dead(body, lo)
                newcases[i] = (ks, b2, ft)
                nxt_in = li
                acc |= li
            if default is not None:
                d2, ld = mark_dead(default, after)
                acc |= ld
            else:
                d2 = None
                acc |= after
            out.append(("switch", e, newcases, d2, kind))
            live = acc | expr_uses(e)
        else:
            raise AssertionError(s)
    out.reverse()
    return out, live


def drop_dead(body):
    """what dx's dead-code remover does: an assignment nobody reads disappears unless it can throw (div/rem). -> body with liveness marks"""
    def strip(stmts):
        o = []
        ch = False
        for s in stmts:
            k = s[0]
            if k == "dead" and not throwing_insns(s[2]):
                ch = True
                continue
            if k == "if":
                a, c1 = strip(s[2])
                b, c2 = strip(s[3])
                s = ("if", s[1], a, b)
                ch = ch or c1 or c2
            elif k == "while":
                a, c1 = strip(s[2])
                s = ("while", s[1], a, s[3])
                ch = ch or c1
            elif k == "dowhile":
                a, c1 = strip(s[1])
                s = ("dowhile", a, s[2])
                ch = ch or c1
            elif k == "switch":
                cs = []
                for ks, b, ft in s[2]:
                    b2, c1 = strip(b)
                    ch = ch or c1
                    cs.append((ks, b2, ft))
                d = None
                if s[3] is not None:
                    d, c1 = strip(s[3])
                    ch = ch or c1
                s = ("switch", s[1], cs, d, s[4])
            o.append(s)
        return o, ch
    for _ in range(50):
        body, _ = mark_dead(body)
        body, changed = strip(body)
        if not changed:
            break
    body, _ = mark_dead(body)
    return body


def throwing_insns(e, out=None):
    """div/rem instructions anywhere inside an expression"""
    out = set() if out is None else out
    if e[0] == "un":
        throwing_insns(e[2], out)
    elif e[0] == "bin":
        if e[1] in ("div", "rem"):
            out.add(bin_insn(e[1], e[2], e[5]))
        throwing_insns(e[3], out)
        if not isinstance(e[4], int):
            throwing_insns(e[4], out)
    return out


def dead_features(e):
    top = bin_insn(e[1], e[2], e[5]) if e[0] == "bin" else e[1] if e[0] == "un" else e[0]
    return {"dead:" + top} | {"dead:" + i for i in throwing_insns(e)}


# =====================================================================================================
# pattern pools: one structural subject per method, benign glue only
# =====================================================================================================
def _c(v):
    return mkconst("I", v)


def _acc(delta=("var", "p1")):
    return ("assign", "x0", ("bin", "add", "I", ("var", "x0"), delta, "3reg"))


def _pat_construct(kind, body, depth, sel=("var", "p0")):
    """-> list of statements implementing construct `kind` around `body` (list of statements)"""
    k = "k%d" % depth
    cond = ("cmp", "lt", "I", ("var", "p0"), ("var", "p1"), False) if depth == 0 else ("cmp", "gtz"[:2], "I", ("var", "p1"), _c(0), True)
    inc = ("assign", k, ("bin", "add", "I", ("var", k), 1, "lit8"))
    lc = ("cmp", "lt", "I", ("var", k), _c(3), False)
    if kind == "empty-if":
        return [("if", ("cmp", "gt", "I", ("bin", "rem", "I", ("var", "p0"), 3, "lit8"), _c(0), True), [], [])]
    if kind == "if":
        return [("if", cond, body, [])]
    if kind == "if-else":
        return [("if", cond, body, [("assign", "x0", ("bin", "xor", "I", ("var", "x0"), 5, "lit8"))])]
    if kind == "while-top":
        return [("assign", k, _c(0)), ("while", lc, body + [inc], "top")]
    if kind == "while-bottom":
        return [("assign", k, _c(0)), ("while", lc, body + [inc], "bottom")]
    if kind == "do-while":
        return [("assign", k, _c(0)), ("dowhile", body + [inc], lc)]
    if kind in ("packed-switch", "sparse-switch"):
        keys = [0, 1] if kind.startswith("packed") else [-100, 1000]
        e = ("bin", "and", "I", sel, 1, "lit8") if kind.startswith("packed") else sel
        return [("switch", e, [([keys[0]], body, False), ([keys[1]], [("assign", "x0", ("bin", "add", "I", ("var", "x0"), 7, "lit8"))], False)],
                 [("assign", "x0", ("bin", "sub", "I", ("var", "x0"), ("var", "p0"), "3reg"))], kind.split("-")[0])]
    raise AssertionError(kind)


CONSTRUCTS = ("if", "if-else", "while-top", "while-bottom", "do-while", "packed-switch", "sparse-switch")


def _locals_for(body):
    used = assigned_names(body)
    return [(n, "I") for n in ("x0", "x1", "k0", "k1", "k2") if n in used]


def pattern_methods(rng):
    """PC: control nesting, PS: switch shapes, PD: definition/declaration/type patterns. One subject per method."""
    ms = []

    def add(pool, ret, params, body, subject, shape, locals_=None, latch=False):
        body = drop_dead(body)
        m = Method("m%d" % len(ms), ret, params, locals_ if locals_ is not None else _locals_for(body), body, pool=pool, subject=subject, shape=shape)
        m.latch_exit_goto = latch
        ms.append(compile_method(m))
    P2 = [("p0", "I"), ("p1", "I")]
    x0 = ("var", "x0")
    init = ("assign", "x0", ("bin", "mul", "I", ("var", "p0"), 3, "lit8"))
    pre = ("assign", "x0", ("bin", "xor", "I", x0, ("var", "p1"), "3reg"))
    post = ("assign", "x0", ("bin", "add", "I", x0, 1, "lit8"))
    early = ("if", ("cmp", "gt", "I", x0, _c(100), False), [("return", ("var", "p1"))], [])
    # ---- PC: single constructs and all two-level nestings
    for a in CONSTRUCTS:
        add("PC", "I", P2, [init] + _pat_construct(a, [_acc()], 0) + [("return", x0)], "nest:" + a, "single")
        add("PC", "I", P2, [init] + _pat_construct(a, [_acc(), early], 0) + [("return", x0)], "ret-in:%s/if" % a, "single+early-return")
        for b in CONSTRUCTS:
            for pos in ("only", "first", "last", "mid"):
                inner = _pat_construct(b, [_acc()], 1, sel=("var", "p1"))
                body = ([pre] if pos in ("last", "mid") else []) + inner + ([post] if pos in ("first", "mid") else [])
                add("PC", "I", P2, [init] + _pat_construct(a, body, 0) + [("return", x0)], "nest:%s/%s" % (a, b), pos)
        for pos in ("only", "first", "last", "mid"):
            body = ([pre] if pos in ("last", "mid") else []) + _pat_construct("empty-if", [], 1) + ([post] if pos in ("first", "mid") else [])
            if a.endswith("switch") and pos == "only":
                continue
            add("PC", "I", P2, [init] + _pat_construct(a, body, 0) + [("return", x0)], "nest:%s/empty-if" % a, pos)
        add("PC", "I", P2, [init] + _pat_construct(a, [_acc()], 0) + _pat_construct("empty-if", [], 1) + [("return", x0)], "seq:%s;empty-if" % a, "seq")
        add("PC", "I", P2, [init] + _pat_construct("empty-if", [], 1) + _pat_construct(a, [_acc()], 0) + [("return", x0)], "seq:empty-if;%s" % a, "seq")
        # two constructs in sequence
        for b in CONSTRUCTS:
            add("PC", "I", P2, [init] + _pat_construct(a, [_acc()], 0) + _pat_construct(b, [_acc(_c(2))], 1, sel=("var", "p1")) + [("return", x0)],
                "seq:%s;%s" % (a, b), "seq")
    # ---- PC: conditions that are chains of FOUR and FIVE tests (merged step by step into one short-circuit condition), as the test of an if and as
    # the top / bottom test of every loop kind
    cA = ("cmp", "lt", "I", ("var", "k0"), _c(3), False)      # the guard that ends the loops comes first / is a conjunct at the top level
    pool5 = [("cmp", "gt", "I", ("var", "p0"), _c(0), True), ("cmp", "ne", "I", ("var", "p1"), _c(0), True),
             ("cmp", "lt", "I", ("var", "p0"), ("var", "p1"), False), ("cmp", "ge", "I", x0, ("var", "p1"), False)]

    def chain(op, cs, assoc):
        if len(cs) == 1:
            return cs[0]
        return (op, chain(op, cs[:-1], assoc), cs[-1]) if assoc == "left" else (op, cs[0], chain(op, cs[1:], assoc))
    inc0 = ("assign", "k0", ("bin", "add", "I", ("var", "k0"), 1, "lit8"))
    for n in (4, 5):
        for assoc in ("left", "right"):
            cnd = chain("and", [cA] + pool5[:n - 1], assoc)
            mixed = ("and", cA, chain("or", pool5[:n - 1], assoc))
            for nm, cc_ in (("and", cnd), ("and-of-or", mixed)):
                for kind in ("do-while", "while-bottom", "while-top"):
                    loop = ("dowhile", [_acc(), inc0], cc_) if kind == "do-while" else ("while", cc_, [_acc(), inc0], kind.split("-")[1])
                    add("PC", "I", P2, [init, ("assign", "k0", _c(0)), loop, ("return", x0)], "cond-chain:%s:%d-tests" % (kind, n), "%s/%s" % (nm, assoc))
            for op in ("and", "or"):
                cnd = chain(op, pool5[:n] if n == 4 else pool5 + [("cmp", "le", "I", x0, _c(50), False)], assoc)
                add("PC", "I", P2, [init, ("if", cnd, [_acc()], [post]), ("return", x0)], "cond-chain:if:%d-tests" % n, "%s/%s" % (op, assoc))
                add("PC", "I", P2, [init, ("if", cnd, [_acc()], []), ("return", x0)], "cond-chain:if:%d-tests" % n, "%s/%s/no-else" % (op, assoc))
    # ---- PS: switch shapes
    for kind in ("packed", "sparse"):
        keys = [0, 1, 2, 3] if kind == "packed" else [-100, 0, 7, 1000]
        sel = ("var", "p0")
        a1 = [("assign", "x0", ("bin", "mul", "I", ("var", "p1"), x0, "3reg"))]
        r1 = [("return", x0)]
        r2 = [("return", _c(-200))]
        brk = []
        variants = {
            "all-break": ([([keys[0]], a1, False), ([keys[1]], [post], False)], [pre]),
            "no-default": ([([keys[0]], a1, False), ([keys[1]], [post], False)], None),
            "empty-default": ([([keys[0]], a1, False), ([keys[1]], [post], False)], []),
            "case-returns": ([([keys[0]], a1, False), ([keys[1]], r1, False)], [pre]),
            "case-returns-no-default": ([([keys[0]], a1, False), ([keys[1]], r1, False)], None),
            "last-case-returns-const": ([([keys[0]], a1, False), ([keys[1]], r2, False)], [pre]),
            "two-labels-return-const": ([([keys[0]], a1, False), ([keys[1]], r1, False), ([keys[2], keys[3]], r2, False)], []),
            "two-cases-return": ([([keys[0]], a1, False), ([keys[1]], r1, False), ([keys[2]], r2, False)], [pre]),
            "all-cases-return": ([([keys[0]], r1, False), ([keys[1]], r2, False)], [pre]),
            "all-return-incl-default": ([([keys[0]], r1, False), ([keys[1]], r2, False)], [("return", ("var", "p1"))]),
            "fallthrough": ([([keys[0]], a1, True), ([keys[1]], [post], False)], [pre]),
            "fallthrough-into-return": ([([keys[0]], a1, True), ([keys[1]], r1, False)], [pre]),
            "multi-label": ([([keys[0], keys[2]], a1, False), ([keys[1]], [post], False)], [pre]),
            "empty-case": ([([keys[0]], a1, False), ([keys[1]], brk, False)], [pre]),
            "empty-cases-empty-default": ([([keys[0]], a1, False), ([keys[1], keys[2]], brk, False)], []),
            "two-empty-cases": ([([keys[0]], a1, False), ([keys[1]], brk, False), ([keys[2]], brk, False)], [pre]),
            "empty-if-case-falls-through": ([([keys[0]], [("if", ("cmp", "lt", "I", x0, ("var", "p1"), False), [], [])], True), ([keys[1]], r1, False)], [pre]),
            "if-return-then-break": ([([keys[0]], [("if", ("cmp", "lt", "I", x0, ("var", "p1"), False), r1, [])], False), ([keys[1]], r2, False)], [pre]),
            "multi-label-empty-case": ([([keys[0]], a1, False), ([keys[1], keys[2]], brk, False)], [pre]),
            "multi-label-empty-case-no-default": ([([keys[0]], a1, False), ([keys[1], keys[2]], brk, False)], None),
            "two-empty-cases-no-default": ([([keys[0]], a1, False), ([keys[1]], brk, False), ([keys[2]], brk, False)], None),
            "default-returns": ([([keys[0]], a1, False), ([keys[1]], [post], False)], [("return", ("var", "p1"))]),
            "if-in-case": ([([keys[0]], [("if", ("cmp", "lt", "I", x0, ("var", "p1"), False), a1, [post])], False), ([keys[1]], [post], False)], [pre]),
            "if-return-falls-into-next-case": ([([keys[0]], [("if", ("cmp", "lt", "I", x0, ("var", "p1"), False), r1, [])], True), ([keys[1]], r2, False)], [pre]),
        }
        three = {}
        for vn in ("case-returns", "two-cases-return", "fallthrough", "fallthrough-into-return", "if-return-falls-into-next-case", "empty-case", "default-returns",
                   "empty-if-case-falls-through", "if-return-then-break"):
            cs, df = variants[vn]
            if len(cs) == 2:  # a leading case that really breaks gives the switch a proper follow node
                three[vn + "#3"] = ([([keys[2]], [("assign", "x0", ("bin", "sub", "I", x0, ("var", "p1"), "3reg"))], False)] + cs, df)
        variants.update(three)
        for vn, (cases, default) in variants.items():
            sw = ("switch", sel, cases, default, kind)
            vn = vn.split("#")[0]
            tail = [("return", ("bin", "or", "I", x0, 7, "lit8"))]
            add("PS", "I", P2, [init, sw] + (tail if stmt_falls(sw) else []), "switch:%s:%s@top" % (kind, vn), "top")
            add("PS", "I", P2, [init, ("if", ("cmp", "gt", "I", ("var", "p1"), ("var", "p0"), False), [sw], [post])] + tail, "switch:%s:%s@nested" % (kind, vn), "in-if-else")
            if stmt_falls(sw):
                add("PS", "I", P2, [init, ("assign", "k0", _c(0)), ("while", ("cmp", "lt", "I", ("var", "k0"), _c(3), False),
                                    [sw, ("assign", "k0", ("bin", "add", "I", ("var", "k0"), 1, "lit8"))], "top")] + tail, "switch:%s:%s@nested" % (kind, vn), "in-while")
    # ---- PD: definitions, declarations, variable types
    c1 = ("cmp", "lt", "I", ("var", "p0"), ("var", "p1"), False)
    T1 = ("assign", "x1", ("bin", "add", "I", ("var", "p0"), 1, "lit8"))
    T2 = ("assign", "x1", ("bin", "add", "I", ("var", "p1"), -2, "lit8"))
    rx1 = ("return", ("var", "x1"))
    lc = ("cmp", "lt", "I", ("var", "k0"), _c(3), False)
    inc = ("assign", "k0", ("bin", "add", "I", ("var", "k0"), 1, "lit8"))
    k0 = ("assign", "k0", _c(0))
    pd = {
        "def-in-both-branches-use-after": [("if", c1, [T1], [T2]), rx1],
        "def-in-both-branches-use-in-nested-if-after": [("if", c1, [T1], [T2]), ("if", ("cmp", "gt", "I", ("var", "p0"), _c(0), True), [("return", ("var", "x1"))], []), ("return", _c(0))],
        "def-before-and-in-one-branch": [T2, ("if", c1, [T1], []), rx1],
        "def-in-both-branches-only-dead-use-after": [("if", c1, [T1], [T2]), ("assign", "x0", ("bin", "mul", "I", ("var", "x1"), 3, "lit8")), ("return", ("var", "p0"))],
        "def-in-both-branches-no-use-after": [("if", c1, [T1, ("return", ("var", "x1"))], [T2, ("return", ("bin", "xor", "I", ("var", "x1"), 1, "lit8"))])],
        "same-register-counters-in-sibling-branches": [("assign", "x0", _c(0)), ("if", c1, [k0, ("while", lc, [_acc(), inc], "top")], [k0, ("while", lc, [_acc(_c(2)), inc], "top")]), ("return", x0)],
        "def-in-while-body-use-after": [T2, k0, ("while", lc, [T1, inc], "top"), rx1],
        "def-only-in-do-while-body-use-after": [k0, ("dowhile", [T1, inc], lc), rx1],
        "def-only-in-do-while-body-use-after-and-in-body": [k0, ("dowhile", [T1, ("assign", "x1", ("bin", "add", "I", ("var", "x1"), ("var", "k0"), "3reg")), inc], lc), rx1],
        "def-in-all-switch-arms-use-after": [("switch", ("bin", "and", "I", ("var", "p0"), 1, "lit8"), [([0], [T1], False), ([1], [T2], False)], [("assign", "x1", _c(5))], "packed"), rx1],
        "loop-counter-used-after-loop": [k0, ("while", lc, [inc], "top"), ("return", ("var", "k0"))],
        "accumulator-defined-before-loop": [("assign", "x1", _c(0)), k0, ("while", lc, [("assign", "x1", ("bin", "add", "I", ("var", "x1"), ("var", "k0"), "3reg")), inc], "top"), rx1],
        "div-before-branch-used-in-one-branch": [("assign", "x1", ("bin", "div", "I", ("var", "p0"), ("var", "p1"), "3reg")), ("if", ("cmp", "gt", "I", ("var", "p0"), _c(0), True), [rx1], []), ("return", _c(0))],
        "div-before-loop-used-after": [("assign", "x1", ("bin", "div", "I", ("var", "p0"), ("var", "p1"), "3reg")), k0, ("while", lc, [inc], "top"), rx1],
        "div-in-unused-nested-expression": [("assign", "x1", ("bin", "add", "I", ("bin", "div", "I", ("var", "p0"), ("var", "p1"), "3reg"), 1, "lit8")), ("return", ("var", "p0"))],
        "two-divs-order": [("assign", "x0", ("bin", "div", "I", ("var", "p0"), ("var", "p1"), "3reg")), ("assign", "x1", ("bin", "rem", "I", ("var", "p1"), ("var", "p0"), "3reg")),
                           ("return", ("bin", "sub", "I", ("var", "x1"), x0, "3reg"))],
    }
    pd["redef-in-do-while-body-use-after"] = [T1, k0, ("dowhile", [T2, inc], lc), rx1]
    pd["redef-in-do-while-body-use-in-next-loop"] = [T1, k0, ("dowhile", [("assign", "x1", ("var", "k0")), inc], lc), k0,
                                                      ("dowhile", [("if", c1, [("assign", "x1", ("bin", "or", "I", ("var", "x1"), ("var", "p1"), "3reg"))], []), inc], lc), rx1]
    cc = ("and", c1, ("cmp", "gt", "I", ("var", "p1"), _c(0), True))
    pd["def-in-both-branches-of-compound-if-use-after"] = [("if", cc, [T1], [T2]), rx1]
    pd["def-in-both-branches-of-compound-or-if-use-after"] = [("if", ("or", c1, ("cmp", "gt", "I", ("var", "p1"), _c(0), True)), [T1], [T2]), rx1]
    pd["redef-in-both-branches-of-compound-if-use-in-condition"] = [T1, ("if", cc, [("assign", "x1", ("bin", "or", "I", ("var", "x1"), ("var", "p1"), "3reg"))], [T2]),
                                                                     ("if", ("cmp", "lt", "I", ("var", "x1"), ("var", "p0"), False), [("return", _c(1))], []), ("return", _c(2))]
    thr = ("cmp", "gt", "I", ("bin", "rem", "I", ("var", "p0"), ("var", "p1"), "3reg"), _c(0), True)
    pd["empty-if-throwing-condition"] = [("if", thr, [], []), ("return", ("var", "p0"))]
    pd["empty-if-throwing-condition-in-loop"] = [k0, ("while", lc, [("if", thr, [], []), inc], "top"), ("return", ("var", "p0"))]
    pd["empty-if-throwing-compound-condition"] = [("if", ("or", c1, thr), [], []), ("return", ("var", "p0"))]
    kk = ("assign", "k0", _c(0))
    du = ("assign", "x1", ("bin", "rem", "I", x0, ("var", "k0"), "3reg"))
    pd["def-in-both-branches-only-dead-use-after"] = [("if", c1, [T1], [T2]), ("assign", "x0", ("bin", "rem", "I", ("var", "x1"), 3, "lit8")), ("return", ("var", "p0"))]
    cst = ("assign", "x1", _c(-200))
    pd["const-local-used-twice"] = [cst, ("return", ("bin", "or", "I", ("bin", "and", "I", ("var", "p0"), ("var", "x1"), "3reg"), ("var", "x1"), "3reg"))]
    pd["const-local-used-three-times"] = [cst, ("return", ("bin", "or", "I", ("bin", "and", "I", ("un", "not-int", ("var", "x1")), ("bin", "mul", "I", ("var", "p0"), ("var", "x1"), "3reg"), "3reg"),
                                                            ("var", "x1"), "3reg"))]
    pd["const-local-used-in-both-branches"] = [cst, ("if", c1, [("return", ("bin", "add", "I", ("var", "x1"), ("var", "p0"), "3reg"))], []),
                                               ("return", ("bin", "xor", "I", ("var", "x1"), ("var", "p1"), "3reg"))]
    pd["counters-in-sibling-branches-only-dead-use-after"] = [("assign", "x0", _c(5)), ("if", c1, [kk, ("while", lc, [_acc(), inc], "top")], [kk, ("while", lc, [_acc(_c(2)), inc], "top")]),
                                                                 du, ("return", x0)]
    alias = {"def-only-in-do-while-body-use-after": "def-in-do-while-body", "def-only-in-do-while-body-use-after-and-in-body": "def-in-do-while-body",
             "redef-in-do-while-body-use-after": "def-in-do-while-body", "redef-in-do-while-body-use-in-next-loop": "def-in-do-while-body",
             "def-in-both-branches-only-dead-use-after": "dead-stmt-uses-local", "counters-in-sibling-branches-only-dead-use-after": "dead-stmt-uses-local"}
    for name, body in pd.items():
        if name.startswith("empty-if-throwing"):
            add("PD", "I", P2, body, "empty-if:throwing-condition", name)
        elif "compound" in name:
            add("PD", "I", P2, body, "decl:compound-if-else-assigns-in-both-branches", name)
        elif name.startswith("const-local-"):
            add("PD", "I", P2, body, "decl:const-local-multiple-uses", name)
            lb = eval(repr(body).replace("'I'", "'J'").replace("'const/16'", "'const-wide/16'").replace("'not-int'", "'not-long'"))
            add("PD", "J", [("p0", "J"), ("p1", "J")], lb, "decl:const-local-multiple-uses", name + "-long", locals_=[("x1", "J")])
        elif name == "div-in-unused-nested-expression":
            add("PD", "I", P2, body, "dead:div-int", name)
        elif name in ("div-before-branch-used-in-one-branch", "div-before-loop-used-after", "two-divs-order"):
            add("PD", "I", P2, body, "throw:div-or-rem", name)
        else:
            add("PD", "I", P2, body, "decl:" + alias.get(name, name), name)
    # ---- PD/prop: a single-use temporary x1 = f(x0) whose use comes after a (conditional) reassignment of x0: the decompiler may substitute
    # f(x0) for x1 only if NO path from the definition to the use reassigns x0 (dataflow.clear_path)
    small = ("assign", "x0", ("bin", "and", "I", ("var", "p0"), 7, "lit8"))
    TT = ("assign", "x1", ("bin", "add", "I", x0, 3, "lit8"))
    dbl = ("assign", "x0", ("bin", "mul", "I", x0, 2, "lit8"))
    dec = ("assign", "x0", ("bin", "add", "I", x0, -1, "lit8"))
    addk = ("assign", "x0", ("bin", "add", "I", x0, ("var", "k0"), "3reg"))
    use = ("return", ("bin", "xor", "I", ("var", "x1"), x0, "3reg"))
    c2 = ("cmp", "gt", "I", ("var", "p1"), _c(0), True)
    prop = {
        "if-without-else-reassigns-operand": [small, TT, ("if", c1, [dbl], []), use],
        "if-else-both-reassign-operand": [small, TT, ("if", c1, [dbl], [dec]), use],
        "if-else-one-branch-reassigns-operand": [small, TT, ("if", c1, [_acc()], [dec]), use],
        "nested-if-reassigns-operand": [small, TT, ("if", c1, [("if", c2, [dbl], [])], []), use],
        "two-ifs-second-reassigns-operand": [small, TT, ("if", c1, [_acc()], []), ("if", c2, [dbl], []), use],
        "if-reassigns-operand-use-in-condition": [small, TT, ("if", c1, [dbl], []), ("if", ("cmp", "lt", "I", ("var", "x1"), x0, False), [("return", _c(1))], []), ("return", _c(2))],
        "loop-header-uses-temp-body-reassigns-operand": [small, TT, k0, ("while", ("cmp", "lt", "I", ("var", "k0"), ("var", "x1"), False), [dec, inc], "top"), ("return", x0)],
        "loop-header-bottom-uses-temp-body-reassigns-operand": [small, TT, k0, ("while", ("cmp", "lt", "I", ("var", "k0"), ("var", "x1"), False), [dec, inc], "bottom"), ("return", x0)],
        "loop-body-reassigns-operand-use-after-loop": [small, TT, k0, ("while", lc, [addk, inc], "top"), use],
        "do-while-body-reassigns-operand-use-after-loop": [small, TT, k0, ("dowhile", [addk, inc], lc), use],
        "do-while-condition-uses-temp-body-reassigns-operand": [small, TT, k0, ("dowhile", [dec, inc], ("cmp", "lt", "I", ("var", "k0"), ("var", "x1"), False)), ("return", x0)],
        "loop-body-reassigns-operand-then-uses-temp": [small, TT, k0, ("while", lc, [addk, ("assign", "x0", ("bin", "xor", "I", x0, ("var", "x1"), "3reg")), inc], "top"), ("return", x0)],
        "loop-body-uses-temp-then-reassigns-operand-in-next-block": [small, TT, k0, ("while", lc, [("if", ("cmp", "lt", "I", ("var", "x1"), ("var", "p1"), False), [_acc()], []), dec, inc], "top"), ("return", x0)],
        "switch-arm-reassigns-operand": [small, TT, ("switch", ("bin", "and", "I", ("var", "p1"), 3, "lit8"), [([0], [dbl], False), ([1], [dec], False)], None, "packed"), use],
        "switch-arm-falls-through-reassigns-operand": [small, TT, ("switch", ("bin", "and", "I", ("var", "p1"), 3, "lit8"), [([0], [dbl], True), ([1], [dec], False)], [_acc()], "sparse"), use],
        "loop-body-uses-temp-and-reassigns-operand-in-one-statement": [small, TT, k0, ("while", lc, [("assign", "x0", ("bin", "add", "I", ("var", "x1"), ("var", "k0"), "3reg")), inc], "top"), ("return", x0)],
        "loop-body-uses-temp-then-reassigns-operand": [small, TT, ("assign", "k1", _c(0)), k0, ("while", lc, [("assign", "k1", ("bin", "add", "I", ("var", "k1"), ("var", "x1"), "3reg")), dec, inc], "top"),
                                                       ("return", ("bin", "xor", "I", ("var", "k1"), x0, "3reg"))],
    }
    for name, body in prop.items():
        add("PD", "I", P2, body, "prop:temp-used-after-" + name, name)
    # ---- PD/param: the parameter registers are ordinary registers - javac/dx compile `p += 5` into an instruction that overwrites them
    p0, p1 = ("var", "p0"), ("var", "p1")
    cp = ("assign", "x1", ("var", "p0", "move"))
    p0plus = ("assign", "p0", ("bin", "add", "I", p0, 5, "lit8"))
    par = {
        "copy-then-reassign": [cp, p0plus, ("return", ("bin", "mul", "I", ("var", "x1"), p0, "3reg"))],
        "copy-then-reassign-in-branch": [cp, ("if", c2, [p0plus], []), ("return", ("bin", "xor", "I", ("var", "x1"), p0, "3reg"))],
        "copy-then-reassign-in-both-branches": [cp, ("if", c2, [p0plus], [("assign", "p0", ("bin", "mul", "I", p0, 3, "lit8"))]), ("return", ("bin", "xor", "I", ("var", "x1"), p0, "3reg"))],
        "copy-then-reassign-in-loop": [cp, k0, ("while", lc, [("assign", "p0", ("bin", "add", "I", p0, ("var", "k0"), "3reg")), inc], "top"), ("return", ("bin", "xor", "I", ("var", "x1"), p0, "3reg"))],
        "copy-used-twice-after-reassign": [cp, p0plus, ("return", ("bin", "add", "I", ("bin", "mul", "I", ("var", "x1"), ("var", "x1"), "3reg"), p0, "3reg"))],
        "reassign-then-use": [("assign", "p0", ("bin", "mul", "I", p0, 3, "lit8")), ("return", ("bin", "add", "I", p0, p1, "3reg"))],
        "reassign-in-branch-then-use": [("if", c2, [p0plus], []), ("return", ("bin", "sub", "I", p0, p1, "3reg"))],
        "param-as-loop-counter": [("assign", "p0", ("bin", "and", "I", p0, 7, "lit8")), ("assign", "x0", _c(0)),
                                  ("while", ("cmp", "gt", "I", p0, _c(0), True), [("assign", "x0", ("bin", "add", "I", x0, p1, "3reg")), ("assign", "p0", ("bin", "add", "I", p0, -1, "lit8"))], "top"),
                                  ("return", x0)],
        "swap-through-copy": [cp, ("assign", "p0", p1), ("assign", "p1", ("var", "x1")), ("return", ("bin", "sub", "I", p0, p1, "3reg"))],
        "copy-then-reassign-use-in-condition": [cp, p0plus, ("if", ("cmp", "lt", "I", ("var", "x1"), p1, False), [("return", p0)], []), ("return", ("var", "x1"))],
    }
    castcp = ("assign", "x1", ("un", "int-to-byte", p0))
    par["cast-of-param-then-reassign-in-branch"] = [castcp, ("if", c2, [p0plus], []), ("return", ("bin", "xor", "I", ("var", "x1"), p0, "3reg"))]
    par["cast-of-param-then-reassign-in-loop"] = [castcp, k0, ("while", lc, [("assign", "p0", ("bin", "add", "I", p0, ("var", "k0"), "3reg")), inc], "top"),
                                                 ("return", ("bin", "xor", "I", ("var", "x1"), p0, "3reg"))]
    par["cast-of-param-used-twice-after-reassign"] = [castcp, p0plus, ("return", ("bin", "add", "I", ("bin", "mul", "I", ("var", "x1"), ("var", "x1"), "3reg"), p0, "3reg"))]
    for name, body in par.items():
        add("PD", "I", P2, body, "param:" + name, name)
    # the same with a widening cast (long temporary of an int parameter)
    add("PD", "J", P2, [("assign", "x1", ("un", "int-to-long", p0)), ("if", c2, [p0plus], []),
                        ("return", ("bin", "add", "J", ("var", "x1"), ("un", "int-to-long", p0), "3reg"))], "param:widening-cast-of-param-then-reassign-in-branch", "long", locals_=[("x1", "J")])
    # ---- PC3: a conditional inside the INNER of two nested loops that does not join again inside the inner loop (if without else as the
    # last statement of the body, if with a returning branch): the follow of the inner loop's nodes must be the inner follow
    loops3 = ("while-top", "while-bottom", "do-while")
    for a in loops3:
        for b in loops3:
            for cname, cstmts in (("if-last", [_acc(), ("if", ("cmp", "gt", "I", x0, ("var", "p1"), False), [post], [])]),
                                  ("if-else-last", [_acc(), ("if", ("cmp", "gt", "I", x0, ("var", "p1"), False), [post], [pre])]),
                                  ("if-return", [_acc(), early, post]),
                                  ("if-first", [("if", ("cmp", "gt", "I", x0, ("var", "p1"), False), [post], []), _acc()])):
                inner = _pat_construct(b, cstmts, 1, sel=("var", "p1"))
                add("PC", "I", P2, [init] + _pat_construct(a, [pre] + inner + [post], 0) + [("return", x0)], "nest3:%s/%s/%s" % (a, b, cname), "mid")
    # a loop is the very first statement of the method (its counter is a parameter): the entry block is the loop head itself (top-tested,
    # do-while) or holds nothing but the `goto` to the bottom test
    lbody = [("assign", "p1", ("bin", "add", "I", p1, p0, "3reg")), ("assign", "p0", ("bin", "shr", "I", p0, 1, "lit8"))]
    lcond = ("cmp", "gt", "I", p0, _c(0), True)
    for style in ("top", "bottom"):
        for latch in (False, True):
            if style == "top" and latch:
                continue
            add("PD", "I", P2, [("while", lcond, lbody, style), ("return", p1)], "first:loop-is-first-statement", "while-%s%s" % (style, "-exit-goto" if latch else ""), latch=latch)
            add("PD", "I", P2, [("while", lcond, [("if", c2, [("assign", "p1", ("bin", "xor", "I", p1, 5, "lit8"))], [])] + lbody, style), ("return", p1)],
                "first:loop-is-first-statement", "while-%s-if-in-body%s" % (style, "-exit-goto" if latch else ""), latch=latch)
    for latch in (False, True):
        add("PD", "I", P2, [("dowhile", lbody, lcond), ("return", p1)], "first:loop-is-first-statement", "do-while%s" % ("-exit-goto" if latch else ""), latch=latch)
    # ---- PC/latch: bottom-tested loops whose back edge is `if !cond -> exit; goto head`
    for a in ("do-while", "while-bottom"):
        for extra, tag in (([], "single"), ([early], "single+early-return")):
            add("PC", "I", P2, [init] + _pat_construct(a, [_acc()] + extra, 0) + [("return", x0)], "latch:exit-goto:" + a, tag, latch=True)
        for b in ("if", "if-else", "while-top", "do-while"):
            add("PC", "I", P2, [init] + _pat_construct(a, _pat_construct(b, [_acc()], 1, sel=("var", "p1")) + [post], 0) + [("return", x0)], "latch:exit-goto:%s/%s" % (a, b), "first",
                latch=True)
    for cast in ("int-to-byte", "int-to-char", "int-to-short"):
        N = ("assign", "x1", ("un", cast, ("var", "p0")))
        W_ = ("assign", "x1", ("bin", "add", "I", ("var", "p0"), ("var", "p1"), "3reg"))
        tp = {
            "wide-def-then-narrow-def-in-branch": [W_, ("if", c1, [N], []), rx1],
            "narrow-def-then-wide-def-in-branch": [N, ("if", c1, [W_], []), rx1],
            "narrow-def-then-inplace-add": [N, ("assign", "x1", ("bin", "add", "I", ("var", "x1"), ("var", "p1"), "2addr")), rx1],
            "narrow-def-then-inplace-add-lit": [N, ("assign", "x1", ("bin", "add", "I", ("var", "x1"), 100, "lit8")), rx1],
            "narrow-def-then-increment-in-loop": [N, k0, ("while", lc, [("assign", "x1", ("bin", "add", "I", ("var", "x1"), 127, "lit8")), inc], "top"), rx1],
            "narrow-in-one-branch-wide-in-other": [("if", c1, [N], [W_]), rx1],
            "narrow-def-used-in-arith": [N, ("return", ("bin", "mul", "I", ("var", "x1"), ("var", "p1"), "3reg"))],
            "unary-of-narrow-neg": [("assign", "x1", ("un", "neg-int", ("un", cast, ("var", "p0")))),
                                    ("return", ("bin", "xor", "I", ("bin", "add", "I", ("var", "x1"), ("var", "p1"), "3reg"), ("var", "x1"), "3reg"))],
            "unary-of-narrow-not": [("assign", "x1", ("un", "not-int", ("un", cast, ("var", "p0")))),
                                    ("return", ("bin", "xor", "I", ("bin", "add", "I", ("var", "x1"), ("var", "p1"), "3reg"), ("var", "x1"), "3reg"))],
        }
        mixed = ("wide-def-then-narrow-def-in-branch", "narrow-def-then-wide-def-in-branch", "narrow-in-one-branch-wide-in-other")
        for name, body in tp.items():
            sub = "mixed-defs" if name in mixed else "unary-of-narrow" if name.startswith("unary-of-narrow") else name
            add("PD", "I", P2, body, "type:%s:%s" % (cast, sub), name)
    return ms


# =====================================================================================================
# structural features (computed on the AST) - the vocabulary the pattern pools (PC PS PD) use as subjects
# =====================================================================================================
def construct_name(s):
    k = s[0]
    if k == "if":
        if not s[2] and not s[3]:
            return "empty-if"
        return "if-else" if s[3] else "if"
    if k == "while":
        return "while-" + s[3]
    if k == "dowhile":
        return "do-while"
    if k == "switch":
        return s[4] + "-switch"
    return None


def sub_blocks(s):
    k = s[0]
    if k == "if":
        return [s[2], s[3]]
    if k == "while":
        return [s[2]]
    if k == "dowhile":
        return [s[1]]
    if k == "switch":
        return [b for _, b, _ in s[2]] + ([s[3]] if s[3] is not None else [])
    return []


def ends_with_return(b):
    return bool(b) and b[-1][0] == "return"


def switch_props(s):
    _, e, cases, default, kind = s
    p = set()
    if default is None:
        p.add("no-default")
    elif not default:
        p.add("empty-default")
    elif not block_falls(default):
        p.add("default-returns")
    nret = 0
    for i, (ks, body, ft) in enumerate(cases):
        if len(ks) > 1:
            p.add("multi-label")
        if not body:
            p.add("two-empty-cases" if "empty-case" in p else "empty-case")
            if len(ks) > 1:
                p.add("multi-label-empty-case")
        if body and not block_falls(body):
            nret += 1
            p.add("case-returns")
        elif ft and i < len(cases) - 1:
            p.add("fallthrough")
            nb = cases[i + 1][1]
            if nb and not block_falls(nb):
                p.add("fallthrough-into-return")
        if any(x[0] == "if" for x in body):
            p.add("if-in-case")
        if ft and i < len(cases) - 1 and body and body[-1][0] == "if" and any(ends_with_return(bb) for bb in sub_blocks(body[-1])):
            p.add("if-return-falls-into-next-case")
        if ft and i < len(cases) - 1 and body and all(construct_name(x) == "empty-if" for x in body):
            p.add("empty-if-case-falls-through")
        if body and body[-1][0] == "if" and any(ends_with_return(bb) for bb in sub_blocks(body[-1])) and block_falls(body) and not (ft and i < len(cases) - 1):
            p.add("if-return-then-break")
    if nret >= 2:
        p.add("two-cases-return")
    if nret == len(cases):
        p.add("all-cases-return")
    return p


# props every switch instance of a PS variant has (used to recognise the variant inside random switches)
VARIANT_PROPS = {
    "all-break": set(), "no-default": {"no-default"}, "empty-default": {"empty-default"}, "case-returns": {"case-returns"},
    "case-returns-no-default": {"case-returns", "no-default"}, "last-case-returns-const": {"case-returns"},
    "two-labels-return-const": {"case-returns", "two-cases-return", "multi-label", "empty-default"}, "two-cases-return": {"case-returns", "two-cases-return"},
    "all-cases-return": {"all-cases-return"}, "all-return-incl-default": {"all-cases-return", "default-returns"},
    "fallthrough": {"fallthrough"}, "fallthrough-into-return": {"fallthrough-into-return"}, "multi-label": {"multi-label"},
    "empty-case": {"empty-case"}, "empty-cases-empty-default": {"empty-case", "multi-label", "empty-default"}, "default-returns": {"default-returns"},
    "if-in-case": {"if-in-case"}, "if-return-falls-into-next-case": {"if-return-falls-into-next-case"},
    "two-empty-cases": {"two-empty-cases"}, "two-empty-cases-no-default": {"two-empty-cases", "no-default"},
    "empty-if-case-falls-through": {"empty-if-case-falls-through"}, "if-return-then-break": {"if-return-then-break"},
    "multi-label-empty-case": {"multi-label-empty-case"}, "multi-label-empty-case-no-default": {"multi-label-empty-case", "no-default"},
}
NARROW = ("int-to-byte", "int-to-char", "int-to-short")


def cond_throws(c):
    if c[0] == "cmp":
        return bool(throwing_insns(c[3]) or throwing_insns(c[4]))
    if c[0] == "not":
        return cond_throws(c[1])
    return cond_throws(c[1]) or cond_throws(c[2])


def first_leaf(c):
    while c[0] != "cmp":
        c = c[1]
    return c


def structural_features(m):
    f = set()
    defs = {}      # local -> set of def kinds ("narrow:<cast>" / "wide")

    def walk(stmts, chain, da):
        """chain: enclosing construct names, outermost first; da: definitely assigned names. -> da after"""
        da = set(da)
        prev_ctl = None
        for s in stmts:
            k = s[0]
            if k in ("assign", "dead"):
                e = s[2]
                if k == "assign" and throwing_insns(e):
                    f.add("throw:div-or-rem")
                if k == "dead" and any(not n.startswith("p") for n in expr_uses(e)):
                    f.add("decl:dead-stmt-uses-local")
                if k == "assign" and e[0] == "const":
                    f.add("decl:const-local-multiple-uses")
                if e[0] == "un" and e[1] in ("neg-int", "not-int") and e[2][0] == "un" and e[2][1] in NARROW:
                    f.add("type:%s:unary-of-narrow" % e[2][1])
                kind = "narrow:" + e[1] if e[0] == "un" and e[1] in NARROW else "wide"
                defs.setdefault(s[1], set()).add(kind)
                da.add(s[1])
                continue
            if k == "return":
                if throwing_insns(s[1]):
                    f.add("throw:div-or-rem")
                if chain:
                    f.add("ret-in:" + "/".join(chain[-2:]))
                continue
            name = construct_name(s)
            f.add("nest:" + name)
            if name == "empty-if" and cond_throws(s[1]):
                f.add("empty-if:throwing-condition")
            if name == "if-else" and s[1][0] in ("and", "or", "not") and (assigned_names(s[2]) & assigned_names(s[3])):
                f.add("decl:compound-if-else-assigns-in-both-branches")
            if chain:
                f.add("nest:%s/%s" % (chain[-1], name))
            if prev_ctl is not None:
                f.add("seq:%s;%s" % (prev_ctl, name))
            prev_ctl = name
            if k == "if":
                a = walk(s[2], chain + [name], da)
                b = walk(s[3], chain + [name], da) if s[3] else set(da)
                ta, tb = block_falls(s[2]), (block_falls(s[3]) if s[3] else True)
                da = (a & b) if (ta and tb) else (a if ta else b)
            elif k == "while":
                walk(s[2], chain + [name], da)
            elif k == "dowhile":
                a = walk(s[1], chain + [name], da)
                if any(not n.startswith("k") for n in assigned_names(s[1])):
                    f.add("decl:def-in-do-while-body")
                da = a
            elif k == "switch":
                props = switch_props(s)
                where = "@nested" if chain else "@top"
                for vn, need in VARIANT_PROPS.items():
                    if need <= props:
                        f.add("switch:%s:%s%s" % (s[4], vn, where))
                outs = []
                for ks, body, ft in s[2]:
                    o = walk(body, chain + [name], da)
                    if block_falls(body) and not ft:
                        outs.append(o)
                if s[3] is not None:
                    o = walk(s[3], chain + [name], da)
                    if block_falls(s[3]):
                        outs.append(o)
                    common = None
                    for o in outs:
                        common = set(o) if common is None else common & o
                    da = da | (common or set())
        return da
    walk(m.body, [], {n for n, _ in m.params})
    for v, kinds in defs.items():
        for kd in kinds:
            if kd.startswith("narrow:") and "wide" in kinds:
                f.add("type:%s:mixed-defs" % kd[7:])
    return f


_plain_compile = compile_method


def compile_method(m):  # noqa: F811  (adds the structural vocabulary to the instruction-level features)
    m = _plain_compile(m)
    m.features |= structural_features(m)
    return m


STRUCT_KINDS = ("nest", "seq", "ret-in", "switch", "decl", "type", "throw", "empty-if")


def flatten_construct(s):
    """benign replacement of a control construct: its first body, once"""
    k = s[0]
    if k == "if":
        b = s[2]
    elif k == "while":
        b = s[2]
    elif k == "dowhile":
        b = s[1]
    else:
        b = s[2][0][1] if s[2] else []
    return list(b)


def neutralise_struct(m, bad):
    """structural explain-away. -> (compiled method, set of features neutralised)"""
    done = set()

    def strip_narrow(stmts):
        out = []
        for s in stmts:
            if s[0] in ("assign", "dead") and s[2][0] == "un" and s[2][1] in NARROW and ("type:%s:mixed-defs" % s[2][1]) in bad:
                done.add("type:%s:mixed-defs" % s[2][1])
                out.append((s[0], s[1], s[2][2]))
            elif (s[0] in ("assign", "dead") and s[2][0] == "un" and s[2][1] in ("neg-int", "not-int") and s[2][2][0] == "un" and s[2][2][1] in NARROW
                  and ("type:%s:unary-of-narrow" % s[2][2][1]) in bad):
                done.add("type:%s:unary-of-narrow" % s[2][2][1])
                out.append((s[0], s[1], ("un", s[2][1], s[2][2][2])))
            elif s[0] == "assign" and s[2][0] == "const" and "decl:const-local-multiple-uses" in bad and not s[1].startswith("k"):
                done.add("decl:const-local-multiple-uses")
                T = s[2][1]
                pv = [n for n, t in m.params if t == T]
                base = ("var", pv[0]) if pv else ("un", "int-to-long" if T == "J" else "long-to-int", ("var", m.params[0][0]))
                out.append(("assign", s[1], ("bin", "or", T, ("bin", "and", T, base, mkconst(T, 0), "3reg"), s[2], "3reg")))
            elif s[0] in ("assign", "dead", "return"):
                out.append(s)
            elif s[0] == "if":
                out.append(("if", s[1], strip_narrow(s[2]), strip_narrow(s[3])))
            elif s[0] == "while":
                out.append(("while", s[1], strip_narrow(s[2]), s[3]))
            elif s[0] == "dowhile":
                out.append(("dowhile", strip_narrow(s[1]), s[2]))
            else:
                out.append(("switch", s[1], [(ks, strip_narrow(b), ft) for ks, b, ft in s[2]], None if s[3] is None else strip_narrow(s[3]), s[4]))
        return out

    def walk(stmts, chain):
        out = []
        prev_ctl = None
        for s in stmts:
            k = s[0]
            if k in ("assign", "dead"):
                out.append(s)
                continue
            if k == "return":
                key = "ret-in:" + "/".join(chain[-2:]) if chain else None
                out.append(s)
                continue
            name = construct_name(s)
            hit = set()
            for key in ["nest:" + name] + (["nest:%s/%s" % (chain[-1], name)] if chain else []) + (["seq:%s;%s" % (prev_ctl, name)] if prev_ctl else []):
                if key in bad:
                    hit.add(key)
            if k == "switch":
                props = switch_props(s)
                where = "@nested" if chain else "@top"
                for vn, need in VARIANT_PROPS.items():
                    key = "switch:%s:%s%s" % (s[4], vn, where)
                    if need <= props and key in bad:
                        hit.add(key)
            # a return directly inside this construct (or inside an `if` directly inside it)
            for b in sub_blocks(s):
                for t in b:
                    if t[0] == "return" and ("ret-in:" + "/".join((chain + [name])[-2:])) in bad:
                        hit.add("ret-in:" + "/".join((chain + [name])[-2:]))
                    if t[0] == "if":
                        iname = construct_name(t)
                        for bb in sub_blocks(t):
                            if any(u[0] == "return" for u in bb) and ("ret-in:%s/%s" % (name, iname)) in bad:
                                hit.add("ret-in:%s/%s" % (name, iname))
            if hit:
                done.update(hit)
                flat = [t for t in flatten_construct(s)]
                flat = walk(flat, chain)
                # keep the block well-formed: a flattened body that returns ends the block
                out.extend(flat)
                if not block_falls(flat):
                    return out
                continue
            prev_ctl = name
            if k == "if":
                out.append(("if", s[1], walk(s[2], chain + [name]), walk(s[3], chain + [name])))
            elif k in ("while", "dowhile"):
                nb = walk(s[2] if k == "while" else s[1], chain + [name])
                if not block_falls(nb):      # the body now always returns: not a loop any more
                    out.extend(nb)
                    return out
                out.append(("while", s[1], nb, s[3]) if k == "while" else ("dowhile", nb, s[2]))
            else:
                out.append(("switch", s[1], [(ks, walk(b, chain + [name]), ft) for ks, b, ft in s[2]], None if s[3] is None else walk(s[3], chain + [name]), s[4]))
            if not stmt_falls(out[-1]):
                return out
        return out

    body = m.body
    if "decl:dead-stmt-uses-local" in bad and "decl:dead-stmt-uses-local" in m.features:
        def drop(stmts):
            o = []
            for s in stmts:
                if s[0] == "dead" and any(not n.startswith("p") for n in expr_uses(s[2])):
                    done.add("decl:dead-stmt-uses-local")
                    continue
                if s[0] == "if":
                    s = ("if", s[1], drop(s[2]), drop(s[3]))
                elif s[0] == "while":
                    s = ("while", s[1], drop(s[2]), s[3])
                elif s[0] == "dowhile":
                    s = ("dowhile", drop(s[1]), s[2])
                elif s[0] == "switch":
                    s = ("switch", s[1], [(ks, drop(b), ft) for ks, b, ft in s[2]], None if s[3] is None else drop(s[3]), s[4])
                o.append(s)
            return o
        body = drop(body)
    if any(b.startswith("type:") or b == "decl:const-local-multiple-uses" for b in bad):
        body = strip_narrow(body)
    if "empty-if:throwing-condition" in bad or "decl:compound-if-else-assigns-in-both-branches" in bad:
        def fix_ifs(stmts):
            o = []
            for s in stmts:
                k = s[0]
                if k == "if":
                    nm = construct_name(s)
                    if nm == "empty-if" and cond_throws(s[1]) and "empty-if:throwing-condition" in bad:
                        done.add("empty-if:throwing-condition")
                        continue
                    c = s[1]
                    if (nm == "if-else" and c[0] in ("and", "or", "not") and (assigned_names(s[2]) & assigned_names(s[3]))
                            and "decl:compound-if-else-assigns-in-both-branches" in bad):
                        done.add("decl:compound-if-else-assigns-in-both-branches")
                        c = first_leaf(c)
                    s = ("if", c, fix_ifs(s[2]), fix_ifs(s[3]))
                elif k == "while":
                    s = ("while", s[1], fix_ifs(s[2]), s[3])
                elif k == "dowhile":
                    s = ("dowhile", fix_ifs(s[1]), s[2])
                elif k == "switch":
                    s = ("switch", s[1], [(ks, fix_ifs(b), ft) for ks, b, ft in s[2]], None if s[3] is None else fix_ifs(s[3]), s[4])
                o.append(s)
            return o
        body = fix_ifs(body)
    if any(b.split(":")[0] in ("nest", "seq", "switch", "ret-in") for b in bad):
        body = walk(body, [])
    if "throw:div-or-rem" in bad and "throw:div-or-rem" in m.features:
        def ex(e):
            if e[0] == "un":
                return ("un", e[1], ex(e[2]))
            if e[0] == "bin":
                a = ex(e[3])
                b = e[4] if isinstance(e[4], int) else ex(e[4])
                if e[1] in ("div", "rem"):
                    done.add("throw:div-or-rem")
                    return ("bin", "xor", e[2], a, mkconst(e[2], b) if isinstance(b, int) else b, "3reg")
                return ("bin", e[1], e[2], a, b, e[5])
            return e

        def co(c):
            if c[0] == "cmp":
                return ("cmp", c[1], c[2], ex(c[3]), ex(c[4]), c[5])
            if c[0] == "not":
                return ("not", co(c[1]))
            return (c[0], co(c[1]), co(c[2]))

        def bl(b):
            o = []
            for s in b:
                k = s[0]
                if k in ("assign", "dead"):
                    o.append((k, s[1], ex(s[2])))
                elif k == "return":
                    o.append(("return", ex(s[1])))
                elif k == "if":
                    o.append(("if", co(s[1]), bl(s[2]), bl(s[3])))
                elif k == "while":
                    o.append(("while", co(s[1]), bl(s[2]), s[3]))
                elif k == "dowhile":
                    o.append(("dowhile", bl(s[1]), co(s[2])))
                else:
                    o.append(("switch", ex(s[1]), [(ks, bl(b2), ft) for ks, b2, ft in s[2]], None if s[3] is None else bl(s[3]), s[4]))
            return o
        body = bl(body)
    if "decl:def-in-do-while-body" in bad and "decl:def-in-do-while-body" in m.features:
        done.add("decl:def-in-do-while-body")

        def dw(stmts):
            o = []
            for s in stmts:
                if s[0] == "dowhile":
                    s = ("while", s[2], dw(s[1]), "top")
                elif s[0] == "if":
                    s = ("if", s[1], dw(s[2]), dw(s[3]))
                elif s[0] == "while":
                    s = ("while", s[1], dw(s[2]), s[3])
                elif s[0] == "switch":
                    s = ("switch", s[1], [(ks, dw(b), ft) for ks, b, ft in s[2]], None if s[3] is None else dw(s[3]), s[4])
                o.append(s)
            return o
        body = dw(body)
    if not done:
        return None, done
    # restructuring can remove definitions: give every local an initial value (also what neutralises the decl:* features)
    body = [("assign", n, mkconst(t, 0)) for n, t in m.locals if not n.startswith("k")] + body
    if block_falls(body):
        body = body + [("return", mkconst(m.ret, 0))]
    body = drop_dead(body)
    used = assigned_names(body)
    n = m.clone(body=body)
    n.locals = [(a, t) for a, t in m.locals if a in used]
    return compile_method(n), done
