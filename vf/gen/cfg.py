"""Method-CFG generator (C02, C08, C10-C12, C40): random instruction streams with gotos (8/16/32), if-test/if-testz,
packed/sparse switches (duplicate targets, shared payloads), fill-array-data, returns/throws, try items, payloads with nop padding.
Emits the bytes (as dexw insns) together with the ground truth: instruction offsets, required leaders, successor sets, try coverage."""
from vf.model import dalvik as D
from vf.model import dexw as W

CLS = "Lg/M;"
REFS = {
    "string": [W.Str("s0"), W.Str("s1"), W.Str("héllo"), W.Str("")],
    "type": [W.Typ("Lg/M;"), W.Typ("Ljava/lang/Object;"), W.Typ("[I"), W.Typ("Lx/Y;"), W.Typ("[Lg/M;")],
    "field": [W.Fld("Lg/M;", "sf", "I"), W.Fld("Lg/M;", "inf", "J"), W.Fld("Lx/Y;", "e", "Ljava/lang/String;")],
    "method": [W.Mth("Lg/M;", "callee", "V", ()), W.Mth("Lx/Y;", "ext", "I", ("I", "J")), W.Mth("Ljava/lang/Object;", "<init>", "V", ())],
}
EXC_TYPES = ["Ljava/lang/Exception;", "Ljava/io/IOException;", "Ljava/lang/RuntimeException;", "Lx/MyExc;"]

RETURNS = ["return-void", "return", "return-wide", "return-object"]
PLAIN_OPS = [op for op, (n, f, k) in D.OPCODES.items()
             if f not in D.BRANCH_FORMATS and n not in RETURNS and n != "throw"]


def rand_plain(rng, allow_new=True, op=None, nregs=None):
    """a random non-branching instruction as a dexw insn tuple (op: this opcode; nregs: this many argument registers for 35c/45cc)"""
    while op is None:
        op = rng.choice(PLAIN_OPS)
        if op >= 0xFA and not allow_new:
            op = None
    name, fmt, kind = D.OPCODES[op]
    r4 = lambda: rng.randrange(16)
    r8 = lambda: rng.choice([0, 1, 15, 16, 255, rng.randrange(256)])
    r16 = lambda: rng.choice([0, 255, 256, 65535, rng.randrange(65536)])
    if fmt == "10x":
        return (name,)
    if fmt == "12x":
        return (name, r4(), r4())
    if fmt == "11n":
        return (name, r4(), rng.randrange(-8, 8))
    if fmt == "11x":
        return (name, r8())
    if fmt == "22x":
        return (name, r8(), r16())
    if fmt == "21s":
        return (name, r8(), rng.choice([-32768, -1, 0, 1, 32767, rng.randrange(-32768, 32768)]))
    if fmt == "21h":
        return (name, r8(), rng.choice([0, 1, 0x7FFF, 0x8000, 0xFFFF, rng.randrange(65536)]))
    if fmt == "21c":
        if kind in REFS:
            return (name, r8(), rng.choice(REFS[kind]))
        return (name, r8(), rng.choice([0, 1, 2]))  # method_handle / proto index: raw
    if fmt == "23x":
        return (name, r8(), r8(), r8())
    if fmt == "22b":
        return (name, r8(), r8(), rng.choice([-128, -1, 0, 1, 127, rng.randrange(-128, 128)]))
    if fmt == "22s":
        return (name, r4(), r4(), rng.choice([-32768, -1, 0, 1, 32767, rng.randrange(-32768, 32768)]))
    if fmt == "22c":
        return (name, r4(), r4(), rng.choice(REFS[kind]))
    if fmt == "32x":
        return (name, r16(), r16())
    if fmt == "31i":
        return (name, r8(), rng.choice([-2 ** 31, -1, 0, 1, 2 ** 31 - 1, rng.randrange(-2 ** 31, 2 ** 31)]))
    if fmt == "31c":
        return (name, r8(), rng.choice(REFS["string"]))
    if fmt in ("35c", "45cc"):
        regs = [r4() for _ in range(rng.randrange(6) if nregs is None else nregs)]
        idx = rng.choice(REFS[kind]) if kind in REFS else (rng.choice(REFS["method"]) if kind == "method+proto" else 0)
        if fmt == "45cc":
            return (name, regs, idx, W.Pro("V", ("I",)))
        return (name, regs, idx)
    if fmt in ("3rc", "4rcc"):
        idx = rng.choice(REFS[kind]) if kind in REFS else (rng.choice(REFS["method"]) if kind == "method+proto" else 0)
        first, cnt = r16(), r8()
        if first + cnt > 65536:
            first = 65536 - cnt
        if fmt == "4rcc":
            return (name, first, cnt, idx, W.Pro("V", ("I",)))
        return (name, first, cnt, idx)
    if fmt == "51l":
        return (name, r8(), rng.choice([-2 ** 63, -1, 0, 1, 2 ** 63 - 1, rng.randrange(-2 ** 63, 2 ** 63)]))
    raise AssertionError(fmt)


def insn_units(t):
    return D.FORMAT_UNITS[D.OPCODES[D.NAME2OP[t[0]]][1]]


class MethodSpec:
    pass


def gen_method(rng, nslots=None, misaligned=False, allow_new=True, max_tries=5, plain_only_simple=False, wild_targets=True, front_payloads=True,
               clause_counts=(0, 1, 1, 2, 3), plain_source=None):
    n = nslots or rng.choice([3, 5, 8, 12, 20, 40])
    slots = []  # dict(kind=..., ...)
    for i in range(n):
        r = rng.random()
        last = i == n - 1
        if last:
            # (an `if` as the very last instruction: its fall-through runs off the end of the code - not a successor)
            k = rng.choice(["return", "return", "return", "throw", "goto", "goto", "if"]) if wild_targets else rng.choice(["return", "return", "throw", "goto"])
        elif r < 0.55:
            k = "plain"
        elif r < 0.63:
            k = "goto"
        elif r < 0.80:
            k = "if"
        elif r < 0.87:
            k = "switch"
        elif r < 0.90:
            k = "fill"
        elif r < 0.96:
            k = "return"
        else:
            k = "throw"
        s = {"kind": k}
        if k == "plain":
            s["ins"] = plain_source() if plain_source else rand_plain(rng, allow_new) if not plain_only_simple else rng.choice([("const/4", rng.randrange(4), rng.randrange(-8, 8)), ("nop",), ("add-int/2addr", 0, 1), ("move", 1, 0)])
        elif k == "goto":
            s["target"] = rng.randrange(n)
            s["width"] = rng.choice([8, 8, 16, 32])
            s["wild"] = rng.choice([None] * 14 + ["neg", "past"]) if (wild_targets and not last) else None
            if s["wild"]:
                s["width"] = rng.choice([16, 32])
        elif k == "if":
            s["target"] = rng.choice([0, i + 1 if i + 1 < n else 0, rng.randrange(n), rng.randrange(n)])
            s["z"] = rng.random() < 0.5
            s["op"] = rng.randrange(6)
            # a few branches leave the method (target before the first or after the last code unit): such a target is not a successor
            s["wild"] = rng.choice([None] * 12 + ["neg", "past"]) if wild_targets else None
        elif k == "switch":
            s["packed"] = rng.random() < 0.5
            cnt = rng.choice([0, 1, 2, 3, 5])
            tg = [rng.randrange(n) for _ in range(cnt)]
            if cnt >= 2 and rng.random() < 0.4:
                tg[1] = tg[0]  # duplicate target
            if cnt and rng.random() < 0.2:
                tg[-1] = (i + 1) % n  # a case that coincides with the fall-through
            s["targets"] = tg
            s["share"] = None
            # one case of a few switches leaves the method (before the first / behind the last code unit) while the other cases are ordinary
            s["wild_case"] = (rng.randrange(cnt), rng.choice(["neg", "past"])) if (wild_targets and cnt and rng.random() < 0.12) else None
        elif k == "fill":
            s["width"] = rng.choice([1, 2, 4, 8])
            s["data"] = bytes(rng.randrange(256) for _ in range(s["width"] * rng.choice([0, 1, 3, 4, 7])))
        elif k == "return":
            s["ins"] = rng.choice([("return-void",), ("return", rng.randrange(256)), ("return-wide", rng.randrange(256)), ("return-object", rng.randrange(256))])
        elif k == "throw":
            s["ins"] = ("throw", rng.randrange(256))
        slots.append(s)
    # ---- some switch / fill-array-data payloads are placed IN FRONT of the instruction that uses them (negative payload offset; legal, never
    # produced by dx/d8): goto/16 over; [nop]; payload...; over: <the method>
    front = {}
    if front_payloads and not misaligned:
        chosen = [i for i, s in enumerate(slots) if s["kind"] in ("switch", "fill") and rng.random() < 0.2]
        if chosen:
            pre = [{"kind": "goto", "target": None, "width": 16, "wild": None}]
            pos = 2
            for i in chosen:
                s = slots[i]
                ln = (4 + (len(s["data"]) + 1) // 2) if s["kind"] == "fill" else (4 + 2 * len(s["targets"])) if s["packed"] else (2 + 4 * len(s["targets"]))
                if pos % 2:
                    pre.append({"kind": "plain", "ins": ("nop",)})
                    pos += 1
                pre.append({"kind": "rawpayload", "for": i, "len": ln})
                pos += ln
            K = len(pre)
            pre[0]["target"] = K
            for s in slots:
                if s["kind"] in ("goto", "if"):
                    s["target"] += K
                elif s["kind"] == "switch":
                    s["targets"] = [t + K for t in s["targets"]]
            for q in pre:
                if q["kind"] == "rawpayload":
                    q["for"] += K
                    front[q["for"]] = None
            slots = pre + slots
            for j, q in enumerate(slots):
                if q["kind"] == "rawpayload":
                    front[q["for"]] = j
            n = len(slots)
    first_real = (max(front.values()) + 1) if front else 0   # tries and handlers stay out of the front data area

    # ---- layout (iterate goto widths until they fit)
    def size(s):
        k = s["kind"]
        if k == "rawpayload":
            return s["len"]
        if k in ("plain", "return", "throw"):
            return insn_units(s["ins"])
        if k == "goto":
            return {8: 1, 16: 2, 32: 3}[s["width"]]
        if k == "if":
            return 2
        return 3  # switch / fill: 31t
    for _ in range(10):
        off = []
        p = 0
        for s in slots:
            off.append(p)
            p += size(s)
        changed = False
        for i, s in enumerate(slots):
            if s["kind"] == "goto":
                rel = off[s["target"]] - off[i]
                need = 32 if rel == 0 else (8 if -128 <= rel <= 127 else 16 if -32768 <= rel <= 32767 else 32)
                if need > s["width"]:
                    s["width"] = need
                    changed = True
        if not changed:
            break
    body_units = p
    # ---- a later switch may share the payload of an earlier one of the same kind, but only when the relative targets are also
    # instruction starts as seen from the later switch (targets are relative to the switch instruction)
    offset_set = set(off)
    sw = [i for i, s in enumerate(slots) if s["kind"] == "switch"]
    for a in sw:
        if slots[a]["share"] is not None or slots[a].get("wild_case"):
            continue
        rel_a = [off[t] - off[a] for t in slots[a]["targets"]]
        for b in sw:
            if b > a and slots[b]["packed"] == slots[a]["packed"] and slots[b]["share"] is None and rng.random() < 0.6:
                if all((off[b] + r) in offset_set for r in rel_a):
                    slots[b]["share"] = a
    # ---- payloads after the body
    pay_off = {}
    tail = []  # list of ("pad",) / ("payload", units)
    pos = body_units
    def switch_rel(i, s):
        rel = [off[t] - off[i] for t in s["targets"]]
        if s.get("wild_case"):
            pos_, how = s["wild_case"]
            rel[pos_] = (-off[i] - rng.randint(1, 40)) if how == "neg" else (body_units - off[i] + 100000 + rng.randint(0, 40))
        return rel

    def payload_units(i, s):
        if s["kind"] == "fill":
            return D.fill_array_payload(s["width"], s["data"])
        rel = switch_rel(i, s)
        s["rel"] = rel
        if s["packed"]:
            return D.packed_switch_payload(rng.choice([0, -1, 100, -2 ** 31, 2 ** 31 - len(rel)]), rel)
        return D.sparse_switch_payload(sorted(rng.sample(range(-1000, 1000), len(rel))), rel)
    for i, j in front.items():
        pay_off[i] = off[j]
        slots[j]["units"] = payload_units(i, slots[i])
        assert len(slots[j]["units"]) == slots[j]["len"], (slots[i], len(slots[j]["units"]), slots[j]["len"])
    for i, s in enumerate(slots):
        if s["kind"] in ("switch", "fill") and s.get("share") is None and i not in front:
            if pos % 2 and not misaligned:
                tail.append(("pad", [0]))
                pos += 1
            elif misaligned and pos % 2 == 0 and rng.random() < 0.5:
                tail.append(("pad", [0]))
                pos += 1
            pay_off[i] = pos
            if s["kind"] == "fill":
                u = D.fill_array_payload(s["width"], s["data"])
            else:
                rel = switch_rel(i, s)
                if s["packed"]:
                    u = D.packed_switch_payload(rng.choice([0, -1, 100, -2 ** 31, 2 ** 31 - len(rel)]), rel)
                else:
                    keys = sorted(rng.sample(range(-1000, 1000), len(rel)))
                    u = D.sparse_switch_payload(keys, rel)
                s["rel"] = rel
            tail.append(("payload", u))
            pos += len(u)
    for i, s in enumerate(slots):
        if s["kind"] == "switch" and s.get("share") is not None:
            pay_off[i] = pay_off[s["share"]]
            s["rel"] = slots[s["share"]]["rel"]
    total_units_planned = pos
    # ---- emit
    insns = []
    ins_list = []  # (unit offset, units, name)
    for i, s in enumerate(slots):
        k = s["kind"]
        if k == "rawpayload":
            insns.extend(s["units"])
            ins_list.append((off[i], s["len"], "payload"))
            continue
        if k in ("plain", "return", "throw"):
            t = s["ins"]
        elif k == "goto":
            rel = off[s["target"]] - off[i]
            if s.get("wild") == "neg":
                rel = -off[i] - rng.randint(1, 40)
            elif s.get("wild") == "past":
                rel = (total_units_planned - off[i]) + rng.randint(0, 40)
            s["rel_emitted"] = rel
            t = ({8: "goto", 16: "goto/16", 32: "goto/32"}[s["width"]], rel)
        elif k == "if":
            rel = off[s["target"]] - off[i]
            if s.get("wild") == "neg":
                rel = -off[i] - rng.randint(1, 40)
            elif s.get("wild") == "past":
                rel = (total_units_planned - off[i]) + rng.randint(0, 40)
            s["rel_emitted"] = rel
            if s["z"]:
                t = (["if-eqz", "if-nez", "if-ltz", "if-gez", "if-gtz", "if-lez"][s["op"]], rng.randrange(256), rel)
            else:
                t = (["if-eq", "if-ne", "if-lt", "if-ge", "if-gt", "if-le"][s["op"]], rng.randrange(16), rng.randrange(16), rel)
        elif k in ("switch", "fill"):
            rel = pay_off[i] - off[i]
            if misaligned and rng.random() < 0.15:
                # (C40 pool only) an encoded payload offset at which NO instruction starts: inside the payload, one unit before it (second half
                # of the preceding instruction / the padding), or behind the end of the code
                rel = rng.choice([rel + 1, rel - 1, total_units_planned - off[i] + rng.randint(0, 5), rel + 2])
                s["bad_payload_offset"] = True
            t = (("packed-switch" if s["packed"] else "sparse-switch") if k == "switch" else "fill-array-data", rng.randrange(256), rel)
        s["emit"] = t
        insns.append(t)
        ins_list.append((off[i], size(s), t[0]))
    pos = body_units
    for kind, u in tail:
        insns.extend(u)
        ins_list.append((pos, len(u), "nop" if kind == "pad" else "payload"))
        pos += len(u)
    total_units = pos
    # ---- tries over body instruction boundaries
    tries = []
    truth_tries = []
    ntry = rng.randrange(0, max_tries + 1)
    if n - first_real >= 2 and ntry:
        cuts = sorted(rng.sample(range(first_real, n + 1), min(2 * ntry, n + 1 - first_real)))
        for q in range(2, len(cuts) - 1, 2):
            # some try ranges start exactly where the previous one ends (dx/d8 would have merged them when they share the handlers; a
            # hand-written or rewritten file keeps them apart: two try items, two leaders)
            if rng.random() < 0.3:
                cuts[q] = cuts[q - 1]
        contiguous_share = rng.random() < 0.5
        share_key = 0
        earlier = []  # handler lists of ALL earlier tries: a later try may share any of them (H0, H1, H0 patterns, not only adjacent ones)
        for a, b in zip(cuts[0::2], cuts[1::2]):
            if a == b:
                continue
            start = off[a]
            end = off[b] if b < n else body_units
            nh = rng.choice(clause_counts)
            hs = [(rng.choice(EXC_TYPES), off[rng.randrange(first_real, n)]) for _ in range(nh)]
            if rng.random() < 0.012:
                # a handler with so many clauses that its signed size needs two LEB128 bytes (63/64/65 and 127/128/129 are the encoding boundaries)
                nh = rng.choice([62, 63, 64, 65, 66, 100, 126, 127, 128, 129, 130])
                tgt = [off[rng.randrange(first_real, n)] for _ in range(3)]
                hs = [("Lexc/T%03d;" % j, rng.choice(tgt)) for j in range(nh)]
            ca = off[rng.randrange(first_real, n)] if (nh == 0 or rng.random() < 0.4) else None
            if nh == 0 and rng.random() < 0.3:
                ca = 0  # catch-all handler at the very first instruction
            share = None
            if earlier and truth_tries and truth_tries[-1][1] + 1 == start * 2 and contiguous_share:
                hs, ca, share = earlier[-1]          # contiguous with the previous try AND the same handler list
            elif earlier and rng.random() < 0.4:
                hs, ca, share = rng.choice(earlier)
            else:
                share = share_key
                share_key += 1
            earlier.append((hs, ca, share))
            tries.append(W.Try(start, end - start, hs, ca, share=share))
            truth_tries.append((start * 2, end * 2 - 1, [(t, a2 * 2) for t, a2 in hs] + ([("Ljava/lang/Throwable;", ca * 2)] if ca is not None else [])))
    # ---- ground truth
    m = MethodSpec()
    m.insns = insns
    m.tries = tries
    m.total_units = total_units
    m.body_units = body_units
    m.instr = [(o * 2, u * 2, nm) for o, u, nm in ins_list]
    m.truth_tries = truth_tries
    leaders = {0}
    term = {}
    for i, s in enumerate(slots):
        k = s["kind"]
        here = off[i] * 2
        nxt = (off[i] + size(s)) * 2
        if k == "goto":
            term[here] = {(off[i] + s["rel_emitted"]) * 2}
        elif k == "if":
            term[here] = {nxt, (off[i] + s["rel_emitted"]) * 2}
        elif k == "switch":
            term[here] = {nxt} | {(off[i] + r) * 2 for r in s["rel"]}
        elif k in ("return", "throw"):
            term[here] = set()
    for here, tg in term.items():
        leaders |= tg
    for (a, b, hs) in truth_tries:
        leaders.add(a)
        for t, addr in hs:
            leaders.add(addr)
    m.terminators = term
    m.leaders = {x for x in leaders if 0 <= x < total_units * 2}
    m.switch_payload = {off[i] * 2: pay_off[i] * 2 for i, s in enumerate(slots) if s["kind"] in ("switch", "fill")}
    m.payload_kind = {off[i] * 2: ("fill" if s["kind"] == "fill" else "packed" if s["packed"] else "sparse") for i, s in enumerate(slots) if s["kind"] in ("switch", "fill")}
    # valid but non-minimal LEB128 numbers inside the encoded_catch_handler_list (offsets of later handlers must come from the bytes read)
    m.fat_leb = None
    if tries and rng.random() < 0.25:
        frng = __import__("random").Random(rng.getrandbits(32))
        m.fat_leb = lambda: frng.choice([0, 0, 1, 2])
    m.features = {"tries": len(tries), "switch": any(s["kind"] == "switch" for s in slots), "fill": any(s["kind"] == "fill" for s in slots),
                  "shared_payload": any(s.get("share") is not None for s in slots), "misaligned": any(o % 2 for o in pay_off.values()) or any(s.get("bad_payload_offset") for s in slots),
                  "new_ops": any(s["kind"] == "plain" and D.NAME2OP[s["ins"][0]] >= 0xFA for s in slots), "slots": n,
                  "backward": any(s["kind"] in ("goto", "if") and s["target"] <= i for i, s in enumerate(slots)),
                  "wild_target": any(s.get("wild") for s in slots), "payload_in_front": bool(front),
                  "many_clauses": any(len(t.handlers) > 60 for t in tries)}
    return m


def make_dex(methods, version=b"039", pad_strings=0, front_nops=0):
    """wrap MethodSpecs in a DEX: class Lg/M; with static methods m0..mk ; -> (bytes, writer, names)"""
    model = W.DexModel()
    model.version = version
    c = model.add_class(CLS)
    c.add_field("sf", "I", W.ACC_STATIC)
    c.add_field("inf", "J", 0)
    c.add_method("callee", "V", (), W.ACC_STATIC | W.ACC_PUBLIC, W.Code(1, 0, 0, [("nop",)] * front_nops + [("return-void",)]))
    names = []
    for i, ms in enumerate(methods):
        nm = "m%d" % i
        names.append(nm)
        code = W.Code(300, 0, 5, ms.insns, ms.tries)
        code.fat_leb = getattr(ms, "fat_leb", None)
        c.add_method(nm, "V", (), W.ACC_STATIC | W.ACC_PUBLIC, code)
    for i in range(pad_strings):
        model.extra_refs.append(W.Str("pad%04d" % i))   # each unused string moves every later section by four bytes
    data, w = W.write_dex(model, want_writer=True)
    return data, w, names
