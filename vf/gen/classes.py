"""Random class-model generator (shared by C04-C07, C13-C17, C24, C37). Produces a vf.model.dexw.DexModel."""
from vf.model import dexw as W

PIECES = ["a", "b", "L", "$", "_", "0", "aL", "La", "ab", "é", "中", "a$b", "x1", "I", "V", "Z", "B"]
PRIMS = ["Z", "B", "S", "C", "I", "J", "F", "D"]
EXTERNAL = ["Ljava/lang/Object;", "Ljava/lang/String;", "Ljava/util/List;", "Ljava/lang/Runnable;", "Ljava/lang/annotation/Retention;", "Lext/E;"]


def ident(rng, first_ok=True):
    n = rng.choice([1, 1, 2, 2, 3])
    s = "".join(rng.choice(PIECES) for _ in range(n))
    if s[0].isdigit():
        s = "n" + s
    return s


def maybe_long(rng, s, p=0.03):
    """now and then an identifier of 127..1000 bytes (deeply nested / generated / mangled names): block sizes of readers show at 128, 256, ..."""
    if rng.random() >= p:
        return s
    target = rng.choice([126, 127, 128, 129, 130, 255, 256, 257, 300, 384, 385, 1000])
    fill = rng.choice(["x", "longname", "é", "pkg0"])
    while len(s.encode("utf-8", "surrogatepass")) < target:
        s += fill
    return s


def class_desc(rng, depth=None):
    depth = rng.choice([0, 1, 1, 2, 3, 4]) if depth is None else depth
    segs = [ident(rng) for _ in range(depth)] + [ident(rng)]
    return "L" + "/".join(segs) + ";"


def rand_type(rng, class_names, allow_void=False):
    r = rng.random()
    if allow_void and r < 0.25:
        return "V"
    if r < 0.5:
        t = rng.choice(PRIMS)
    elif r < 0.8:
        t = rng.choice(class_names + EXTERNAL)
    else:
        t = rng.choice(PRIMS + class_names + EXTERNAL)
        return "[" * rng.choice([1, 1, 2, 3]) + t
    return t


def param_size(t):
    return 2 if t in ("J", "D") else 1


def simple_body(rng, ret, params, static, extra=None):
    """a tiny valid body returning a default value; -> Code"""
    ins = sum(param_size(p) for p in params) + (0 if static else 1)
    locals_ = rng.choice([1, 2, 2, 3, 8, 17]) if ret not in ("J", "D") else rng.choice([2, 3, 9])
    regs = locals_ + ins
    body = list(extra or [])
    if rng.random() < 0.3:
        body.append(("nop",))
    if ret == "V":
        body.append(("return-void",))
    elif ret in ("J", "D"):
        body += [("const-wide/16", 0, rng.randrange(-100, 100)), ("return-wide", 0)]
    elif ret[0] in "L[":
        body += [("const/4", 0, 0), ("return-object", 0)]
    else:
        body += [("const/4", 0, rng.randrange(-8, 8)), ("return", 0)]
    return W.Code(regs, ins, 0, body)


def gen_model(rng, nclasses=None, share_names=True, with_code=True, max_members=6):
    m = W.DexModel()
    n = rng.choice([0, 1, 1, 2, 3, 4, 6]) if nclasses is None else nclasses
    names = []
    while len(names) < n:
        d = class_desc(rng)
        d = maybe_long(rng, d[:-1]) + ";"
        if d not in names and d not in EXTERNAL:
            names.append(d)
    name_pool = [ident(rng) for _ in range(4)]  # member names shared across classes
    for ci, d in enumerate(names):
        iface = rng.random() < 0.15
        acc = rng.choice([W.ACC_PUBLIC, 0, W.ACC_PUBLIC | W.ACC_FINAL, W.ACC_PUBLIC | W.ACC_ABSTRACT])
        if iface:
            acc = W.ACC_PUBLIC | W.ACC_INTERFACE | W.ACC_ABSTRACT
        sup = rng.choice(["Ljava/lang/Object;"] * 3 + names[:ci] + ["Lext/Base;"])
        ifs = []
        for cand in names[:ci] + ["Ljava/lang/Runnable;", "Ljava/io/Serializable;", "Lext/I;"]:
            if rng.random() < 0.15 and cand != sup and cand not in ifs:
                ifs.append(cand)
        src = rng.choice([None, None, maybe_long(rng, ident(rng)) + ".java", "A.java"])
        c = m.add_class(d, acc, sup, ifs, src)
        seen_f = set()
        for _ in range(rng.randrange(0, max_members + 1)):
            nm = rng.choice(name_pool) if (share_names and rng.random() < 0.5) else maybe_long(rng, ident(rng), 0.02)
            ty = rand_type(rng, names)
            if (nm, ty) in seen_f:
                continue
            seen_f.add((nm, ty))
            fa = rng.choice([0, W.ACC_PUBLIC, W.ACC_PRIVATE, W.ACC_PROTECTED | W.ACC_FINAL, W.ACC_VOLATILE, W.ACC_TRANSIENT | W.ACC_PRIVATE])
            if rng.random() < 0.5 or iface:
                fa |= W.ACC_STATIC
            c.add_field(nm, ty, fa)
        seen_m = set()
        for _ in range(rng.randrange(0, max_members + 1)):
            nm = rng.choice(name_pool) if (share_names and rng.random() < 0.5) else maybe_long(rng, ident(rng), 0.02)
            ret = rand_type(rng, names, allow_void=True)
            params = tuple(rand_type(rng, names) for _ in range(rng.choice([0, 0, 1, 2, 3, 5])))
            if (nm, ret, params) in seen_m:
                continue
            seen_m.add((nm, ret, params))
            kind = rng.random()
            ma = rng.choice([W.ACC_PUBLIC, W.ACC_PROTECTED, 0, W.ACC_PUBLIC | W.ACC_FINAL, W.ACC_PUBLIC | W.ACC_SYNCHRONIZED])
            code = None
            if iface or kind < 0.15:
                ma = W.ACC_PUBLIC | W.ACC_ABSTRACT
            elif kind < 0.25:
                ma |= W.ACC_NATIVE
                if rng.random() < 0.5:
                    ma |= W.ACC_STATIC
            else:
                if kind < 0.5:
                    ma |= W.ACC_STATIC
                elif kind < 0.6:
                    ma = W.ACC_PRIVATE
                if with_code:
                    code = simple_body(rng, ret, params, bool(ma & W.ACC_STATIC))
                else:
                    ma |= W.ACC_NATIVE
            c.add_method(nm, ret, params, ma, code)
        if rng.random() < 0.4 and not iface and with_code:
            c.add_method("<init>", "V", (), W.ACC_PUBLIC | W.ACC_CONSTRUCTOR,
                         W.Code(1, 1, 1, [("invoke-direct", [0], W.Mth(sup, "<init>", "V", ())), ("return-void",)]))
    return m


def enrich(rng, m):
    """add the optional sections a real DEX has: class/field/method annotations with every reference kind of value (incl. VALUE_METHOD, which
    makes the annotation section depend on the method ids), static initial values (encoded arrays) and debug info items"""
    for c in m.classes:
        if rng.random() < 0.6:
            els = [("value", W.EV(W.V_STRING, "s" + ident(rng))), ("t", W.EV(W.V_TYPE, rng.choice(EXTERNAL))), ("n", W.EV(W.V_INT, rng.randrange(-5, 5)))]
            meths = c.direct_methods + c.virtual_methods
            if meths:
                els.append(("m", W.EV(W.V_METHOD, rng.choice(meths).ref)))
            flds = c.static_fields + c.instance_fields
            if flds:
                els.append(("f", W.EV(W.V_FIELD, rng.choice(flds).ref)))
                els.append(("e", W.EV(W.V_ENUM, rng.choice(flds).ref)))
            els.append(("arr", W.EV(W.V_ARRAY, [W.EV(W.V_INT, 1), W.EV(W.V_STRING, "x")])))
            rng.shuffle(els)
            c.annotations.append(W.Annotation("Ldalvik/annotation/EnclosingMethod;" if rng.random() < 0.5 else "Lann/A;", els[: rng.randrange(1, len(els) + 1)], visibility=rng.choice([0, 1, 2])))
        for f in c.static_fields:
            if f.type in ("I", "S", "B", "J") and rng.random() < 0.5:
                f.init = W.EV({"I": W.V_INT, "S": W.V_SHORT, "B": W.V_BYTE, "J": W.V_LONG}[f.type], rng.randrange(-100, 100))
            elif f.type == "Ljava/lang/String;" and rng.random() < 0.5:
                f.init = W.EV(W.V_STRING, "init" + ident(rng))
            if rng.random() < 0.2:
                f.annotations.append(W.Annotation("Lann/F;", [("v", W.EV(W.V_BOOLEAN, True))]))
        for mt in c.direct_methods + c.virtual_methods:
            if mt.code is not None and rng.random() < 0.4:
                mt.code.debug = {"line_start": rng.randrange(1, 500), "param_names": [rng.choice([None, "p" + ident(rng)]) for _ in mt.params], "ops": [0x01, 0x02, 0x0A] if rng.random() < 0.5 else []}
            if rng.random() < 0.2:
                mt.annotations.append(W.Annotation("Lann/M;", [("who", W.EV(W.V_METHOD, mt.ref))]))
    if m.classes and rng.random() < 0.3:
        # DEX 038+: method handles and call sites (what d8 writes for lambdas / string concatenation): two more id sections in the map, call_site_items
        # among the encoded arrays, method-handle and method-type constants in them
        m.version = rng.choice([b"038", b"039"])
        meths = [mt for c in m.classes for mt in c.direct_methods + c.virtual_methods]
        flds = [f for c in m.classes for f in c.static_fields]
        for _ in range(rng.randrange(1, 4)):
            if meths and (not flds or rng.random() < 0.7):
                m.method_handles.append((rng.choice([4, 5, 6, 8]), rng.choice(meths).ref))     # invoke-static/instance/constructor/interface
            elif flds:
                m.method_handles.append((rng.choice([0, 1]), rng.choice(flds).ref))             # static-put / static-get
            else:
                m.method_handles.append((4, W.Mth("Ljava/lang/invoke/LambdaMetafactory;", "metafactory", "Ljava/lang/invoke/CallSite;", ())))
        for _ in range(rng.randrange(0, 3)):
            m.call_sites.append([W.EV(W.V_METHOD_HANDLE, rng.randrange(len(m.method_handles))), W.EV(W.V_STRING, "site" + ident(rng)),
                                 W.EV(W.V_METHOD_TYPE, W.Pro(rng.choice(["V", "I"]), rng.choice([(), ("I",)])))]
                                + [W.EV(W.V_INT, rng.randrange(-3, 3)) for _ in range(rng.randrange(0, 2))])
    return m
