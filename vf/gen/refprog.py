"""Reference program generator (C13-C16): classes whose method bodies are made of invoke-*, field access, const-string, new-instance and
const-class instructions on internal, external and array types; the model records every (method, offset, opcode, target)."""
from vf.model import dalvik as D
from vf.model import dexw as W

SFX = ["", "-wide", "-object", "-boolean", "-byte", "-char", "-short"]
TYPE_FOR_SFX = {"": "I", "-wide": "J", "-object": "Ljava/lang/String;", "-boolean": "Z", "-byte": "B", "-char": "C", "-short": "S"}
STRINGS = ["hello", "", "shared", "x", "héllo", "a\nb", "shared2"]


class ClassSpec:
    def __init__(self, name):
        self.name = name
        self.access = W.ACC_PUBLIC
        self.sfields = []  # (name, type)
        self.ifields = []
        self.methods = []  # MethodSpec


class MethodSpec:
    def __init__(self, cls, name, ret, params, static):
        self.cls, self.name, self.ret, self.params, self.static = cls, name, ret, tuple(params), static
        self.insns = []
        self.sites = []  # (offset_bytes, kind, opname, target)

    @property
    def key(self):
        return (self.cls, self.name, "(%s)%s" % ("".join(self.params), self.ret))


def mkey(m):
    return (m.cls, m.name, "(%s)%s" % ("".join(m.params), m.ret))


def gen_program(rng, nclasses=None):
    n = nclasses or rng.choice([1, 2, 3, 4, 6])
    classes = []
    for i in range(n):
        # the last of >= 3 classes gets a name with the characters D8/R8 and package-info classes use ('-', '$')
        c = ClassSpec("Lr/K%d;" % i if not (n >= 3 and i == n - 1) else rng.choice(["Lr/K%d;" % i, "Lr/-$$Lambda$K%d$x;" % i, "Lr/package-info;", "Lr/my-lib/K%d;" % i, "Lr/Ké%d;" % i]))
        # every kind of class can carry code: interfaces (static / default methods, <clinit>), annotations, enums, abstract and synthetic classes
        c.access = rng.choice([W.ACC_PUBLIC] * 4 + [0, W.ACC_PUBLIC | W.ACC_FINAL, W.ACC_PUBLIC | W.ACC_ABSTRACT, W.ACC_PUBLIC | W.ACC_INTERFACE | W.ACC_ABSTRACT,
                               W.ACC_INTERFACE | W.ACC_ABSTRACT, W.ACC_PUBLIC | W.ACC_INTERFACE | W.ACC_ABSTRACT | W.ACC_ANNOTATION, W.ACC_PUBLIC | W.ACC_FINAL | W.ACC_ENUM,
                               W.ACC_SYNTHETIC])
        used = set()
        for j in range(rng.randrange(0, 4)):
            sfx = rng.choice(SFX)
            nm = rng.choice(["f", "g", "shared"]) + str(j if rng.random() < 0.7 else 0)
            if (nm, TYPE_FOR_SFX[sfx]) in used:
                continue
            used.add((nm, TYPE_FOR_SFX[sfx]))
            (c.sfields if rng.random() < 0.5 else c.ifields).append((nm, TYPE_FOR_SFX[sfx]))
        holder = i > 0 and rng.random() < 0.12      # a constant-holder class: fields only, no method at all
        if holder and not (c.sfields or c.ifields):
            c.sfields.append(("held", "I"))
        for j in range(0 if holder else rng.randrange(1, 4)):
            static = rng.random() < 0.5
            c.methods.append(MethodSpec(c.name, rng.choice(["m", "run", "shared"]) + str(j), rng.choice(["V", "I"]), rng.choice([(), ("I",), ("J", "I")]), static))
            # any legal combination of the remaining method flags (methods with code): final, synchronized, strictfp, synthetic, bridge, varargs ...
            c.methods[-1].extra_flags = rng.choice([0, 0, 0, W.ACC_FINAL, W.ACC_SYNCHRONIZED, W.ACC_STRICT, W.ACC_SYNTHETIC, W.ACC_BRIDGE | W.ACC_SYNTHETIC, W.ACC_VARARGS,
                                                    W.ACC_DECLARED_SYNCHRONIZED, W.ACC_STRICT | W.ACC_FINAL, W.ACC_SYNTHETIC | W.ACC_STRICT])
        if holder:
            classes.append(c)
            continue
        if rng.random() < 0.3:
            # a method whose name is one of the string constants the code loads (reflection-style: getMethod("hello"))
            c.methods.append(MethodSpec(c.name, rng.choice(["hello", "shared", "x", "shared2"]), "V", ("J", "J", "J"), True))
            c.methods[-1].stub = True
        if rng.random() < 0.25:
            c.methods.append(MethodSpec(c.name, "<clinit>", "V", (), True))
        if rng.random() < 0.25:
            c.methods.append(MethodSpec(c.name, "<init>", "V", rng.choice([(), ("I",)]), False))
        classes.append(c)
    ext_methods = [W.Mth("Lext/E;", "em", "V", ()), W.Mth("Lext/E;", "em", "I", ("I",)), W.Mth("Ljava/lang/Object;", "toString", "Ljava/lang/String;", ()),
                   W.Mth("Lr/K0;", "notDefined", "V", ())]
    arr_methods = [W.Mth("[I", "clone", "Ljava/lang/Object;", ()), W.Mth("[Lr/K0;", "clone", "Ljava/lang/Object;", ()), W.Mth("[[Lext/E;", "clone", "Ljava/lang/Object;", ())]
    ext_fields = [("Lext/E;", "ef", "I", True), ("Lr/K0;", "notDefinedField", "I", True)]
    all_methods = [m for c in classes for m in c.methods]
    all_sfields = [(c.name, f[0], f[1]) for c in classes for f in c.sfields]
    all_ifields = [(c.name, f[0], f[1]) for c in classes for f in c.ifields]
    for c in classes:
        for m in c.methods:
            if getattr(m, "stub", False):
                m.insns.append(("return-void",))
                continue
            pos = 0
            nins = rng.choice([1, 3, 6, 12])
            for _ in range(nins):
                if rng.random() < 0.06:
                    # a data payload in the MIDDLE of the code, jumped over by a goto (legal; rewriters and obfuscators emit it): the
                    # instructions after it are ordinary code
                    pay = rng.choice([D.fill_array_payload(1, b"\x01\x02\x03"), D.packed_switch_payload(0, []), D.sparse_switch_payload([], []), D.fill_array_payload(4, b"")])
                    if pos % 2 == 0:
                        m.insns.append(("nop",))
                        pos += 1
                    m.insns.append(("goto", 1 + len(pay)))
                    pos += 1
                    m.insns.extend(pay)
                    pos += len(pay)
                r = rng.random()
                ins = None
                site = None
                if r < 0.35:
                    # invoke
                    pool = rng.random()
                    if pool < 0.6 and all_methods:
                        t = rng.choice(all_methods)
                        tgt = W.Mth(t.cls, t.name, t.ret, t.params)
                        st = t.static
                    elif pool < 0.85:
                        tgt = rng.choice(ext_methods)
                        st = rng.random() < 0.5
                    else:
                        tgt = rng.choice(arr_methods)
                        st = False
                    kind = rng.choice(["static"] if st else ["virtual", "super", "direct", "interface"])
                    rangef = rng.random() < 0.3
                    nreg = rng.randrange(0, 4)
                    if rangef:
                        ins = ("invoke-%s/range" % kind, rng.randrange(0, 8), nreg, tgt)
                    else:
                        ins = ("invoke-%s" % kind, [rng.randrange(8) for _ in range(nreg)], tgt)
                    site = ("invoke", ins[0], (tgt.cls, tgt.name, "(%s)%s" % ("".join(tgt.params), tgt.ret)))
                elif r < 0.6:
                    # field access
                    pool = rng.random()
                    static_acc = rng.random() < 0.5
                    cand = all_sfields if static_acc else all_ifields
                    same = [f for f in cand if f[0] == c.name]
                    other = [f for f in cand if f[0] != c.name]
                    if pool < 0.4 and same:
                        f = rng.choice(same)
                    elif pool < 0.8 and other:
                        f = rng.choice(other)
                    elif cand and pool < 0.9:
                        f = rng.choice(cand)
                    else:
                        e = rng.choice(ext_fields)
                        f = (e[0], e[1], e[2])
                    sfx = [k for k, v in TYPE_FOR_SFX.items() if v == f[2]][0]
                    rw = rng.choice(["get", "put"])
                    name = ("s" if static_acc else "i") + rw + sfx
                    fr = W.Fld(f[0], f[1], f[2])
                    ins = (name, rng.randrange(8), fr) if static_acc else (name, rng.randrange(8), rng.randrange(8), fr)
                    site = ("field-" + ("read" if rw == "get" else "write"), name, f)
                elif r < 0.75:
                    s = rng.choice(STRINGS)
                    name = rng.choice(["const-string", "const-string", "const-string/jumbo"])
                    ins = (name, rng.randrange(8), W.Str(s))
                    site = ("string", name, s)
                elif r < 0.85:
                    t = rng.choice([k.name for k in classes] + ["Lext/E;", "Lext/Other;", "Lext/-$$Lambda$E$1;", "Lext/my-lib/X;"])
                    ins = ("new-instance", rng.randrange(8), W.Typ(t))
                    site = ("new-instance", "new-instance", t)
                elif r < 0.95:
                    t = rng.choice([k.name for k in classes] + ["Lext/E;", "[I", "[[J", "[Lr/K0;", "[Lext/E;", "Ljava/lang/String;", "[[Lr/K0;", "[[[Lext/E;", "[[Lr/K1;", "[Lr/K1;", "Lext/package-info;", "[Lext/-$$Lambda$E$1;", "Lext/my-lib/X;"])
                    ins = ("const-class", rng.randrange(8), W.Typ(t))
                    site = ("const-class", "const-class", t)
                elif r < 0.97 and all_methods:
                    # invoke-custom takes a CALL-SITE index (not a method index): whatever method happens to have that index is not called
                    ins = rng.choice([("invoke-custom", [rng.randrange(8)], rng.randrange(0, 6)), ("invoke-custom/range", rng.randrange(8), 1, rng.randrange(0, 6))])
                else:
                    ins = rng.choice([("nop",), ("const/4", 0, 1), ("const-wide", 0, 12345678901)])
                m.insns.append(ins)
                if site:
                    m.sites.append((pos * 2,) + site)
                pos += D.FORMAT_UNITS[D.OPCODES[D.NAME2OP[ins[0]]][1]]
            m.insns.append(("return-void",) if m.ret == "V" else ("const/4", 0, 0))
            if m.ret != "V":
                m.insns.append(("return", 0))
    return classes


def add_code_twins(classes, rng):
    """Opt-in (own rng, the programs of gen_program stay what they are): give some methods a TWIN - a further method with the very same body
    (same instruction objects, same register / ins size, hence a byte-identical code_item) under another name or another descriptor of the same
    width, in the same class or in another one. A writer that deduplicates code items (dexw option share_identical_code_items) then makes the
    twins share ONE code_item (identical code_off in several encoded_method entries - what dexlayout / D8 emit for identical bodies). Every twin has
    its own sites: each instruction of the shared code is an instruction of BOTH methods. Returns the list of (original, twin) MethodSpecs."""
    keys = {m.key for c in classes for m in c.methods}
    same_width = {("I",): [("F",), ("Z",), ("Ljava/lang/Object;",)], ("J", "I"): [("D", "I"), ("I", "J"), ("I", "I", "I")]}
    pairs = []
    for c in list(classes):
        for m in list(c.methods):
            if m.name.startswith("<") or getattr(m, "twin_of", None) or rng.random() >= 0.4:
                continue
            for _ in range(rng.choice([1, 1, 2])):
                home = c if rng.random() < 0.7 or len(classes) < 2 else rng.choice(classes)
                if not home.methods:
                    home = c        # a constant-holder class stays without methods
                how = rng.randrange(3)
                name, params = m.name, m.params
                if how == 0 and m.params in same_width:
                    params = rng.choice(same_width[m.params])        # an overload: same name, other descriptor of the same register width
                elif how <= 1:
                    name = m.name + rng.choice(["$twin", "Copy", "_"])
                else:
                    name = rng.choice(["a", "zz", "shared"]) + m.name   # sorts before / after the original in the method_id pool
                t = MethodSpec(home.name, name, m.ret, params, m.static)
                if t.key in keys:
                    continue
                keys.add(t.key)
                t.insns = m.insns                   # the same list: the same instruction (and reference) objects
                t.sites = list(m.sites)
                t.extra_flags = getattr(m, "extra_flags", 0)
                t.twin_of = m
                if getattr(m, "stub", False):
                    t.twin_of_stub = True           # (not .stub: the rename hook of C15 looks for the one stub only)
                home.methods.insert(rng.randrange(len(home.methods) + 1), t)
                pairs.append((m, t))
    return pairs


def to_model(classes):
    model = W.DexModel()
    for c in classes:
        k = model.add_class(c.name, c.access)
        for nm, ty in c.sfields:
            k.add_field(nm, ty, W.ACC_STATIC | W.ACC_PUBLIC)
        for nm, ty in c.ifields:
            k.add_field(nm, ty, W.ACC_PUBLIC)
        for m in c.methods:
            k.add_method(m.name, m.ret, m.params, (W.ACC_STATIC if m.static else 0) | (W.ACC_CONSTRUCTOR if m.name.startswith("<") else W.ACC_PUBLIC) | getattr(m, "extra_flags", 0), W.Code(16, sum(2 if p in "JD" else 1 for p in m.params) + (0 if m.static else 1), 4, m.insns))
    return model
