"""C35 parsers terminate on every input: byte-level mutations, truncations and crafted count/offset fields of valid generated and shipped
DEX / binary-XML / resource-table / APK files, each parsed by the real code under a sys.monitoring step budget calibrated on the valid
seeds (100x the linear envelope). Any exception is an acceptable outcome; only a budget overrun is a violation; a wall-clock watchdog on the
shard is inconclusive."""
import glob
import io
import os
import resource
import struct
import zipfile

from vf.gen import classes as G
from vf.harness import exc_str
from vf.model import dexw as W
from vf.monitor import steps

MOD = "vf.checks.c35"


# ---------------------------------------------------------------------------------------------------- seeds
def dex_seeds(rng):
    out = []
    for _ in range(4):
        m = G.gen_model(rng, nclasses=rng.choice([1, 2, 3]), max_members=3)
        out.append(("generated", W.write_dex(m)))
    for p in sorted(glob.glob("/repo/tests/data/APK/*.dex")):
        if os.path.getsize(p) < 4000:
            out.append((os.path.basename(p), open(p, "rb").read()))
    return out


def axml_seeds():
    out = []
    for p in sorted(glob.glob("/repo/tests/data/AXML/*.xml")):
        if os.path.getsize(p) < 13000:
            out.append((os.path.basename(p), open(p, "rb").read()))
    return out


def arsc_seeds():
    out = []
    for p in sorted(glob.glob("/repo/tests/data/APK/*.apk")) + sorted(glob.glob("/repo/tests/data/AXML/*.apk")):
        try:
            if os.path.getsize(p) == 0 or os.path.getsize(p) > 200000:
                continue
            with zipfile.ZipFile(p) as z:
                if "resources.arsc" in z.namelist():
                    b = z.read("resources.arsc")
                    if len(b) < 60000:
                        out.append((os.path.basename(p), b))
        except Exception:
            pass
    return out


def apk_seeds():
    out = []
    for p in sorted(glob.glob("/repo/tests/data/APK/*.apk")):
        if 0 < os.path.getsize(p) < 20000:
            out.append((os.path.basename(p), open(p, "rb").read()))
    # generated archives whose manifest declares every min / target SDK level 1..40 (the constructor loads per-level data for them) and long,
    # unusual tag and attribute names
    from vf.model import apkw
    from vf.model import axmlw as AW
    A = "http://schemas.android.com/apk/res/android"
    for lvl in range(1, 41):
        sdk = AW.Elem(None, "uses-sdk", attrs=[AW.Attr(A, "minSdkVersion", AW.TYPE_INT_DEC, data=max(1, lvl - 3), resid=0x0101020C),
                                               AW.Attr(A, "targetSdkVersion", AW.TYPE_INT_DEC, data=lvl, resid=0x01010270)])
        app = AW.Elem(None, "application", children=[AW.Elem(None, "activity", attrs=[AW.Attr(A, "name", AW.TYPE_STRING, value=".Main", resid=0x01010003)])])
        root = AW.Elem(None, "manifest", nsdecls=[("android", A)], attrs=[AW.Attr(None, "package", AW.TYPE_STRING, value="p.sdk%d" % lvl)], children=[sdk, app])
        man = AW.build(AW.Doc(root, utf8=bool(lvl % 2)))
        out.append(("generated-sdk-%d.apk" % lvl, apkw.build_zip([apkw.Entry("AndroidManifest.xml", man, apkw.DEFLATED), apkw.Entry("classes.dex", b"", apkw.STORED)])))
    return out


# ---------------------------------------------------------------------------------------------------- real calls
def parse_dex(b):
    from androguard.core import dex
    d = dex.DEX(b)
    n = 0
    for c in d.get_classes():
        for m in c.get_methods():
            n += 1
            if n > 40:
                return
            if m.get_code() is not None:
                for _ in m.get_instructions():
                    pass
                try:
                    dbg = m.get_debug()
                    if dbg is not None:
                        dbg.get_bytecodes()
                except Exception:
                    pass
    d.get_strings()


def parse_axml(b):
    from androguard.core import axml
    a = axml.AXMLPrinter(b)
    a.get_xml()


def parse_arsc(b):
    from androguard.core import axml
    a = axml.ARSCParser(b)
    for p in a.get_packages_names()[:2]:
        a.get_locales(p)
        a.get_types(p)
        try:
            a.get_string_resources(p)
        except Exception:
            pass
    n = 0
    for rid in list(getattr(a, "resource_values", {}).keys())[:5]:
        a.get_resolved_res_configs(rid)
        n += 1


def parse_apk(b):
    from androguard.core import apk
    a = apk.APK(b, raw=True)
    a.get_files()
    a.get_package()
    try:
        a.get_app_name()
    except Exception:
        pass
    a.get_permissions()
    a.get_activities()


def parse_apksig(b):
    """the lazily parsed part of an APK: the APK Signing Block (v2 / v3 / v3.1 signers)"""
    from androguard.core import apk
    SIG_OUTCOME.clear()
    a = apk.APK(b, raw=True)
    for q in ("is_signed_v2", "is_signed_v3", "is_signed_v31", "get_certificates_der_v2", "get_certificates_der_v3", "get_certificates_der_v31",
              "get_public_keys_der_v2", "get_public_keys_der_v3", "get_public_keys_der_v31", "has_duplicate_apk_signature_ids"):
        try:
            getattr(a, q)()
            SIG_OUTCOME[q] = "returned"
        except steps.BudgetExceeded:
            raise
        except Exception as e:
            SIG_OUTCOME[q] = type(e).__name__
            # the other queries still run on the same object (a half-parsed block must not make a later query loop)


SIG_OUTCOME = {}     # query -> "returned" / exception type name, of the last parse_apksig call


PARSERS = {"dex": parse_dex, "axml": parse_axml, "arsc": parse_arsc, "apk": parse_apk, "apksig": parse_apksig}


def apksig_seeds(rng):
    """small generated APKs carrying generated APK Signing Blocks (writer of C33) + the shipped small signed APKs"""
    from vf.checks import c33
    from vf.model import sigblockw as S
    out = []
    for k in range(24):
        pairs, model, feats = c33.gen_case(rng, k | 1 if k % 3 else k, None)   # mostly with a v2 block
        raw = S.insert_signing_block(c33.base_apk(rng), S.encode_signing_block(pairs))
        if len(raw) < 20000:
            out.append(("generated-sigblock-%d" % k, raw))
    for name, data in apk_seeds():
        try:
            if S.locate_signing_block(data) is not None:
                out.append((name, data))
        except Exception:
            pass
    return out


def mutate_sigblock(rng, seed):
    """hostile length / count fields inside the APK Signing Block: every structure there is a length-prefixed sequence of length-prefixed
    elements, so a u32 at any byte offset may be a length; +-small keeps the rest of the block plausible"""
    from vf.model import sigblockw as S
    b = bytearray(seed)
    try:
        loc = S.locate_signing_block(seed)
    except Exception:
        loc = None
    if loc is None or len(loc[1]) < 48:
        return bytes(b), "no-block"
    start, block = loc
    lo, hi = start + 8, start + len(block) - 24 - 4
    mode = rng.choice(["len-plus", "len-plus", "len-minus", "len-huge", "len-zero", "len-to-end", "cut-inside-block", "bytes-after-eocd", "eocd-comment-length-too-small"])
    if mode == "bytes-after-eocd":
        # data appended to the archive / not covered by the comment length: the signing block is still found through the last EOCD
        return bytes(b) + bytes(rng.choice([0, 0x50, rng.randrange(256)]) for _ in range(rng.choice([1, 2, 3, 4, 22, 40, 300]))), mode
    if mode == "eocd-comment-length-too-small":
        e = bytes(b).rfind(b"PK\x05\x06")
        if e >= 0:
            extra = bytes(rng.randrange(0x20, 0x7F) for _ in range(rng.choice([3, 5, 30])))
            b += extra       # the comment grows, its length field does not
            return bytes(b), mode
    # prefer offsets that hold a plausible length (value smaller than the block)
    cands = [p for p in range(lo, hi) if struct.unpack_from("<I", b, p)[0] <= len(block)]
    p = rng.choice(cands) if cands and rng.random() < 0.8 else rng.randrange(lo, hi)
    (old,) = struct.unpack_from("<I", b, p)
    if mode == "len-plus":
        new = old + rng.choice([1, 2, 3, 4, 8, 12, 64, 1000])
    elif mode == "len-minus":
        new = max(0, old - rng.choice([1, 2, 3, 4, 8, 12]))
    elif mode == "len-huge":
        new = rng.choice([0xFFFFFFFF, 0x7FFFFFFF, 0x80000000, 0x00FFFFFF])
    elif mode == "len-zero":
        new = 0
    elif mode == "len-to-end":
        new = start + len(block) - p + rng.choice([-8, -4, 0, 4])
    else:
        # the pair value ends early: zero the rest of the block body (sizes stay consistent)
        for q in range(p, hi + 4):
            b[q] = 0
        return bytes(b), mode
    struct.pack_into("<I", b, p, new & 0xFFFFFFFF)
    return bytes(b), mode


def sigblock_pairwalk(rng, seed):
    """The walk over the ID-value pairs: every pair starts with a uint64 length and the position of the next pair is derived from it, so the length of
    one pair decides where the walk continues. The block is rebuilt with a few more (unknown-ID / padding) pairs, stays well-formed (both size fields and
    the magic match, it sits directly in front of the central directory), and ONE pair gets a length computed from the place where the walk is meant to
    continue, modulo 2**64: the pair itself, an earlier pair, the start of the block, a later pair, the end of the pairs, the middle of a pair,
    somewhere in front of the block - or one of the boundary values of a 64-bit length (around 0, 2**31, 2**32, 2**63, 2**64).
    -> (bytes, how, cls, the same file with the original length in that pair); cls 'backward' = the length has its top bit set and, read as a two's complement number, continues on this or an earlier pair,
    'forward' = the length is that of a well-formed block whose pair covers some of the following pairs (must parse)."""
    from vf.model import sigblockw as S
    try:
        loc = S.locate_signing_block(seed)
        pairs = S.parse_pairs(loc[1]) if loc is not None else None
    except Exception:
        pairs = None
    if not pairs:
        return bytes(seed), "no-block", None, None
    start, old = loc
    pairs = list(pairs)
    for _ in range(rng.choice([0, 1, 2, 3])):
        pid = rng.choice([0x12345678, S.PAD_ID, 0x504B4453, rng.getrandbits(32)])
        val = bytes(rng.choice([0, 65, rng.randrange(256)]) for _ in range(rng.choice([0, 1, 4, 8, 12, 20, 32, 64])))
        if len(val) % 2 and rng.random() < 0.5:
            val = b"\0" * len(val)
        pairs.insert(rng.randint(0, len(pairs)), (pid, val))
    block = bytearray(S.encode_signing_block(pairs))
    offs = []
    p = 8
    for pid, val in pairs:
        offs.append(p)
        p += 12 + len(val)
    end = p
    assert end == len(block) - 24
    j = rng.randrange(len(pairs))
    here = offs[j] + 8           # the length of pair j counts from here
    mode = rng.choice(["next-pair-is-this-pair", "next-pair-is-this-pair", "next-pair-is-an-earlier-pair", "next-pair-is-an-earlier-pair", "next-pair-is-the-first-pair",
                       "continues-at-the-size-field", "continues-in-front-of-the-block", "continues-inside-an-earlier-pair", "continues-inside-this-pair",
                       "covers-following-pairs", "covers-following-pairs", "covers-all-following-pairs", "continues-inside-a-later-pair", "ends-12-bytes-before-the-end",
                       "boundary-value", "boundary-value", "boundary-value-plus-own-length"])
    cls = None
    if mode == "next-pair-is-this-pair":
        t = offs[j]
    elif mode == "next-pair-is-an-earlier-pair":
        t = offs[rng.randint(0, j)]
    elif mode == "next-pair-is-the-first-pair":
        t = offs[0]
    elif mode == "continues-at-the-size-field":
        t = 0
    elif mode == "continues-in-front-of-the-block":
        t = -rng.choice([1, 8, 12, start, start + 1, start + 8, start + 4096])
    elif mode == "continues-inside-an-earlier-pair":
        t = rng.randrange(8, offs[j] + 1)
    elif mode == "continues-inside-this-pair":
        t = rng.randrange(offs[j], here + 4 + len(pairs[j][1]) + 1)
    elif mode == "covers-following-pairs":
        t = rng.choice(offs[j + 1:] + [end])
    elif mode == "covers-all-following-pairs":
        t = end
    elif mode == "continues-inside-a-later-pair":
        t = rng.randrange(min(here + 4, end), end + 1)
    elif mode == "ends-12-bytes-before-the-end":
        t = end - rng.choice([1, 4, 8, 11, 12])
    else:
        t = None
    if t is not None:
        new = (t - here) % 2 ** 64
    else:
        new = rng.choice([0, 1, 3, 4, 5, 11, 12, 2 ** 31 - 1, 2 ** 31, 2 ** 32 - 1, 2 ** 32, 2 ** 32 + 4 + len(pairs[j][1]), 2 ** 63 - 1, 2 ** 63, 2 ** 63 + 4, 2 ** 63 + 8,
                          2 ** 63 + 12, 2 ** 64 - 1, 2 ** 64 - 3, 2 ** 64 - 4, 2 ** 64 - 8, 2 ** 64 - 12, 2 ** 64 - 16, 2 ** 64 - 20, 2 ** 64 - 24, 0xFF00000000000000, 0x8000000000000000 | (4 + len(pairs[j][1]))])
        if mode == "boundary-value-plus-own-length":
            new = (new + 4 + len(pairs[j][1])) % 2 ** 64
    # offsets are relative to the block, so is the arithmetic (the block is far smaller than 2**63)
    if new >= 2 ** 63 and here + new - 2 ** 64 in offs[:j + 1]:
        cls = "backward"
    elif 4 <= new < 2 ** 63 and here + new in offs[j + 1:] + [end]:
        cls = "forward"
    # put the block in the place of the old one; the central directory moves
    out = bytearray(seed[:start] + bytes(block) + seed[start + len(old):])
    eocd = S.find_eocd(seed) + len(block) - len(old)
    struct.pack_into("<I", out, eocd + 16, start + len(block))
    ref = bytes(out)
    struct.pack_into("<Q", out, start + offs[j], new)
    return bytes(out), mode, cls, ref


# ---------------------------------------------------------------------------------------------------- mutators
def fix_dex(b):
    if len(b) >= 0x70:
        try:
            return W.fix_checksum(bytes(b))
        except Exception:
            return bytes(b)
    return bytes(b)


def mutate(rng, kind, seed):
    b = bytearray(seed)
    n = len(b)
    mode = rng.choice(["byte", "byte", "bit", "trunc", "maxfield", "maxfield", "splice", "zero-run", "swap"])
    if n == 0:
        return bytes(b), mode
    if mode == "byte":
        for _ in range(rng.choice([1, 1, 2, 4, 16])):
            b[rng.randrange(n)] = rng.choice([0, 0xFF, 0x80, 0x7F, rng.randrange(256)])
    elif mode == "bit":
        p = rng.randrange(n)
        b[p] ^= 1 << rng.randrange(8)
    elif mode == "trunc":
        b = b[: rng.randrange(n)]
    elif mode == "maxfield":
        # a 4-byte (or 2-byte) aligned field gets a hostile count/size/offset
        for _ in range(rng.choice([1, 1, 2])):
            if n >= 8:
                p = rng.randrange(0, n - 4) & ~3
                v = rng.choice([0xFFFFFFFF, 0x7FFFFFFF, 0x80000000, n, n + 1, n - 1, 0, 1, p, max(0, p - 4), 0xFFFF, 0x10000])
                if rng.random() < 0.2:
                    struct.pack_into("<H", b, p, v & 0xFFFF)
                else:
                    struct.pack_into("<I", b, p, v & 0xFFFFFFFF)
    elif mode == "splice":
        p = rng.randrange(n)
        q = rng.randrange(n)
        ln = rng.randrange(1, 64)
        b[p:p] = b[q:q + ln]
    elif mode == "zero-run":
        p = rng.randrange(n)
        ln = rng.randrange(1, 64)
        b[p:p + ln] = bytes(len(b[p:p + ln]))
    elif mode == "swap":
        p, q = rng.randrange(n), rng.randrange(n)
        b[p], b[q] = b[q], b[p]
    if kind == "dex":
        return fix_dex(b), mode
    return bytes(b), mode


def crafted(rng, kind, seed):
    """targeted hostile files"""
    if kind == "dex":
        b = bytearray(seed)
        choice = rng.choice(["unterminated-string-at-eof", "string-count-max", "map-size-max", "class-defs-max", "string-off-eof", "unaligned-end-and-code-past-eof",
                             "code-section-offset-unaligned-past-eof"])
        if choice in ("unaligned-end-and-code-past-eof", "code-section-offset-unaligned-past-eof"):
            # file length not a multiple of 4 / a code section announced at an unaligned offset behind the end, while more code items are expected
            mo = struct.unpack_from("<I", b, 52)[0]
            if mo + 4 <= len(b):
                cnt = struct.unpack_from("<I", b, mo)[0]
                for e in range(min(cnt, 40)):
                    t, _, size, off = struct.unpack_from("<HHII", b, mo + 4 + 12 * e)
                    if t == 0x2001 and off + 16 <= len(b):
                        if choice == "unaligned-end-and-code-past-eof":
                            struct.pack_into("<I", b, off + 12, rng.choice([0x7FFFFFFF, (len(b) - off) // 2 + 5, 0x100000]))   # insns_size of the first code item
                            struct.pack_into("<I", b, mo + 4 + 12 * e + 4, size + rng.choice([1, 2, 50]))
                        else:
                            struct.pack_into("<I", b, mo + 4 + 12 * e + 8, len(b) + rng.choice([1, 3, 5, 1001]))
                        break
            b += bytes(rng.choice([1, 2, 3]))
            struct.pack_into("<I", b, 32, len(b))
            return fix_dex(b), choice
        if choice == "unterminated-string-at-eof":
            # point a string id at data appended at the end of the file without a NUL terminator
            ss, so = struct.unpack_from("<II", b, 56)
            if ss:
                off = len(b)
                b += bytes([5]) + b"ABCDE" * rng.choice([1, 30])
                struct.pack_into("<I", b, so + 4 * rng.randrange(ss), off)
                struct.pack_into("<I", b, 32, len(b))
        elif choice == "string-count-max":
            struct.pack_into("<I", b, 56, rng.choice([0xFFFFFFFF, 0x7FFFFFFF, 0x10000000]))
        elif choice == "class-defs-max":
            struct.pack_into("<I", b, 96, rng.choice([0xFFFFFFFF, 0x7FFFFFFF, 0x1000000]))
        elif choice == "map-size-max":
            mo = struct.unpack_from("<I", b, 52)[0]
            if mo + 4 <= len(b):
                struct.pack_into("<I", b, mo, rng.choice([0xFFFFFFFF, 0x7FFFFFFF, 0x100000]))
        elif choice == "string-off-eof":
            ss, so = struct.unpack_from("<II", b, 56)
            if ss:
                struct.pack_into("<I", b, so + 4 * rng.randrange(ss), rng.choice([len(b) - 1, len(b), len(b) + 1, 0xFFFFFFFF]))
        return fix_dex(b), choice
    if kind == "axml" and rng.random() < 0.25:
        # a namespace prefix that is no XML name (lxml rejects it; the printer then tries to repair the prefix map)
        from vf.model import axmlw as AW
        bad = rng.choice(["a\tb", "and'roid", "andr\x7fid", "a\\b", "a\nb", "a\rb", "<!--", "1a", "a b", "a:b", "a\"b", "é\t", "x\x0by"])
        root = AW.Elem(None, "manifest", nsdecls=[(bad, "http://schemas.android.com/apk/res/android")] + ([("ok", "urn:ok")] if rng.random() < 0.5 else []),
                       attrs=[AW.Attr(None, "package", AW.TYPE_STRING, value="p.q")], children=[AW.Elem(None, "application", children=[AW.Elem(None, "activity")])])
        try:
            return AW.build(AW.Doc(root, utf8=rng.random() < 0.5)), "hostile-namespace-prefix"
        except Exception:
            pass
    b = bytearray(seed)
    n = len(b)
    choice = rng.choice(["chunk-size-zero", "chunk-size-backwards", "chunk-size-max", "header-size-max", "string-count-max", "garbage-tail"])
    # walk the top-level chunk headers (type u16, headerSize u16, size u32)
    offs = []
    p = 8 if kind == "axml" else 12
    while p + 8 <= n and len(offs) < 50:
        t, hs, sz = struct.unpack_from("<HHI", b, p)
        offs.append(p)
        if sz < 8 or p + sz > n:
            break
        p += sz
    if not offs:
        return bytes(b), choice
    p = rng.choice(offs)
    if choice == "chunk-size-zero":
        struct.pack_into("<I", b, p + 4, rng.choice([0, 1, 4, 7]))
    elif choice == "chunk-size-backwards":
        struct.pack_into("<I", b, p + 4, (-(rng.randrange(8, 4096))) & 0xFFFFFFFF)
    elif choice == "chunk-size-max":
        struct.pack_into("<I", b, p + 4, rng.choice([0xFFFFFFFF, 0x7FFFFFFF, n * 2]))
    elif choice == "header-size-max":
        struct.pack_into("<H", b, p + 2, rng.choice([0, 0xFFFF, 4, 7]))
    elif choice == "string-count-max":
        struct.pack_into("<I", b, p + 8, rng.choice([0xFFFFFFFF, 0x7FFFFFFF, 0x1000000]))
    elif choice == "garbage-tail":
        b += bytes(rng.randrange(256) for _ in range(rng.randrange(1, 200)))
    return bytes(b), choice


def hostile_zip(rng, seed):
    """zip-level hostility for the APK parser"""
    b = bytearray(seed)
    n = len(b)
    eocd = bytes(b).rfind(b"PK\x05\x06")
    choice = rng.choice(["cd-offset-into-itself", "cd-size-max", "entries-max", "comment-len-max", "local-name-len-max", "bytes-after-eocd"])
    if eocd < 0:
        return bytes(b), choice
    if choice == "bytes-after-eocd":
        return bytes(b) + bytes(rng.choice([0, 0x50, rng.randrange(256)]) for _ in range(rng.choice([1, 2, 3, 4, 22, 40, 300]))), choice
    if choice == "cd-offset-into-itself":
        struct.pack_into("<I", b, eocd + 16, rng.choice([eocd, eocd - 4, 0, n - 1, 0xFFFFFFFF]))
    elif choice == "cd-size-max":
        struct.pack_into("<I", b, eocd + 12, rng.choice([0xFFFFFFFF, 0x7FFFFFFF, 0]))
    elif choice == "entries-max":
        struct.pack_into("<HH", b, eocd + 8, 0xFFFF, 0xFFFF)
    elif choice == "comment-len-max":
        struct.pack_into("<H", b, eocd + 20, 0xFFFF)
    elif choice == "local-name-len-max":
        p = bytes(b).find(b"PK\x03\x04")
        if p >= 0:
            struct.pack_into("<HH", b, p + 26, 0xFFFF, 0xFFFF)
    return bytes(b), choice


# ---------------------------------------------------------------------------------------------------- shard
def shard(ctx, arg):
    kind, idx, count = arg
    rng = ctx.rng("c35", kind, idx)
    seeds = {"dex": lambda: dex_seeds(ctx.rng("c35-seeds")), "axml": axml_seeds, "arsc": arsc_seeds, "apk": apk_seeds,
             "apksig": lambda: apksig_seeds(ctx.rng("c35-sig-seeds"))}[kind]()
    if not seeds:
        ctx.inconclusive("no %s seeds" % kind)
        return
    fn = PARSERS[kind]
    # calibration on the valid seeds: steps = c + r*n envelope
    ratio = 0.0
    const = 0
    ok_seeds = []
    for name, s in seeds:
        try:
            used = steps.run_with_budget(lambda: fn(s), 50_000_000)
        except steps.BudgetExceeded:
            ctx.violation("%s-valid-seed-exceeds-budget" % kind, "a valid shipped/generated file needs more than 5e7 steps", {"seed": name, "len": len(s)})
            seed_overruns = locals().get("seed_overruns", 0) + 1
            if seed_overruns >= 2:
                break      # settled; every further overrun costs the full budget
            continue
        except BaseException:
            ctx.count("%s_seed_raises" % kind)
            continue
        ok_seeds.append((name, s))
        ratio = max(ratio, used / max(1, len(s)))
        const = max(const, used)
        ctx.count("%s_valid_seeds_parsed" % kind)
    if not ok_seeds:
        ctx.inconclusive("no %s seed parses" % kind)
        return
    ctx.maxi("%s_calibrated_steps_per_byte_x100" % kind, int(ratio * 100))

    def budget(n):
        return int(100 * (const + ratio * n))
    overruns = 0
    for k in range(count):
        name, s = rng.choice(ok_seeds)
        r = rng.random()
        walk = None
        if kind == "apksig" and r < 0.3:
            data, how, walk, ref = sigblock_pairwalk(rng, s)
            how = "pairwalk-" + how
            ctx.count("apksig_pairwalk_inputs")
            if walk is not None:
                ctx.count("apksig_pairwalk_length_%s" % ("top_bit_set_continues_on_this_or_an_earlier_pair" if walk == "backward" else "covers_following_pairs"))
            rss0 = resource.getrusage(resource.RUSAGE_SELF).ru_maxrss
        elif kind == "apksig" and r < 0.85:
            data, how = mutate_sigblock(rng, s)
            how = "sigblock-" + how
        elif r < 0.7:
            data, how = mutate(rng, kind, s)
            how = "mutation-" + how
        elif kind == "apk" and r < 0.85:
            data, how = hostile_zip(rng, s)
            how = "zip-" + how
        elif kind in ("apk", "apksig"):
            data, how = mutate(rng, kind, s)
            how = "mutation-" + how
        else:
            data, how = crafted(rng, kind, s)
            how = "crafted-" + how
        ctx.ev()
        ctx.count("%s_hostile_inputs" % kind)
        bud = budget(len(data))
        if how.startswith("pairwalk-") and ref is not None:
            # these files differ from a well-formed file of the same run in 8 bytes only: that file is parsed first and the budget is 100x ITS steps (never more than
            # the envelope). What a walk that does not end can collect before the budget runs out (steps grow with the square of the pairs collected) stays small.
            try:
                u0 = steps.run_with_budget(lambda: fn(ref), bud)
                if SIG_OUTCOME.get("is_signed_v2") == "returned":
                    ctx.count("apksig_pairwalk_same_file_with_original_length_loaded")
                    bud = min(bud, 100 * u0)
                    ctx.count("apksig_pairwalk_budget_from_same_file_with_original_length")
            except steps.BudgetExceeded:
                data, how, walk = ref, "pairwalk-rebuilt-well-formed-block", None      # reported by the run below
            except BaseException as e:
                if isinstance(e, (KeyboardInterrupt, SystemExit)):
                    raise
                ctx.count("apksig_pairwalk_same_file_with_original_length_raised")
        try:
            used = steps.run_with_budget(lambda: fn(data), bud)
            ctx.count("%s_returned" % kind)
            ctx.maxi("%s_max_steps_used_percent_of_budget" % kind, int(100 * used / bud))
            if how.startswith("pairwalk-"):
                # the walk itself came to an end: with a result (counted; required for the lengths of a well-formed block) or with an error
                if SIG_OUTCOME.get("is_signed_v2") == "returned":
                    ctx.count("apksig_pairwalk_block_loaded")
                    if walk == "forward":
                        ctx.count("apksig_pairwalk_covering_length_block_loaded")
                else:
                    ctx.count("apksig_pairwalk_block_rejected")
                    if walk == "backward":
                        ctx.count("apksig_pairwalk_backward_length_rejected")
        except steps.BudgetExceeded:
            import sys
            import traceback
            tb = traceback.extract_tb(sys.exc_info()[2])
            frames = [(os.path.basename(os.path.dirname(t.filename)) + "/" + os.path.basename(t.filename), t.name, t.lineno) for t in tb if "/vf/" not in t.filename]
            inner = [f for f in frames if "androguard" in tb[0].filename or True]
            where = frames[-1][1] if frames else "unknown"
            wit = {"seed": name, "how": how, "len": len(data), "budget": bud, "stack_when_budget_ran_out": frames[-8:]}
            if how.startswith("pairwalk-") and bud < budget(len(data)):
                wit["budget_is"] = "100x the steps the same file needs with the original length in that pair (lower than 100x the envelope of the valid seeds: %d)" % budget(len(data))
            if len(data) < 6000:
                wit["data"] = data
            # mechanism = parser + innermost function that was still running (a location, not an input property)
            ctx.violation("%s-loop-in-%s" % (kind, where), "the parser exceeded 100x the step envelope of valid inputs (loop not bounded by the input size)", wit)
            overruns += 1
            if overruns >= 3:
                # the verdict of this shard is settled; every further overrun costs a full budget of monitored steps
                ctx.count("%s_inputs_not_run_after_three_overruns" % kind, count - k - 1)
                break
        except MemoryError:
            ctx.count("%s_memory_error" % kind)
        except BaseException as e:
            if isinstance(e, (KeyboardInterrupt, SystemExit)):
                raise
            ctx.count("%s_raised" % kind)
        if how.startswith("pairwalk-"):
            # what the pairs collected by the walk may hold is bounded by the file as well (KiB; ru_maxrss is a high-water mark)
            ctx.maxi("apksig_pairwalk_max_rss_growth_kib_in_one_parse", resource.getrusage(resource.RUSAGE_SELF).ru_maxrss - rss0)
        ctx.sig(kind, how, min(len(data), 2 ** 14) // 1024)
        if idx == 0 and k < 2:
            ctx.sample({"kind": kind, "seed": name, "how": how, "len": len(data), "head": data[:32]})


NATIVE_PROBE = r"""
import sys
kind, path = sys.argv[1], sys.argv[2]
data = open(path, 'rb').read()
from loguru import logger
logger.remove()
try:
    if kind == 'axml':
        from androguard.core import axml
        axml.AXMLPrinter(data).get_xml()
    else:
        from androguard.core import apk
        a = apk.APK(data, raw=True)
        a.get_package(); a.get_activities()
except BaseException as e:
    print('raised', type(e).__name__)
print('finished')
"""


def native_stall_probe(ctx):
    """Loops inside C code (the regular-expression engine, lxml) produce no Python-level events, so the step budget cannot see them. A small set of
    name-shaped crafted documents (long tag / attribute / prefix names that are valid up to their last character) is parsed in a process of its own
    under a wall-clock limit that is >1000x what valid documents need; a timeout is confirmed by a second run with twice the limit before it counts."""
    import concurrent.futures
    import subprocess
    import sys
    import tempfile
    from vf.harness import REPO
    from vf.model import apkw
    from vf.model import axmlw as AW
    A = "http://schemas.android.com/apk/res/android"
    names = ["android.support.v7.widget.ActionMenuPresenter$OverflowMenuButton", "a" * 40 + "$", "a.b." * 12 + "c$", "x" * 64 + ":", "com.example." + "verylongname" * 5 + "!",
             "_-" * 25 + "?", "A1" * 30 + " ", "p.q.r." * 10 + "\u00e9", "z" * 200 + "$" + "z" * 200, "v" * 35 + "$" + "w" * 35 + "#"]
    tmp = tempfile.mkdtemp(prefix="vf_c35_native_")
    cases = []
    try:
        for i, nm in enumerate(names):
            for where in ("tag", "attribute", "prefix"):
                child = AW.Elem(None, nm if where == "tag" else "activity",
                                attrs=[AW.Attr(A if where != "attribute" else None, nm if where == "attribute" else "name", AW.TYPE_STRING, value=".Main", resid=0x01010003 if where != "attribute" else None)])
                root = AW.Elem(None, "manifest", nsdecls=[("android", A)] + ([(nm, "urn:x")] if where == "prefix" else []),
                               attrs=[AW.Attr(None, "package", AW.TYPE_STRING, value="p.q")], children=[AW.Elem(None, "application", children=[child])])
                try:
                    doc = AW.build(AW.Doc(root, utf8=bool(i % 2)))
                except Exception:
                    continue
                for kind, data in (("axml", doc), ("apk", apkw.build_zip([apkw.Entry("AndroidManifest.xml", doc, apkw.DEFLATED)]))):
                    path = os.path.join(tmp, "%s_%d_%s.bin" % (kind, i, where))
                    with open(path, "wb") as f:
                        f.write(data)
                    cases.append((kind, where, nm, path))

        def one(case, limit):
            kind, where, nm, path = case
            t0 = __import__("time").time()
            try:
                cp = subprocess.run([sys.executable, "-c", NATIVE_PROBE, kind, path], env=dict(os.environ, PYTHONPATH=REPO), stdout=subprocess.PIPE, stderr=subprocess.DEVNULL, timeout=limit)
                return "finished" if b"finished" in cp.stdout else "died", __import__("time").time() - t0
            except subprocess.TimeoutExpired:
                return "timeout", limit
        limit = 90
        confirmed = 0
        res = []
        with concurrent.futures.ThreadPoolExecutor(10) as ex:
            for base in range(0, len(cases), 20):
                part = list(ex.map(lambda c: one(c, limit), cases[base:base + 20]))
                res += part
                if any(st == "timeout" for st, _ in part):
                    ctx.count("native_probes_not_run_after_a_timeout", len(cases) - len(res))
                    break      # the verdict is settled by the confirmation below; every further stalling case costs the full limit
        for case, (st, dt) in zip(cases, res):
            ctx.ev()
            ctx.count("native_stall_probes")
            ctx.maxi("native_probe_max_wall_s_x10", int(dt * 10))
            if st == "timeout" and confirmed >= 1:
                ctx.count("native_probe_timeouts_not_confirmed_after_the_first_confirmed_one")
            elif st == "timeout":
                confirmed += 1
                st2, _ = one(case, 2 * limit)
                if st2 == "timeout":
                    ctx.violation("%s-no-progress-outside-python-code-long-%s-name" % (case[0], case[1]),
                                  "parsing a %d-byte document did not finish within %d s and again not within %d s in a process of its own (valid documents need well under a second): "
                                  "a loop the step counter cannot see (native code)" % (os.path.getsize(case[3]), limit, 2 * limit),
                                  {"name": case[2], "where": case[1], "data": open(case[3], "rb").read()})
                else:
                    ctx.count("native_probe_slow_once")
            elif st == "died":
                ctx.count("native_probe_process_died")
    finally:
        import shutil
        shutil.rmtree(tmp, ignore_errors=True)


def run(ctx):
    native_stall_probe(ctx)
    ctx.rule = ("seeds: generated DEX files + every shipped small DEX / binary XML / resources.arsc / APK; hostile inputs = byte/bit/truncation/splice/zero-run mutations, "
                "4-byte fields set to 0xFFFFFFFF/0x7FFFFFFF/size+-1, crafted files (string data without terminator at end of file, counts at 2^32-1, chunk sizes 0/backwards/huge, "
                "zip central directories pointing into themselves), DEX checksums re-fixed. Real calls: DEX(b)+bounded walk, AXMLPrinter(b).get_xml(), ARSCParser(b)+resolve, "
                "APK(b, raw=True)+queries, APK(b, raw=True)+every v2/v3/v3.1 signing-block query on generated and shipped signed APKs whose block has one length field "
                "made larger/smaller/huge/zero or its tail zeroed, or (block rebuilt well-formed with extra pairs) the uint64 length of one pair set so that, modulo 2^64, the walk "
                "continues on the same pair / an earlier pair / the size field / in front of the block / inside a pair / on a later pair / at the end, or to a boundary value around "
                "0, 2^31, 2^32, 2^63, 2^64, each under a sys.monitoring step budget of 100x the calibrated linear envelope. distinct non-trivial = distinct (parser, mutation kind, size class)")
    ctx.assumptions = ["'bounded by the input size' is operationalised as 'within 100x the (const + ratio*n) step envelope measured on valid inputs in the same run'",
                       "loops inside C extensions (zlib, lxml, struct, re) are invisible to the step counter; in the mutation shards they would surface as a shard watchdog = inconclusive; "
                       "the native-stall probe runs 60 name-shaped documents in processes of their own under a 90 s (confirmed: 180 s) wall-clock limit - the only place where a "
                       "wall-clock limit decides, with a margin of more than 1000x over valid documents",
                       "any exception is an acceptable outcome"]
    per = ({"dex": 2400, "axml": 2400, "arsc": 1200, "apk": 480, "apksig": 1600} if ctx.quick else
           {"dex": 120000, "axml": 120000, "arsc": 60000, "apk": 16000, "apksig": 60000})
    args = []
    for kind, n in per.items():
        for i in range(4):
            args.append([kind, i, n // 4])
    ctx.run_shards(MOD, "shard", args, timeout=1500 if ctx.quick else 7200)
    for kind in per:
        ctx.require_counter("%s_hostile_inputs" % kind, 100)
        ctx.require_counter("%s_valid_seeds_parsed" % kind, 1)
    # the pair walk: lengths that lead back onto a pair already visited were tried, and the same generator's well-formed lengths load (not everything is rejected up front)
    ctx.require_counter("apksig_pairwalk_inputs", 200)
    ctx.require_counter("apksig_pairwalk_length_top_bit_set_continues_on_this_or_an_earlier_pair", 60)
    ctx.require_counter("apksig_pairwalk_covering_length_block_loaded", 20)
    ctx.require_counter("apksig_pairwalk_budget_from_same_file_with_original_length", 200)
    ctx.min_distinct = 20
