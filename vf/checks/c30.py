"""C30 locale qualifiers round-trip through ResTable_config (AOSP packLanguageOrRegion / unpackLanguageOrRegion)."""
import io
import struct

from vf.harness import exc_str

MOD = "vf.checks.c30"
LOW = "abcdefghijklmnopqrstuvwxyz"
UPD = "ABCDEFGHIJKLMNOPQRSTUVWXYZ0123456789"


def pack(code, base):
    """AOSP ResTable_config::packLanguageOrRegion"""
    if not code:
        return (0, 0)
    if len(code) == 2:
        return (ord(code[0]), ord(code[1]))
    f, s, t = [(ord(c) - ord(base)) & 0x7F for c in code]
    return ((0x80 | (t << 2) | (s >> 3)) & 0xFF, ((s << 5) | f) & 0xFF)


def word(lang, region):
    l = pack(lang, 'a')
    r = pack(region, '0')
    return l[0] | (l[1] << 8) | (r[0] << 16) | (r[1] << 24)


def tag(lang, region):
    return lang + ("-r" + region if region else "")


def config_bytes(w, size=64):
    body = struct.pack("<II", 0, w) + b"\0" * (size - 12)
    return struct.pack("<I", size) + body


def check(ctx, lang, region, do_sig=True):
    from androguard.core.axml import ARSCResTableConfig
    w = word(lang, region)
    want = tag(lang, region)
    three = (len(lang) == 3, len(region) == 3)
    ctx.ev()
    ctx.count("parse_then_get_language_and_region")
    try:
        c = ARSCResTableConfig(io.BytesIO(config_bytes(w)))
        got = c.get_language_and_region()
    except Exception as e:
        ctx.violation("decode-raises", "get_language_and_region raises", {"lang": lang, "region": region, "exc": exc_str(e)})
        return
    if got != want:
        ctx.violation("decode-%s" % ("3letter" if any(three) else "2letter"), "decoded language-and-region string differs from the encoded codes",
                      {"lang": lang, "region": region, "word": "%08x" % w, "got": got, "want": want})
    ctx.ev()
    ctx.count("construct_from_locale_string")
    try:
        c2 = ARSCResTableConfig(None, locale=want)
        w2 = c2.locale
    except Exception as e:
        ctx.violation("encode-raises", "ARSCResTableConfig(locale=str) raises", {"locale": want, "exc": exc_str(e)})
        return
    if w2 != w or not (c2 == c) or hash(c2) != hash(c):
        mech = "encode-3letter-language" if three[0] else ("encode-3symbol-region" if three[1] else "encode-2letter")
        ctx.violation(mech, "re-encoding the reported string gives a different configuration",
                      {"locale": want, "got_word": "%08x" % w2, "want_word": "%08x" % w})
    if do_sig:
        ctx.sig(len(lang), len(region), lang[:1], region[:1])


def shard(ctx, arg):
    kind, lo, hi = arg
    rng = ctx.rng("c30", kind, lo)
    if kind == "two":
        regs = [""] + [a + b for a in UPD for b in UPD]
        for i in range(lo, hi):
            lang = LOW[i // 26] + LOW[i % 26]
            if ctx.quick:
                rs = [""] + rng.sample(regs, 120)
            else:
                rs = regs
            for r in rs:
                check(ctx, lang, r)
        ctx.count("two_letter_languages", hi - lo)
    elif kind == "three":
        regs2 = [a + b for a in UPD for b in UPD]
        for i in range(lo, hi):
            lang = LOW[i // 676] + LOW[(i // 26) % 26] + LOW[i % 26]
            rs = ["", rng.choice(regs2), "%03d" % rng.randrange(1000)]
            for r in rs:
                check(ctx, lang, r, do_sig=(i % 7 == 0))
        ctx.count("three_letter_languages", hi - lo)
    elif kind == "region3":
        for i in range(lo, hi):
            region = "%03d" % i
            for lang in (rng.choice(LOW) + rng.choice(LOW), rng.choice(LOW) + rng.choice(LOW) + rng.choice(LOW)):
                check(ctx, lang, region)
        ctx.count("three_digit_regions", hi - lo)


def histories(ctx):
    """multi-step use of ONE configuration object: parse / set_language_and_region / read, in random order; after every step the reported
    string, the locale word and equality with a freshly built configuration must agree with the last locale set"""
    from androguard.core.axml import ARSCResTableConfig
    rng = ctx.rng("c30-hist")
    codes = ["en", "de", "fr", "zh", "fil", "haw", "ast", "tzm", "kok", "es"]
    regs = ["", "US", "DE", "419", "PH", "001", "ZZ", "A1"]
    for h in range(300 if ctx.quick else 60000):
        lang, reg = rng.choice(codes), rng.choice(regs)
        c = ARSCResTableConfig(io.BytesIO(config_bytes(word(lang, reg)))) if rng.random() < 0.5 else ARSCResTableConfig(None, locale=tag(lang, reg))
        hist = [("init", tag(lang, reg))]
        for step in range(rng.randrange(1, 8)):
            r = rng.random()
            if r < 0.5:
                lang, reg = rng.choice(codes), rng.choice(regs)
                c.set_language_and_region(tag(lang, reg))
                hist.append(("set", tag(lang, reg)))
            elif r < 0.6:
                # a call that is refused (not a qualifier string: an unset optional locale, a number, bytes) encodes nothing; when it raises, the
                # configuration still carries the locale encoded before
                arg = rng.choice([None, 5, b"en", ["en"], 3.5])
                try:
                    c.set_language_and_region(arg)
                    hist.append(("set-accepted", repr(arg)))
                    lang = None
                except Exception as e:
                    hist.append(("set-refused", repr(arg), type(e).__name__))
                    ctx.count("history_refused_sets")
                if lang is None:
                    break   # accepted whatever it was: nothing defined to compare with
            elif r < 0.75:
                c.get_qualifier()
                hist.append(("get_qualifier",))
            else:
                hist.append(("read",))
            ctx.ev()
            ctx.count("history_steps")
            got = c.get_language_and_region()
            fresh = ARSCResTableConfig(None, locale=tag(lang, reg))
            if got != tag(lang, reg) or c.locale != word(lang, reg) or not (c == fresh):
                ctx.violation("history-stale-or-wrong-locale", "after a sequence of set/read steps on one configuration object the reported locale is not the last one set",
                              {"history": hist, "got": got, "want": tag(lang, reg), "word": "%08x" % c.locale, "want_word": "%08x" % word(lang, reg)})
                break
        if lang is not None:
            ctx.sig("hist", len(hist), len(lang), len(reg))


def threads(ctx):
    """the same decode / encode calls from four threads at once, each thread on configuration objects of its own (switch interval 1 us, so the
    interpreter hands over between almost any two bytecodes): every answer must be the one a single thread gets. androguard starts no
    threads itself, but nothing in the statement allows an answer to depend on what another configuration object is doing meanwhile."""
    import sys
    import threading
    from androguard.core.axml import ARSCResTableConfig
    rng = ctx.rng("c30-threads")
    codes = ["en", "de", "it", "zh", "fil", "haw", "yue", "kok", "sr", "es", "tzm", "pt"]
    regs = ["", "US", "DE", "419", "HK", "BR", "150", "IN", "RS", "001"]
    per = 1500 if ctx.quick else 40000
    plans = []
    for t in range(4):
        plan = []
        for k in range(24):
            lang, reg = rng.choice(codes), rng.choice(regs)
            plan.append((lang, reg, ARSCResTableConfig(io.BytesIO(config_bytes(word(lang, reg))))))
        plans.append(plan)
    bad = []
    inflight = [0]
    overlaps = [0] * 4
    calls = [0] * 4
    start = threading.Barrier(4)

    def work(t):
        plan = plans[t]
        start.wait()
        for i in range(per):
            lang, reg, c = plan[i % len(plan)]
            inflight[0] += 1
            if inflight[0] > 1:
                overlaps[t] += 1
            try:
                if i % 3 == 2:
                    got = ARSCResTableConfig(None, locale=tag(lang, reg)).locale
                    want = word(lang, reg)
                elif i % 3 == 1:
                    got = c.get_qualifier()
                    want = None
                    if tag(lang, reg) not in got and not (lang == "" and reg == ""):
                        want = "a qualifier containing " + tag(lang, reg)
                    else:
                        got = want
                else:
                    got = c.get_language_and_region()
                    want = tag(lang, reg)
            except Exception as e:
                got, want = "raises " + exc_str(e), tag(lang, reg)
            inflight[0] -= 1
            calls[t] += 1
            if got != want and len(bad) < 5:
                bad.append({"thread": t, "call": i, "lang": lang, "region": reg, "got": got if not isinstance(got, int) else "%08x" % got,
                            "want": want if not isinstance(want, int) else "%08x" % want})
    old = sys.getswitchinterval()
    sys.setswitchinterval(1e-6)
    try:
        ths = [threading.Thread(target=work, args=(t,)) for t in range(4)]
        for th in ths:
            th.start()
        for th in ths:
            th.join(600)
    finally:
        sys.setswitchinterval(old)
    ctx.evaluations += sum(calls)
    ctx.count("threaded_calls", sum(calls))
    ctx.count("threaded_calls_entered_while_another_was_in_flight", sum(overlaps))
    if any(th.is_alive() for th in ths):
        ctx.inconclusive("C30 thread stress did not finish within its watchdog")
    if bad:
        ctx.violation("concurrent-calls-disturb-each-other", "with four threads working on configuration objects of their own a call reports another object's locale",
                      {"witnesses": bad, "threads": 4, "switch_interval": 1e-6})


def run(ctx):
    from androguard.core.axml import ARSCResTableConfig
    histories(ctx)
    threads(ctx)
    ctx.rule = ("configs parsed from bytes written with AOSP packing -> get_language_and_region, then ARSCResTableConfig(locale=<string>) must give the same "
                "locale word (and ==/hash). two-letter: all 676 languages x (no region + 36^2 two-char [A-Z0-9] regions) (quick: 120 sampled regions per language); "
                "all 26^3 packed three-letter languages x {none, random 2-char, random 3-digit} regions; all 1000 three-digit regions; default locale. "
                "distinct non-trivial = distinct (len(lang), len(region), first letters)")
    ctx.assumptions = ["reference: ResTable_config::packLanguageOrRegion / unpackLanguageOrRegion (bases 'a' and '0')"]
    # default locale
    ctx.ev()
    c = ARSCResTableConfig(io.BytesIO(config_bytes(0)))
    if c.get_language_and_region() != "\x00\x00":
        ctx.violation("default-locale", "default locale is not reported as the default marker", {"got": c.get_language_and_region()})
    args = [["two", i * 43, min(676, (i + 1) * 43)] for i in range(16)]
    step = 26 ** 3 // 16 + 1
    args += [["three", i * step, min(26 ** 3, (i + 1) * step)] for i in range(16)]
    args += [["region3", i * 250, (i + 1) * 250] for i in range(4)]
    ctx.run_shards(MOD, "shard", args, timeout=1200)
    ctx.exhaustive = not ctx.quick
    ctx.sample({"lang": "en", "region": "US", "word": "%08x" % word("en", "US"), "string": "en-rUS"})
    ctx.sample({"lang": "fil", "region": "", "word": "%08x" % word("fil", ""), "string": "fil"})
    ctx.sample({"lang": "es", "region": "419", "word": "%08x" % word("es", "419"), "string": "es-r419"})
    ctx.require_counter("parse_then_get_language_and_region", 1000)
    ctx.require_counter("construct_from_locale_string", 1000)
    ctx.require_counter("history_steps", 300)
    ctx.require_counter("threaded_calls", 4000)
    ctx.require_counter("threaded_calls_entered_while_another_was_in_flight", 50)
