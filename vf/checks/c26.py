"""C26 binary XML is converted to the XML tree it encodes (random trees -> independent AXML writer -> AXMLPrinter).

Domain decisions (each can be challenged):
 * element, attribute and prefix names are ASCII XML NCNames ([A-Za-z_][A-Za-z0-9._-]*, not starting with "xml"); androguard documents
   the sanitising of anything else in AXMLPrinter._fix_name.
 * attribute values and text consist of legal XML 1.0 Chars without NUL (androguard documents _fix_value for the rest).
 * every namespace URI used by an element/attribute is declared by an enclosing START_NAMESPACE chunk and not shadowed by an inner
   declaration of the same prefix (i.e. the document has a textual XML form with the same prefixes; what aapt emits); URIs are
   syntactically valid URIs (lxml refuses anything else when androguard builds the nsmap).
 * attribute names that carry a resource id in the resource map: the pool string equals the framework name of a known id, or is empty
   (stripped by a shrinker; the id alone names the attribute, as for the Android runtime), or the id is outside the framework table and
   the pool string is the name.  A pool string that contradicts a known id is ambiguous and not generated.
 * attributes of one element have distinct (namespace, name) pairs.
 * numbers are compared by value (vf.checks.c27.expected_ok: androguard prints %f), everything else exactly.
 * Res_value types with no agreed printed form (TYPE_NULL, TYPE_DYNAMIC_REFERENCE, TYPE_DYNAMIC_ATTRIBUTE) are generated but their
   printed string is don't-care (the attribute must exist and nothing else may be disturbed).
 * elem.text None and '' are the same; XML comments (from the comment field of a node) are ignored when comparing.
 * the text of mixed content follows the ElementTree model: text before the first child is elem.text, text after a child is that
   child's tail, adjacent text chunks concatenate.
Feature partition: every case draws its base features freely and AT MOST ONE "special" feature (SPECIALS below); cases with
special=None form the clean pool.  A mismatch is classified by where it is observed and which feature is present at that place.
"""
import struct

from vf.checks import c27
from vf.harness import exc_str
from vf.model import axmlw as W

MOD = "vf.checks.c26"

# framework attribute ids (frameworks/base/core/res/res/values/public.xml)
KNOWN_IDS = {
    "theme": 0x01010000, "label": 0x01010001, "icon": 0x01010002, "name": 0x01010003, "permission": 0x01010006,
    "enabled": 0x0101000e, "exported": 0x01010010, "process": 0x01010011, "authorities": 0x01010018, "value": 0x01010024,
    "targetActivity": 0x01010202, "minSdkVersion": 0x0101020c, "versionCode": 0x0101021b, "versionName": 0x0101021c,
    "targetSdkVersion": 0x01010270, "maxSdkVersion": 0x01010271, "allowBackup": 0x01010280, "glEsVersion": 0x01010281,
    "required": 0x0101028e, "largeHeap": 0x0101035a, "supportsRtl": 0x010103af,
}
KNOWN_BY_ID = {v: k for k, v in KNOWN_IDS.items()}
UNKNOWN_IDS = [0x01010600, 0x0101066f, 0x01019999, 0x010200aa, 0x7f010001, 0x7f0100ff]  # not framework attrs of the shipped table

SPECIALS = [None, None, None, "text-after-child", "adjacent-text", "bom-leading", "supplementary", "cesu8-supplementary", "ns-prefix-redeclared",
            "ns-uri-two-prefixes", "resmap-stripped-name", "raw-value-kept", "no-dedupe", "utf16-2unit-length", "odd-types", "empty-prefix-ns",
            "no-resmap", "shared-string-data", "comments"]

NAME0 = "abcdefghijklmnopqrstuvwxyzABCDEFGHIJKLMNOPQRSTUVWXYZ_"
NAMEN = NAME0 + "0123456789.-"
REAL_NAMES = ["manifest", "application", "activity", "service", "uses-permission", "intent-filter", "action", "category", "meta-data", "data", "item", "a.b", "x-y_z"]
TEXT_ALPHA = list("abcdefghijXYZ0123456789 \t\n\r<>&\"'];=/-_.:") + ["]]>", "&amp;", "<!--", "é", "ß", "中", "文", "Ж", "\ufeff", "\ufffd", "\ud7ff", "", " "]


def ncname(rng, real=0.3):
    if rng.random() < real:
        return rng.choice(REAL_NAMES)
    while True:
        s = rng.choice(NAME0) + "".join(rng.choice(NAMEN) for _ in range(rng.choice((0, 1, 2, 3, 5, 8, 12))))
        if not s.lower().startswith("xml"):
            return s


def uri(rng):
    """a syntactically valid URI (lxml refuses to build an nsmap with anything else)"""
    seg = lambda n: "".join(rng.choice("abcdefghijklmnopqrstuvwxyz0123456789") for _ in range(rng.randrange(1, n)))
    k = rng.randrange(4)
    if k == 0:
        return "http://schemas.android.com/apk/res/" + seg(8) + "." + seg(6)
    if k == 1:
        return "urn:" + seg(6) + ":" + seg(9)
    if k == 2:
        return "https://" + seg(9) + "." + seg(4) + "/" + seg(7) + rng.choice(("", "/", "/" + seg(5), "#" + seg(4), "?" + seg(3) + "=" + seg(3)))
    return "http://" + seg(12) + "/" + seg(5) + "-" + seg(5) + "_" + seg(3) + "~" + seg(2)


def rtext(rng, special=None, maxlen=24):
    r = rng.random()
    if r < 0.08:
        n = rng.choice((120, 127, 128, 129, 200, 300))  # 2-byte length forms in UTF-8 pools
    elif r < 0.14:
        n = rng.choice((40, 43, 64, 100))
        # non-ASCII: utf16 length < 0x80 but byte length >= 0x80
        return "".join(rng.choice("é中Ж文a") for _ in range(n))
    else:
        n = rng.randrange(0, maxlen) if rng.random() < 0.97 else 0
    s = "".join(rng.choice(TEXT_ALPHA) for _ in range(n))
    if special == "supplementary" or special == "cesu8-supplementary":
        k = rng.randrange(0, len(s) + 1)
        s = s[:k] + rng.choice("\U0001F600\U00010000\U0010FFFF\U00020BB7") + s[k:]
    if special == "bom-leading":
        s = "\ufeff" + s
    else:
        s = s.lstrip("\ufeff")  # a leading U+FEFF only in its own pool
    return s


# ---------------------------------------------------------------------------------------------------------------------
# generator: model + expectation
# ---------------------------------------------------------------------------------------------------------------------
TYPED = [W.TYPE_REFERENCE, W.TYPE_ATTRIBUTE, W.TYPE_FLOAT, W.TYPE_DIMENSION, W.TYPE_FRACTION, W.TYPE_INT_DEC, W.TYPE_INT_HEX, W.TYPE_INT_BOOLEAN,
         W.TYPE_INT_COLOR_ARGB8, W.TYPE_INT_COLOR_RGB8, W.TYPE_INT_COLOR_ARGB4, W.TYPE_INT_COLOR_RGB4]
ODD = [W.TYPE_NULL, W.TYPE_DYNAMIC_REFERENCE, W.TYPE_DYNAMIC_ATTRIBUTE]


def rdata(rng, t):
    d = rng.choice((rng.getrandbits(32), rng.getrandbits(32), rng.randrange(0, 300), 0, 1, 0xFFFFFFFF, 0x80000000, 0x7FFFFFFF, 0x01010003, 0x7F040001))
    if t == W.TYPE_DIMENSION:
        d = (d & ~0xF) | rng.randrange(6)
    elif t == W.TYPE_FRACTION:
        d = (d & ~0xF) | rng.randrange(2)
    elif t == W.TYPE_FLOAT and rng.random() < 0.7:
        d = (d & 0x807FFFFF) | (rng.randrange(100, 150) << 23)
    elif t == W.TYPE_NULL:
        d = rng.choice((0, 1))
    return d


def visible(scope):
    """namespace declarations still reachable through their prefix (an inner declaration of the same prefix shadows the outer one)"""
    m = {}
    for p, u in scope:
        m[p] = u
    return [(p, u) for p, u in m.items()]


class Gen:
    def __init__(self, rng, special, utf8):
        self.rng = rng
        self.special = special
        self.utf8 = utf8
        self.n_elems = 0
        self.types_used = set()
        self.n_ns = 0
        self.depth = 0
        self.text_kinds = set()
        self.with_resmap = special != "no-resmap"
        self.max_elems = rng.choice((1, 2, 4, 8, 15, 40))
        self.max_depth = rng.choice((1, 2, 3, 4, 6))

    def attr(self, scope, used):
        rng = self.rng
        for _ in range(20):
            kind = rng.random()
            resid = None
            pool_name = None
            ns = None
            if scope and rng.random() < 0.6:
                ns = rng.choice(visible(scope))[1]
            if kind < 0.35 and self.with_resmap:
                name = rng.choice(list(KNOWN_IDS))
                resid = KNOWN_IDS[name]
                if ns is None and rng.random() < 0.8:
                    continue  # framework attributes normally sit in a namespace
                if self.special == "resmap-stripped-name" and rng.random() < 0.7:
                    pool_name = ""
            elif kind < 0.45 and self.with_resmap:
                name = ncname(rng, 0)
                resid = rng.choice(UNKNOWN_IDS)
            else:
                name = ncname(rng)
            key = (ns, name)
            if key in used:
                continue
            used.add(key)
            t = rng.choice(TYPED + [W.TYPE_STRING] * 6)
            if self.special == "odd-types" and rng.random() < 0.5:
                t = rng.choice(ODD)
            self.types_used.add(t)
            if t == W.TYPE_STRING:
                return W.Attr(ns, name, t, value=rtext(rng, self.special), resid=resid, pool_name=pool_name)
            raw = None
            if self.special == "raw-value-kept" and rng.random() < 0.7:
                raw = rtext(rng)
            return W.Attr(ns, name, t, data=rdata(rng, t), resid=resid, raw=raw, pool_name=pool_name)
        return None

    def elem(self, scope, depth):
        rng = self.rng
        self.n_elems += 1
        self.depth = max(self.depth, depth)
        decls = []
        if rng.random() < (0.8 if depth == 0 else 0.2):
            for _ in range(rng.choice((1, 1, 2, 3))):
                if self.special == "empty-prefix-ns" and rng.random() < 0.5:
                    p = ""
                else:
                    p = ncname(rng, 0) if rng.random() < 0.7 else rng.choice(("android", "app", "tools", "a"))
                if p in [d[0] for d in decls]:
                    continue
                if self.special != "ns-prefix-redeclared" and p in [d[0] for d in scope]:
                    continue
                if self.special == "ns-prefix-redeclared" and scope and rng.random() < 0.7:
                    p = rng.choice(scope)[0]
                    if p in [d[0] for d in decls]:
                        continue
                u = uri(rng) if rng.random() < 0.7 else W.ANDROID_NS
                if self.special == "ns-uri-two-prefixes" and (scope or decls) and rng.random() < 0.7:
                    u = rng.choice(scope + decls)[1]
                elif u in [d[1] for d in scope + decls]:
                    continue
                decls.append((p, u))
        self.n_ns += len(decls)
        scope = scope + decls
        ns = rng.choice(visible(scope))[1] if scope and rng.random() < 0.3 else None
        e = W.Elem(ns, ncname(rng), nsdecls=decls, line=rng.choice((0, 1, rng.randrange(1, 5000), 0xFFFFFFFF)))
        used = set()
        for _ in range(rng.choice((0, 0, 1, 1, 2, 3, 5, 9))):
            a = self.attr(scope, used)
            if a is not None:
                e.attrs.append(a)
        if e.attrs and rng.random() < 0.2:
            e.id_index = rng.randrange(0, len(e.attrs) + 1)
            e.class_index = rng.randrange(0, len(e.attrs) + 1)
            e.style_index = rng.randrange(0, len(e.attrs) + 1)
        if self.special == "comments" and rng.random() < 0.5:
            e.comment = rtext(rng).replace("--", "__").rstrip("-") or "c"
        # content
        if rng.random() < 0.35:
            e.children.append(W.Text(rtext(rng, self.special), line=rng.randrange(100)))
            self.text_kinds.add("leading")
            if self.special == "adjacent-text" and rng.random() < 0.6:
                e.children.append(W.Text(rtext(rng, self.special)))
                self.text_kinds.add("adjacent")
        nchild = 0
        while depth < self.max_depth and self.n_elems < self.max_elems and rng.random() < 0.75 and nchild < 6:
            e.children.append(self.elem(scope, depth + 1))
            nchild += 1
            if self.special == "text-after-child" and rng.random() < 0.5:
                e.children.append(W.Text(rtext(rng, self.special)))
                self.text_kinds.add("after-child")
        return e


def xtag(ns, name):
    return "{%s}%s" % (ns, name) if ns else name


class Exp:
    """expected ElementTree node"""
    __slots__ = ("tag", "attrs", "text", "tail", "children", "mixed", "adjacent", "chunks")

    def __init__(self, tag):
        self.tag = tag
        self.attrs = {}
        self.text = ""
        self.tail = ""
        self.children = []
        self.mixed = False
        self.adjacent = False
        self.chunks = []  # all text chunks directly inside this element, in document order


def expected_attr_name(a, with_resmap):
    if with_resmap and a.resid is not None and a.resid in KNOWN_BY_ID:
        return KNOWN_BY_ID[a.resid]
    return a.name


def expected_tree(e, with_resmap):
    x = Exp(xtag(e.ns, e.name))
    for a in e.attrs:
        x.attrs[xtag(a.ns, expected_attr_name(a, with_resmap))] = a
    last = None
    prev_text = False
    for c in e.children:
        if isinstance(c, W.Elem):
            last = expected_tree(c, with_resmap)
            x.children.append(last)
            prev_text = False
        else:
            if prev_text:
                x.adjacent = True
            prev_text = True
            x.chunks.append(c.text)
            if last is None:
                x.text += c.text
            else:
                last.tail += c.text
                x.mixed = True
    return x


def make_case(rng):
    special = rng.choice(SPECIALS)
    utf8 = rng.random() < 0.5
    if special == "cesu8-supplementary":
        utf8 = True
    if special == "utf16-2unit-length":
        utf8 = False
    g = Gen(rng, special, utf8)
    root = g.elem([], 0)
    if special == "utf16-2unit-length":
        big = "".join(rng.choice("abcdefgh é中") for _ in range(rng.choice((0x8000, 0x8001, 0x9000, 0x10000, 0x10005, 0x18001))))
        if rng.random() < 0.5 or not root.attrs:
            root.children.insert(0, W.Text(big))
        else:
            a = root.attrs[0]
            a.dtype, a.value, a.raw = W.TYPE_STRING, big, None
    doc = W.Doc(root, utf8=utf8, cesu8=(special == "cesu8-supplementary"), dedupe=(special != "no-dedupe"), with_resmap=g.with_resmap,
                extra_strings=[rtext(rng) for _ in range(rng.choice((0, 0, 1, 3)))],
                extra_resmap_ids=[("theme", KNOWN_IDS["theme"])] if (g.with_resmap and rng.random() < 0.2) else [],
                share_string_data=(special == "shared-string-data"), sorted_attrs=rng.random() < 0.5,
                attr_size=rng.choice((0x14,) * 8 + (0x18, 0x1C)))
    feats = {"special": special, "pool": "utf8" if utf8 else "utf16", "elements": g.n_elems, "depth": g.depth, "nsdecls": g.n_ns,
             "types": sorted(W.TYPE_NAMES[t] for t in g.types_used), "text": sorted(g.text_kinds), "resmap": g.with_resmap, "attr_size": doc.attr_size}
    return doc, feats


# ---------------------------------------------------------------------------------------------------------------------
# oracle
# ---------------------------------------------------------------------------------------------------------------------
def has_suppl(s):
    return any(ord(c) > 0xFFFF for c in s)


def known_string_symptom(want, got, feats):
    """-> mechanism of a known string-decoding defect if `got` is exactly what that defect produces from `want`, else None"""
    if feats["pool"] == "utf16" and want.startswith("\ufeff") and got == want[1:]:
        return "utf16-string-starts-with-bom"  # decoded with codec 'utf-16': a leading U+FEFF is eaten as byte order mark
    if feats["special"] == "cesu8-supplementary" and has_suppl(want) and got == "".join("\ufffd" * 6 if ord(c) > 0xFFFF else c for c in want):
        return "utf8-pool-surrogate-pair-encoded-supplementary"  # strict utf-8 decoder: each byte of the two encoded surrogates becomes U+FFFD
    return None


def string_mech(want, got, feats, base):
    k = known_string_symptom(want, got, feats)
    if k:
        return k
    if has_suppl(want):
        return base + "-supplementary-" + feats["pool"]
    if len(want) >= 0x8000:
        return base + "-2unit-length"
    return base + "-" + (feats["special"] or "base")


def real_children(el):
    return [c for c in el if isinstance(c.tag, str)]


def compare(x, el, feats, out, path="/"):
    """x: Exp, el: lxml element; appends (mechanism, detail) to out"""
    if el.tag != x.tag:
        out.append(("element-qname-%s" % (feats["special"] or "base"), {"at": path, "got": el.tag, "want": x.tag}))
        return
    got = dict(el.attrib)
    for qn, a in x.attrs.items():
        kind = ("resmap-stripped" if a.pool_name == "" else "resmap-known-id" if (a.resid in KNOWN_BY_ID and feats["resmap"]) else
                "resmap-unknown-id" if (a.resid is not None and feats["resmap"]) else "plain")
        if qn not in got:
            out.append(("attr-name-%s%s" % (kind, "" if a.ns else "-no-namespace"), {"at": path, "want": qn, "got_names": sorted(got)}))
            continue
        g = got.pop(qn)
        if a.dtype == W.TYPE_STRING:
            if g != a.value:
                out.append((string_mech(a.value, g, feats, "attr-value-string"), {"at": path, "attr": qn, "got": g, "want": a.value}))
        elif a.dtype in ODD:
            pass  # don't-care
        else:
            m = c27.expected_ok(a.dtype, a.data & 0xFFFFFFFF, g)
            if m:
                out.append(("attr-value-%s-%s%s" % (W.TYPE_NAMES[a.dtype], m, "-raw-kept" if a.raw is not None else ""),
                            {"at": path, "attr": qn, "type": a.dtype, "data": "%08x" % (a.data & 0xFFFFFFFF), "got": g, "raw": a.raw}))
    for qn in got:
        out.append(("attr-unexpected", {"at": path, "got": qn}))
    gtext = el.text or ""
    if gtext != x.text:
        # known symptom of "TEXT assigns elem.text": the element's text is its LAST chunk, whatever came before
        overwritten = bool(x.chunks) and gtext == x.chunks[-1]
        if x.mixed:
            m = "text-after-child-element" if overwritten else "text-differs-mixed-content"
        elif x.adjacent:
            m = "text-adjacent-chunks" if overwritten else "text-differs-adjacent-chunks"
        else:
            m = string_mech(x.text, gtext, feats, "text-differs")
        out.append((m, {"at": path, "got": gtext, "want": x.text}))
    kids = real_children(el)
    if len(kids) != len(x.children):
        out.append(("tree-differs", {"at": path, "got_children": [k.tag for k in kids], "want_children": [k.tag for k in x.children]}))
        return
    for i, (k, xk) in enumerate(zip(kids, x.children)):
        gtail = k.tail or ""
        if gtail != xk.tail:
            # same known symptom seen from the child: its tail is never set
            out.append(("text-after-child-element" if gtail == "" else "tail-differs", {"at": "%s%d/tail" % (path, i), "got": gtail, "want": xk.tail}))
        compare(xk, k, feats, out, "%s%d/" % (path, i))


def strip_ws(el):
    """pretty printing may add whitespace-only text where there was none"""
    for n in el.iter():
        if n.text is not None and not n.text.strip(" \n"):
            n.text = None
        if n.tail is not None and not n.tail.strip(" \n"):
            n.tail = None


def has_ws_only(x):
    if (x.text and not x.text.strip(" \n")) or (x.tail and not x.tail.strip(" \n")):
        return True
    return any(has_ws_only(c) for c in x.children)


def run_case(ctx, doc, feats, idx=None):
    from lxml import etree
    from androguard.core.axml import AXMLPrinter
    data = W.build(doc)
    W.selfcheck(doc, data)
    x = expected_tree(doc.root, doc.with_resmap)
    wit = {"features": feats, "case": idx}
    if len(data) < 3000:
        wit["axml_hex"] = data.hex()
    else:
        wit["axml_len"] = len(data)
    sp = feats["special"] or "base"
    ctx.ev()
    ctx.count("AXMLPrinter")
    try:
        p = AXMLPrinter(data)
        valid = p.is_valid()
        root = p.get_xml_obj()
    except Exception as e:
        ctx.violation("printer-raises-%s-%s" % (type(e).__name__, sp), "AXMLPrinter raises on a well-formed document", dict(wit, exc=exc_str(e)))
        return
    if not valid or root is None:
        ctx.violation("parser-rejects-%s" % sp, "AXMLPrinter reports a well-formed document as invalid / gives no tree", wit)
        return
    out = []
    compare(x, root, feats, out)
    seen = set()
    for mech, detail in out:
        if mech in seen:
            continue
        seen.add(mech)
        ctx.violation(mech, "get_xml_obj(): tree differs from the encoded document", dict(wit, diff=detail))
    if out:
        return  # the serialised form is derived from the same tree
    # serialised forms
    for pretty in (False, True):
        ctx.ev()
        ctx.count("get_xml_reparse")
        try:
            s = p.get_xml(pretty=pretty)
            r2 = etree.fromstring(s)
        except Exception as e:
            kind = "namespace-binding" if ("redefined" in str(e) or "amespace" in str(e)) else "unparsable"
            ctx.violation("get_xml-%s-%s" % (kind, sp), "get_xml() output is not parsable XML / raises (get_xml_obj() was right)", dict(wit, exc=exc_str(e)))
            return
        if pretty:
            if has_ws_only(x):
                continue
            strip_ws(r2)
        out2 = []
        compare(x, r2, feats, out2)
        for mech, detail in out2[:1]:
            # the in-memory tree was right, so this is about how prefixes were bound when serialising
            if mech.startswith(("element-qname", "attr-name", "attr-unexpected")):
                mech = "namespace-binding-%s" % sp
            ctx.violation("get_xml-%s" % mech, "re-parsed get_xml(pretty=%s) differs from the encoded document (get_xml_obj() was right)" % pretty,
                          dict(wit, diff=detail, xml=s.decode("utf-8", "replace")[:1500]))
            return
    ctx.sig(feats["pool"], feats["depth"], min(feats["elements"], 10), min(feats["nsdecls"], 4), tuple(feats["types"]), feats["special"], tuple(feats["text"]))
    ctx.count("cases_" + sp)


def shard(ctx, arg):
    lo, hi = arg
    for i in range(lo, hi):
        rng = ctx.rng("c26", i)
        doc, feats = make_case(rng)
        run_case(ctx, doc, feats, i)
        if i % 997 == 0:
            ctx.sample({"case": i, "features": feats, "axml_hex": W.build(doc).hex()[:1200]})


def fixed_cases(ctx):
    """hand-made documents: one per structural feature, so that each is exercised in every run"""
    A = W.ANDROID_NS

    def d(root, **kw):
        return W.Doc(root, **kw)
    cases = []
    # simple manifest, both encodings
    for utf8 in (False, True):
        root = W.Elem(None, "manifest", nsdecls=[("android", A)], attrs=[
            W.Attr(A, "versionCode", W.TYPE_INT_DEC, data=7, resid=KNOWN_IDS["versionCode"]),
            W.Attr(A, "versionName", W.TYPE_STRING, value="1.0", resid=KNOWN_IDS["versionName"]),
            W.Attr(None, "package", W.TYPE_STRING, value="com.example")],
            children=[W.Elem(None, "application", children=[W.Elem(None, "activity", attrs=[W.Attr(A, "name", W.TYPE_STRING, value=".Main", resid=KNOWN_IDS["name"])])])])
        cases.append((d(root, utf8=utf8), None))
    # text after a child
    cases.append((d(W.Elem(None, "p", children=[W.Text("a"), W.Elem(None, "b"), W.Text("c")])), "text-after-child"))
    cases.append((d(W.Elem(None, "p", children=[W.Text("a"), W.Text("b")])), "adjacent-text"))
    cases.append((d(W.Elem(None, "p", children=[W.Text("\ufeffx")]), utf8=False), "bom-leading"))
    cases.append((d(W.Elem(None, "p", attrs=[W.Attr(None, "v", W.TYPE_STRING, value="\ufeffx")]), utf8=False), "bom-leading"))
    cases.append((d(W.Elem(None, "p", children=[W.Text("\ufeffx")]), utf8=True), "bom-leading"))
    cases.append((d(W.Elem(None, "p", children=[W.Text("x\U0001F600y")]), utf8=True), "supplementary"))
    cases.append((d(W.Elem(None, "p", children=[W.Text("x\U0001F600y")]), utf8=False), "supplementary"))
    cases.append((d(W.Elem(None, "p", children=[W.Text("x\U0001F600y")]), utf8=True, cesu8=True), "cesu8-supplementary"))
    # prefix re-declared in a nested scope (legal XML); index layout chosen so that the set-ordered nsmap picks the outer binding
    dd = W.Elem(None, "d", attrs=[W.Attr("urn:z", "y", W.TYPE_STRING, value="1")], nsdecls=[("a", "urn:y3")])
    cc = W.Elem(None, "c", nsdecls=[("u", "urn:z"), ("a", "urn:y2")], children=[dd])
    rr = W.Elem(None, "r", nsdecls=[("u", "urn:x"), ("a", "urn:y1")], children=[cc])
    cases.append((d(rr, utf8=True, extra_resmap_ids=[("theme0", 0x01019900), ("theme1", 0x01019901)]), "ns-prefix-redeclared"))
    out = []
    for doc, special in cases:
        g = {"special": special, "pool": "utf8" if doc.utf8 else "utf16", "elements": sum(1 for _ in W.walk(doc.root)), "depth": 0, "nsdecls": 0,
             "types": [], "text": ["fixed"], "resmap": doc.with_resmap}
        out.append((doc, g))
    return out


def replay(ctx, path):
    """re-run the cases named in a replay file (cases are pure functions of (seed, case index); 'fixedN' are the hand-made ones)"""
    import json
    with open(path) as f:
        j = json.load(f)
    ctx.seed = j.get("seed", ctx.seed)
    ctx.rule = "replay of %s" % path
    fixed = fixed_cases(ctx)
    for w in j["witnesses"]:
        c = w.get("case")
        if isinstance(c, int):
            doc, feats = make_case(ctx.rng("c26", c))
        elif isinstance(c, str) and c.startswith("fixed"):
            doc, feats = fixed[int(c[5:])]
        else:
            continue
        run_case(ctx, doc, feats, c)
        ctx.sig("replay", c)
        ctx.sample({"replayed_case": c})
    ctx.min_distinct = 1


def twin_byte_cases(ctx):
    """documents converted one after the other in ONE process whose pools hold the same raw bytes with different meanings: a text in a UTF-8 pool
    and the text the same bytes spell in a UTF-16 pool (and the reverse order, and CESU-8 next to UTF-8). Anything a conversion keeps beyond the
    document it belongs to shows as the other document's text."""
    rng = ctx.rng("c26-twins")
    n = 0
    for k in range(40 if ctx.quick else 2000):
        m = rng.choice((2, 2, 4, 6, 8))
        if k % 3 == 0:
            a = "".join(rng.choice("abcdefghijklmnopqrstuvwxyz") for _ in range(m))       # ASCII pairs = CJK code units
        elif k % 3 == 1:
            a = "".join(rng.choice("\u00e9\u00fc\u0416\u03a9") for _ in range(m // 2))         # 2-byte UTF-8 sequences = one UTF-16 unit each
        else:
            a = "".join(rng.choice("\u4e2d\u6587\u20ac") for _ in range(2)) + "ab"                 # 3-byte sequences, 8 bytes in all
        raw = a.encode("utf-8")
        if len(raw) % 2:
            raw += b"x"
            a += "x"
        b = raw.decode("utf-16-le", "surrogatepass")
        if any(0xD800 <= ord(c) < 0xE000 or ord(c) in (0xFFFE, 0xFFFF) or ord(c) < 0x20 for c in b):
            continue
        docs = [(a, True), (b, False)]
        if k % 2:
            docs.reverse()
        for text, utf8 in docs:
            for where in ("attr", "text"):
                root = W.Elem(None, "r", attrs=[W.Attr(None, "v", W.TYPE_STRING, value=text)] if where == "attr" else [],
                              children=[W.Text(text)] if where == "text" else [])
                g = {"special": "same-bytes-other-encoding", "pool": "utf8" if utf8 else "utf16", "elements": 1, "depth": 0, "nsdecls": 0, "types": [],
                     "text": [where, len(raw)], "resmap": True}
                run_case(ctx, W.Doc(root, utf8=utf8), g, "twin%d" % k)
                n += 1
    ctx.count("documents_with_same_pool_bytes_in_the_other_encoding", n)


def run(ctx):
    ctx.rule = ("random XML trees (depth <= 6, <= 40 elements; nested/re-declared namespace scopes; attributes of every Res_value type incl. raw values kept; "
                "text chunks; resource-id map with known, unknown and name-stripped ids; UTF-8 and UTF-16 pools incl. 2-byte/2-unit length forms; comments; "
                "id/class/style indices) serialised by vf.model.axmlw (self-checked by its independent reader) and parsed by AXMLPrinter; compared on tag QName, "
                "attribute QName -> value, text/tail and child order, for get_xml_obj() and the re-parsed get_xml(pretty=False/True). Each case has at most one "
                "'special' feature. distinct non-trivial = distinct (pool encoding, depth, #elements, #ns decls, value types used, special feature, text kinds); "
                "a case counts only when its tree was actually compared")
    ctx.assumptions = ["names are ASCII NCNames; values/text are legal XML Chars; every used namespace URI is declared in scope",
                       "ElementTree text model (text / tail); comments ignored; None == '' for text",
                       "typed values compared by value with vf.checks.c27.expected_ok; TYPE_NULL / dynamic reference / dynamic attribute strings are don't-care",
                       "a resource-map id of a known framework attribute names the attribute (pool string equal or stripped)",
                       "trusted base: vf.model.axmlw (round-tripped through its own reader, which also reads every well-formed shipped AXML file)"]
    for i, (doc, feats) in enumerate(fixed_cases(ctx)):
        run_case(ctx, doc, feats, "fixed%d" % i)
    twin_byte_cases(ctx)
    n = 3200 if ctx.quick else 240000
    per = n // 16
    ctx.run_shards(MOD, "shard", [[k * per, (k + 1) * per] for k in range(16)], timeout=1500)
    ctx.require_counter("AXMLPrinter", 500)
    ctx.require_counter("get_xml_reparse", 200)
    ctx.require_counter("cases_base", 50)
    ctx.require_counter("documents_with_same_pool_bytes_in_the_other_encoding", 40)
    ctx.min_distinct = 50
