"""Shared workload for C18 (dominators) and C19 (RPO): real Graph / StatementBlock objects, real
immediate_dominators() / compute_rpo(), compared with textbook algorithms in vf/model/graphs.py."""
from vf.model import graphs as G

MOD = "vf.checks.graphwork"


def _mk_nodes(n):
    from androguard.decompiler.basic_blocks import StatementBlock
    return [StatementBlock("n%d" % i, []) for i in range(n)]


def _build(nodes, adj, catch, use_api):
    """adj[i], catch[i]: bitmasks of normal / catch successors"""
    from androguard.decompiler.graph import Graph
    g = Graph()
    n = len(adj)
    for nd in nodes[:n]:
        nd.num = 0
        nd.po = 0
        nd.catch_type = None
        g.add_node(nd)
    g.entry = nodes[0]
    for u in range(n):
        m = adj[u]
        while m:
            b = m & -m
            v = b.bit_length() - 1
            m ^= b
            if (catch[u] >> v) & 1:
                if use_api:
                    g.add_catch_edge(nodes[u], nodes[v])
                else:
                    g.catch_edges[nodes[u]].append(nodes[v])
                    g.reverse_catch_edges[nodes[v]].append(nodes[u])
            else:
                if use_api:
                    g.add_edge(nodes[u], nodes[v])
                else:
                    g.edges[nodes[u]].append(nodes[v])
                    g.reverse_edges[nodes[v]].append(nodes[u])
    return g


def check_graph(ctx, which, nodes, adj, catch, use_api=True, idom_ref=None, tag="", sigextra=()):
    n = len(adj)
    g = _build(nodes, adj, catch, use_api)
    index = {id(nodes[i]): i for i in range(n)}
    reach = G.reach_from(adj, 0)
    rooted = reach == (1 << n) - 1
    nedges = sum(bin(a).count("1") for a in adj)
    selfloop = any((adj[i] >> i) & 1 for i in range(n))
    ncatch = sum(bin(catch[i] & adj[i]).count("1") for i in range(n))
    if which == "C18":
        ctx.ev()
        ctx.count("immediate_dominators_calls")
        try:
            dom = g.immediate_dominators()
        except Exception as e:
            ctx.violation("dom-raises", "immediate_dominators raises", {"n": n, "adj": adj, "catch": catch, "exc": repr(e)[:300]})
            return
        got = {}
        for k, v in dom.items():
            got[index[id(k)]] = None if v is None else index[id(v)]
        want = idom_ref if idom_ref is not None else G.idoms(adj, 0)
        if got != want:
            mech = "dom-wrong"
            if set(got) != set(want):
                mech = "dom-keyset"
            elif got.get(0, 1) is not None:
                mech = "dom-entry-not-none"
            ctx.violation(mech, "immediate dominators differ from the definition", {"n": n, "adj": adj, "catch": catch, "got": got, "want": want, "tag": tag})
        # non-trivial: some node whose idom is not its (unique) predecessor or graph has a join
        nontriv = any(w is not None and bin(sum(1 << u for u in range(n) if (adj[u] >> v) & 1)).count("1") > 1 for v, w in want.items())
        if nontriv:
            if n <= 5:
                ctx.sig("C18", n, tuple(sorted(want.items())), selfloop, ncatch > 0, rooted, *sigextra)
            else:
                ctx.sig("C18", n, nedges, selfloop, ncatch > 0, tag, *sigextra)
    else:
        if not rooted:
            ctx.count("skipped_not_rooted")
            return
        ctx.ev()
        ctx.count("compute_rpo_calls")
        try:
            g.compute_rpo()
        except Exception as e:
            ctx.violation("rpo-raises", "compute_rpo raises", {"n": n, "adj": adj, "catch": catch, "exc": repr(e)[:300]})
            return
        num = [nodes[i].num for i in range(n)]
        wit = {"n": n, "adj": adj, "catch": catch, "num": num, "tag": tag}
        if num[0] != 1:
            ctx.violation("rpo-entry-not-1", "entry is not numbered 1", wit)
            return
        if sorted(num) != list(range(1, n + 1)):
            ctx.violation("rpo-not-permutation", "numbers are not a permutation of 1..n", wit)
            return
        if [index[id(x)] for x in g.rpo] != sorted(range(n), key=lambda i: num[i]):
            ctx.violation("rpo-list-order", "graph.rpo is not sorted by num", wit)
            return
        # every edge u->v with num[u] >= num[v] must be a back edge: v reaches u
        reach_cache = {}
        nback = 0
        for u in range(n):
            m = adj[u]
            while m:
                b = m & -m
                v = b.bit_length() - 1
                m ^= b
                if num[u] >= num[v]:
                    nback += 1
                    if v not in reach_cache:
                        reach_cache[v] = G.reach_from(adj, v)
                    if not (reach_cache[v] >> u) & 1:
                        ctx.violation("rpo-forward-edge-inverted", "a non-back edge has source numbered >= target", dict(wit, edge=[u, v]))
                        return
        for v in range(1, n):
            if not any((adj[u] >> v) & 1 and num[u] < num[v] for u in range(n)):
                ctx.violation("rpo-no-earlier-pred", "a non-entry node has no predecessor with a smaller number", dict(wit, node=v))
                return
        # numbering the same Graph object again (the decompiler does so after every graph edit) must give a valid numbering too
        try:
            g.compute_rpo()
            num2 = [nodes[i].num for i in range(n)]
        except Exception as e:
            ctx.violation("rpo-second-call-raises", "a second compute_rpo on the same graph raises", dict(wit, exc=repr(e)[:200]))
            return
        if num2 != num:
            ctx.violation("rpo-second-call-differs", "numbering the same unchanged graph a second time gives other numbers", dict(wit, second=num2))
            return
        ctx.count("second_compute_rpo_calls")
        if n >= 3 and nedges >= n:
            if n <= 5:
                ctx.sig("C19", n, tuple(num), nback, selfloop, ncatch > 0, *sigextra)
            else:
                ctx.sig("C19", n, nedges, nback, selfloop, ncatch > 0, tag, *sigextra)


def _unpack(code, n):
    mask = (1 << n) - 1
    return [(code >> (i * n)) & mask for i in range(n)]


def shard_exhaustive(ctx, arg):
    which, n, lo, hi = arg
    nodes = _mk_nodes(n)
    zero = [0] * n
    for code in range(lo, hi):
        adj = _unpack(code, n)
        # catch colouring: a deterministic pseudo-random subset of edges for 1 in 4 graphs
        h = (code * 2654435761 + ctx.seed * 40503) & 0xFFFFFFFF
        if h & 3 == 0:
            cm = _unpack((h >> 2) * 0x9E3779B1 & ((1 << (n * n)) - 1), n)
            catch = [cm[i] & adj[i] for i in range(n)]
        else:
            catch = zero
        check_graph(ctx, which, nodes, adj, catch, use_api=bool(h & 4), tag="exh%d" % n)
    ctx.count("exhaustive_graphs_n%d" % n, hi - lo)
    if lo == 0 and n == 4:
        ctx.sample({"exhaustive_n": 4, "code": 0x1234, "succ_masks": _unpack(0x1234, 4)})


def gen_random(rng, n, family):
    adj = [0] * n
    if family == "chain_back":
        for i in range(n - 1):
            adj[i] |= 1 << (i + 1)
        for _ in range(rng.randint(0, n)):
            a, b = rng.randrange(n), rng.randrange(n)
            adj[max(a, b)] |= 1 << min(a, b)
    elif family == "ladder":
        for i in range(n - 1):
            adj[i] |= 1 << (i + 1)
            if i + 2 < n:
                adj[i] |= 1 << (i + 2)
        for _ in range(rng.randint(0, 4)):
            a, b = rng.randrange(n), rng.randrange(n)
            adj[a] |= 1 << b
    elif family == "irreducible":
        # root -> a, root -> b, a <-> b kernels chained
        for i in range(0, n - 2, 2):
            adj[i] |= (1 << (i + 1)) | (1 << (i + 2))
            adj[i + 1] |= 1 << (i + 2)
            adj[i + 2] |= 1 << (i + 1)
        if n >= 2:
            adj[n - 2] |= 1 << (n - 1)
        for _ in range(rng.randint(0, 3)):
            a, b = rng.randrange(n), rng.randrange(n)
            adj[a] |= 1 << b
    elif family == "complete":
        for i in range(n):
            adj[i] = (1 << n) - 1
            if rng.random() < 0.5:
                adj[i] &= ~(1 << i)
    elif family == "sparse":
        # random tree + extra edges
        for v in range(1, n):
            adj[rng.randrange(v)] |= 1 << v
        for _ in range(rng.randint(0, 2 * n)):
            a, b = rng.randrange(n), rng.randrange(n)
            adj[a] |= 1 << b
    elif family == "dense":
        p = rng.random()
        for i in range(n):
            for j in range(n):
                if rng.random() < p:
                    adj[i] |= 1 << j
    elif family == "diamonds":
        i = 0
        while i + 3 < n:
            adj[i] |= (1 << (i + 1)) | (1 << (i + 2))
            adj[i + 1] |= 1 << (i + 3)
            adj[i + 2] |= 1 << (i + 3)
            if rng.random() < 0.3:
                adj[i + 3] |= 1 << i
            i += 3
        for j in range(i, n - 1):
            adj[j] |= 1 << (j + 1)
    elif family == "unreachable_tail":
        k = max(1, n // 2)
        for v in range(1, k):
            adj[rng.randrange(v)] |= 1 << v
        for v in range(k, n):
            adj[v] |= 1 << rng.randrange(n)
        for _ in range(rng.randint(0, n)):
            a, b = rng.randrange(n), rng.randrange(n)
            adj[a] |= 1 << b
    return adj


FAMILIES = ["chain_back", "ladder", "irreducible", "complete", "sparse", "dense", "diamonds", "unreachable_tail"]


def shard_random(ctx, arg):
    which, idx, count, maxn = arg
    rng = ctx.rng("graphs", which, idx)
    nodes = _mk_nodes(maxn)
    for c in range(count):
        fam = FAMILIES[c % len(FAMILIES)]
        r = rng.random()
        n = rng.randint(2, 12) if r < 0.6 else (rng.randint(13, 60) if r < 0.9 else rng.randint(61, maxn))
        if fam in ("complete", "dense") and n > 40:
            n = rng.randint(5, 40)
        adj = gen_random(rng, n, fam)
        cp = rng.choice([0.0, 0.0, 0.2, 0.5, 1.0])      # 1.0: every edge is an exception edge (no regular edge at all)
        catch = [0] * n
        if cp:
            for i in range(n):
                m = adj[i]
                while m:
                    b = m & -m
                    m ^= b
                    if rng.random() < cp:
                        catch[i] |= b
        # permute labels except root to vary DFS order
        ref = None
        if which == "C18":
            succ = {u: [v for v in range(n) if (adj[u] >> v) & 1] for u in range(n)}
            ref = G.idoms_big(succ, 0)
            if n <= 30:
                ref2 = G.idoms(adj, 0)
                if ref2 != ref:
                    ctx.inconclusive("reference dominator algorithms disagree on %r" % (adj,))
                    continue
        check_graph(ctx, which, nodes, adj, catch, use_api=True, idom_ref=ref, tag=fam, sigextra=(n // 8,))
        if idx == 0 and c < 3:
            ctx.sample({"family": fam, "n": n, "succ": {u: [v for v in range(n) if (adj[u] >> v) & 1] for u in range(min(n, 12))}, "catch_masks": catch[:12]})
    ctx.count("random_graphs", count)


def shard_large(ctx, arg):
    """graphs beyond 1000 nodes (long methods, generated parsers): implementations switch algorithms / hit recursion limits by size"""
    which, idx, count = arg
    rng = ctx.rng("graphs-large", which, idx)
    for c in range(count):
        fam = ["ladder", "chain_back", "diamonds", "sparse", "irreducible", "wide_switch", "deep_chain"][(c + idx) % 7]
        n = rng.choice([1001, 1024, 1500, 2048, 3000])
        catch = None
        if fam == "wide_switch":
            # a switch with thousands of cases that all lead to one merge block, followed by an if-without-else and a try/catch: 5000+ nodes, 6 blocks deep
            n = rng.choice([4890, 4900, 4901, 5000, 6000])
            mrg, a, b, cc, ex = n - 5, n - 4, n - 3, n - 2, n - 1
            adj = [0] * n
            for i in range(1, mrg):
                adj[0] |= 1 << i
                adj[i] = 1 << mrg
            adj[mrg] = (1 << a) | (1 << b)
            adj[a] = (1 << b) | (1 << cc)
            adj[b] = 1 << cc
            adj[cc] = 1 << ex
            catch = [0] * n
            catch[a] = 1 << cc
        elif fam == "deep_chain":
            # a straight-line region of thousands of blocks closed by a back edge from its bottom to its top, a handler in the middle
            n = rng.choice([2400, 2600, 3000, 3500, 3800])
            adj = [0] * n
            for i in range(n - 1):
                adj[i] = 1 << (i + 1)
            adj[n - 2] |= 1 << 1
            mid = n // 2
            adj[mid] |= 1 << (mid + 5)
            catch = [0] * n
            catch[mid] = 1 << (mid + 5)
        else:
            adj = gen_random(rng, n, fam)
        if catch is not None:
            pass
        elif rng.random() < 0.3:
            catch = [0] * n
            for i in range(0, n, 7):
                catch[i] = adj[i] & -adj[i] if adj[i] else 0
        else:
            catch = [0] * n
        ref = None
        if which == "C18":
            ref = G.idoms_big({u: [v for v in range(n) if (adj[u] >> v) & 1] for u in range(n)}, 0)
        ctx.count("large_graphs")
        check_graph(ctx, which, _mk_nodes(n), adj, catch, use_api=True, idom_ref=ref, tag="large-" + fam, sigextra=(n,))


def _reach(succ, s):
    seen = {s}
    st = [s]
    while st:
        u = st.pop()
        for v in succ.get(u, ()):
            if v not in seen:
                seen.add(v)
                st.append(v)
    return seen


def shard_history(ctx, arg):
    """C19/C18 on graphs that are EDITED between numberings, the way the decompiler uses a Graph: add nodes and edges, remove nodes, re-insert a
    then compute_rpo / immediate_dominators again; a model graph (dict of successor sets) is kept in parallel. (Re-inserting a removed node OBJECT is
    not generated: Graph.remove_node leaves the node's own adjacency entries behind, so what graph such an object denotes is undefined.)"""
    which, idx, count = arg
    from androguard.decompiler.basic_blocks import StatementBlock
    from androguard.decompiler.graph import Graph
    rng = ctx.rng("graph-history", which, idx)
    for c in range(count):
        g = Graph()
        nodes = []
        succ = {}
        hist = []
        counter = [0]

        def new_node():
            counter[0] += 1
            nd = StatementBlock("h%d" % counter[0], [])
            g.add_node(nd)
            nodes.append(nd)
            succ[nd] = set()
            return nd
        entry = new_node()
        g.entry = entry
        for _ in range(rng.randint(2, 6)):
            nd = new_node()
            p = rng.choice(nodes[:-1])
            g.add_edge(p, nd)
            succ[p].add(nd)
        removed = []
        state_keep = []     # unfinished iterators stay alive (not garbage collected) while the graph is used on
        for step in range(rng.randint(1, 10)):
            r = rng.random()
            if r < 0.2:
                a, b = rng.choice(nodes), rng.choice(nodes)
                g.add_edge(a, b)
                succ[a].add(b)
                hist.append(("edge", nodes.index(a), nodes.index(b)))
            elif r < 0.35:
                # exception edge (try block -> handler): a successor like any other for dominators and numbering
                a, b = rng.choice(nodes), rng.choice(nodes[1:])
                g.add_catch_edge(a, b)
                succ[a].add(b)
                hist.append(("catch-edge", nodes.index(a), nodes.index(b)))
            elif r < 0.5:
                nd = new_node()
                p = rng.choice(nodes[:-1])
                g.add_edge(p, nd)
                succ[p].add(nd)
                hist.append(("new", nodes.index(p)))
            elif r < 0.65 and len(nodes) > 2:
                nd = rng.choice(nodes[1:])
                preds = [u for u in nodes if nd in succ[u] and u is not nd]
                g.remove_node(nd)
                nodes.remove(nd)
                del succ[nd]
                for u in succ:
                    succ[u].discard(nd)
                removed.append((nd, preds))
                hist.append(("remove", nd.name))
            elif r < 0.8:
                # a traversal that is not run to its end (a caller leaving `for n in g.post_order()` early, zip() over two walks): no effect on later answers
                k = rng.randrange(0, len(nodes))
                try:
                    it = g.post_order()
                    for _ in range(k):
                        next(it, None)
                    if rng.random() < 0.5:
                        it.close()
                    state_keep.append(it)
                except Exception:
                    pass
                hist.append(("walk-left-after-%d-nodes" % k,))
                ctx.count("history_partial_walks")
            else:
                hist.append(("renumber",))
            # only rooted graphs are in C19's domain
            reach = _reach(succ, entry)
            if len(reach) != len(nodes):
                continue
            ctx.ev()
            ctx.count("history_steps_checked")
            wit = {"history": hist, "nodes": [x.name for x in nodes], "succ": {x.name: sorted(y.name for y in succ[x]) for x in nodes}}
            if which == "C19":
                try:
                    g.compute_rpo()
                except Exception as e:
                    ctx.violation("rpo-history-raises", "compute_rpo raises on an edited graph", dict(wit, exc=repr(e)[:200]))
                    break
                num = {x: x.num for x in nodes}
                wit["num"] = [x.num for x in nodes]
                bad = None
                if entry.num != 1:
                    bad = "rpo-entry-not-1"
                elif sorted(num.values()) != list(range(1, len(nodes) + 1)):
                    bad = "rpo-not-permutation"
                else:
                    for u in nodes:
                        for v in succ[u]:
                            if num[u] >= num[v] and u not in _reach(succ, v):
                                bad = "rpo-forward-edge-inverted"
                    for v in nodes[1:] if nodes[0] is entry else nodes:
                        if v is not entry and not any(v in succ[u] and num[u] < num[v] for u in nodes):
                            bad = bad or "rpo-no-earlier-pred"
                if bad:
                    ctx.violation(bad + "-after-graph-edits", "after a sequence of graph edits the numbering is not a valid reverse post-order", wit)
                    break
            else:
                try:
                    dom = g.immediate_dominators()
                except Exception as e:
                    ctx.violation("dom-history-raises", "immediate_dominators raises on an edited graph", dict(wit, exc=repr(e)[:200]))
                    break
                ref = G.idoms_big({u: list(succ[u]) for u in nodes}, entry)
                got = {k: v for k, v in dom.items()}
                if got != ref:
                    ctx.violation("dom-wrong-after-graph-edits", "after a sequence of graph edits the dominators differ from the definition",
                                  dict(wit, got={k.name: (v.name if v else None) for k, v in got.items()}, want={k.name: (v.name if v else None) for k, v in ref.items()}))
                    break
            ctx.sig(which, "hist", len(nodes), tuple(h[0] for h in hist)[-4:])


def shard_pipeline(ctx, arg):
    """runtime monitor on the REAL pipeline: Graph.compute_rpo / Graph.immediate_dominators are wrapped by a postcondition while shipped and
    generated methods are decompiled (the graphs are the ones construct / split_if_nodes / simplify / the structuring passes leave behind).
    Ground truth = the graph's own node list and all_sucs at the time of the call."""
    which, source = arg
    import glob
    import os
    import random
    from androguard.decompiler import graph as GR
    from androguard.decompiler.decompile import DvMethod
    from vf.checks import c21
    from vf.harness import REPO
    state = {"cur": None, "calls": 0, "bad": []}

    def model(g):
        nodes = list(dict.fromkeys(g.nodes))     # a node listed twice is still one node of the graph
        succ = {u: [v for v in g.all_sucs(u)] for u in nodes}
        return nodes, succ

    if which == "C19":
        orig = GR.Graph.compute_rpo

        def compute_rpo(self):
            r = orig(self)
            state["calls"] += 1
            nodes, succ = model(self)
            ent = self.entry
            if ent not in succ:
                state["bad"].append(("rpo-entry-is-not-a-node-of-the-graph", state["cur"], {"entry": str(ent), "nodes": [str(x) for x in nodes][:12]}))
                return r
            if any(v not in succ for u in nodes for v in succ[u]):
                return r   # dangling successor: not a graph the statement speaks about
            reach = _reach({u: set(vs) for u, vs in succ.items()}, ent)
            if len(reach) != len(nodes):
                state["unrooted"] = state.get("unrooted", 0) + 1
                return r
            num = {u: u.num for u in nodes}
            bad = None
            if ent.num != 1:
                bad = "rpo-entry-not-1"
            elif sorted(num.values()) != list(range(1, len(nodes) + 1)):
                bad = "rpo-not-permutation"
            else:
                rc = {}
                for u in nodes:
                    for v in succ[u]:
                        if num[u] >= num[v]:
                            if v not in rc:
                                rc[v] = _reach({a: set(b) for a, b in succ.items()}, v)
                            if u not in rc[v]:
                                bad = "rpo-forward-edge-inverted"
            if bad:
                state["bad"].append((bad + "-in-decompilation-pipeline", state["cur"], {"num": {str(u): u.num for u in nodes}, "succ": {str(u): [str(v) for v in succ[u]] for u in nodes}}))
            elif len(nodes) >= 3:
                ctx.sig("C19", "pipeline", len(nodes), sum(len(v) for v in succ.values()))
            return r
        GR.Graph.compute_rpo = compute_rpo
    else:
        orig = GR.Graph.immediate_dominators

        def immediate_dominators(self):
            r = orig(self)
            state["calls"] += 1
            nodes, succ = model(self)
            if self.entry not in succ or any(v not in succ for u in nodes for v in succ[u]):
                return r
            ref = G.idoms_big(succ, self.entry)
            got = {k: v for k, v in r.items() if k in ref}
            if got != ref or any(k not in ref and v is not None for k, v in r.items()):
                state["bad"].append(("dom-wrong-in-decompilation-pipeline", state["cur"], {"got": {str(k): str(v) for k, v in r.items()}, "want": {str(k): str(v) for k, v in ref.items()}}))
            elif len(nodes) >= 4:
                ctx.sig("C18", "pipeline", len(nodes), sum(len(v) for v in succ.values()))
            return r
        GR.Graph.immediate_dominators = immediate_dominators
    # ---- workload
    datas = []
    if source == "generated":
        from vf.gen import intprog as IP
        rng = random.Random("graph-pipeline")
        ms = IP.pattern_methods(rng) + IP.random_methods(rng, "P5", 150 if ctx.quick else 1500) + IP.random_methods(rng, "P3", 100 if ctx.quick else 1000)
        cases = c21.to_cases(ms, "GP", rng, {})
        datas.append(("generated", c21.build_dex(cases)))
    elif source == "crafted":
        # entry blocks that end up EMPTY (only a goto / nop / a dead store) in front of loops of every latch shape; loops closed by a plain
        # statement block (while(true) with a return inside); handlers - shapes javac+dx rarely emit but every DEX may contain
        from vf.model import dexw as W
        m = W.DexModel()
        c = m.add_class("Lg/C;")
        ST = W.ACC_PUBLIC | W.ACC_STATIC
        loop_exit_in_middle = [("add-int/lit8", 1, 1, -1), ("if-lez", 1, 4), ("add-int/lit8", 2, 2, 1), ("goto", -5), ("return", 2)]      # regs: v0 scratch, p0=v1, p1=v2
        loop_bottom = [("add-int/lit8", 2, 2, 3), ("add-int/lit8", 1, 1, -1), ("if-gtz", 1, -4), ("return", 2)]
        loop_top = [("if-lez", 1, 6), ("add-int/lit8", 2, 2, 3), ("add-int/lit8", 1, 1, -1), ("goto", -6), ("return", 2)]
        k = 0
        for pre in ([("goto", 1)], [("nop",), ("goto", 1)], [("const/4", 0, 0)], [("nop",)], [("const/4", 0, 0), ("goto", 1)], []):
            for body in (loop_exit_in_middle, loop_bottom, loop_top):
                c.add_method("c%d" % k, "I", ("I", "I"), ST, W.Code(3, 2, 0, list(pre) + list(body)))
                k += 1
        # empty entry -> statement block E (loop head, left by a fall-through into a block that is also a jump target) ... -> statement block L -> E
        for pre in ([("goto", 1)], [("nop",), ("goto", 1)], [("const/4", 0, 0)], [("const/4", 0, 0), ("goto", 1)]):
            body = [("add-int/lit8", 2, 2, 1),          # E
                    ("if-lez", 1, 10),                  # A -> X
                    ("if-gtz", 2, 5),                   # B -> L
                    ("add-int/lit8", 2, 2, -7),         # M
                    ("goto", -6),                       #   -> A
                    ("add-int/lit8", 1, 1, -1),         # L
                    ("goto", -11),                      #   -> E
                    ("return", 2)]                      # X
            c.add_method("c%d" % k, "I", ("I", "I"), ST, W.Code(3, 2, 0, list(pre) + body))
            k += 1
        # one try block naming the SAME handler address several times (multi-catch, typed handler sharing its code with the catch-all)
        # regs: v0 scratch, p0=v1, p1=v2 ; 0: div-int v0,p0,p1 (2) ; 2: return v0 ; 3: const/4 v0,-1 ; 4: return v0
        body = [("div-int", 0, 1, 2), ("return", 0), ("const/4", 0, -1), ("return", 0)]
        for hs, ca in (([("Ljava/lang/ArithmeticException;", 3), ("Ljava/lang/RuntimeException;", 3)], None),
                       ([("Ljava/lang/ArithmeticException;", 3)], 3),
                       ([("Ljava/lang/ArithmeticException;", 3), ("Ljava/lang/Exception;", 3)], 3)):
            c.add_method("c%d" % k, "I", ("I", "I"), ST, W.Code(3, 2, 0, list(body), [W.Try(0, 2, hs, ca)]))
            k += 1
        datas.append(("crafted", W.write_dex(m)))
    else:
        with open(source, "rb") as f:
            datas.append((os.path.basename(source), f.read()))
    for name, data in datas:
        try:
            d, dx = c21.load_dad(data)
        except Exception as e:
            ctx.inconclusive("pipeline workload: cannot load %s: %r" % (name, e))
            continue
        for em in d.get_encoded_methods():
            if em.get_code() is None:
                continue
            state["cur"] = "%s|%s->%s%s" % (name, em.get_class_name(), em.get_name(), em.get_descriptor())
            ctx.ev()
            ctx.count("pipeline_methods_decompiled")
            try:
                DvMethod(dx.get_method(em)).process()
            except Exception:
                ctx.count("pipeline_decompile_raises")
    ctx.count("pipeline_monitored_calls", state["calls"])
    ctx.count("pipeline_unrooted_graphs_skipped", state.get("unrooted", 0))
    for mech, cur, wit in state["bad"]:
        ctx.violation(mech, "a numbering / dominator tree computed while decompiling a method violates the statement on the graph it was computed for", dict(wit, method=cur))


def run(ctx, which):
    ctx.rule = ("real Graph of StatementBlock nodes (edges split between edges/catch_edges); "
                "exhaustive: every adjacency matrix on n labelled nodes with entry 0 (self-loops, 2-cycles, unreachable nodes included for C18; "
                "C19 keeps only graphs where every node is reachable); random families chain+back edges, ladder, irreducible kernels, complete, "
                "sparse, dense, diamonds, unreachable tails up to 300 nodes. distinct non-trivial = distinct "
                + ("(n, idom vector, selfloop, catch, rooted) with at least one join node" if which == "C18"
                   else "(n, numbering, #retreating edges, selfloop, catch) with n>=3 and edges>=n"))
    ctx.assumptions = ["reference: iterative dominator sets (bitmask) cross-checked against Cooper-Harvey-Kennedy on every random graph with n<=30",
                       "C19 domain: rooted graphs (every node reachable from the entry), as Graph.construct produces"]
    shards = []
    nmax = 4 if ctx.quick else 5
    for n in range(1, nmax + 1):
        total = 1 << (n * n)
        parts = 1 if total <= 4096 else (16 if n == 4 else 256)
        step = total // parts
        for p in range(parts):
            shards.append(("shard_exhaustive", (which, n, p * step, total if p == parts - 1 else (p + 1) * step)))
    nrand = 20000 if ctx.quick else 200000
    per = nrand // 16
    for i in range(16):
        shards.append(("shard_random", (which, i, per, 300)))
    for i in range(4):
        shards.append(("shard_history", (which, i, 500 if ctx.quick else 20000)))
    for i in range(7 if ctx.quick else 14):
        shards.append(("shard_large", (which, i, 2 if ctx.quick else 14)))     # family = (case + shard) mod 7: every family in both tiers
    import glob
    import os
    from vf.harness import REPO
    shards.append(("shard_pipeline", (which, "generated")))
    shards.append(("shard_pipeline", (which, "crafted")))
    for f in sorted(glob.glob(os.path.join(REPO, "tests", "data", "APK", "*.dex"))):
        if os.path.getsize(f) < (700000 if ctx.quick else 10 ** 9):
            shards.append(("shard_pipeline", (which, f)))
    # run_shards takes a single func; dispatch through one entry point
    ctx.run_shards(MOD, "dispatch", [[f, list(a)] for f, a in shards], timeout=3000)
    ctx.exhaustive = True
    ctx.extra["exhaustive_part"] = "all 2^(n*n) adjacency matrices for n <= %d" % nmax
    ctx.require_counter("immediate_dominators_calls" if which == "C18" else "compute_rpo_calls", 1000)
    ctx.require_counter("history_steps_checked", 200)
    ctx.require_counter("pipeline_monitored_calls", 1000)
    ctx.min_distinct = 20


def dispatch(ctx, arg):
    f, a = arg
    globals()[f](ctx, a)
