"""Shared workload for C13 (method xrefs), C14 (field xrefs), C15 (string / class-usage xrefs) and the canonical analysis dump used by C16."""
from vf.gen import refprog as R
from vf.harness import exc_str
from vf.model import dexw as W

MOD = "vf.checks.xrefwork"


def nosp(s):
    return str(s).replace(" ", "")


def mkey_of(ma):
    return (ma.class_name, ma.name, nosp(ma.descriptor))


def early_look(dx, rng):
    """what a script does with a freshly parsed DEX before any analysis exists: look at the first instruction(s) of a few methods, ask for one offset"""
    n = 0
    for em in dx.get_encoded_methods():
        code = em.get_code()
        if code is None or rng.random() < 0.4:
            continue
        k = rng.randrange(4)
        try:
            if k == 0:
                next(iter(em.get_instructions()), None)
            elif k == 1:
                for j, ins in enumerate(em.get_instructions()):
                    if j >= rng.randrange(1, 4):
                        break
            elif k == 2:
                code.get_bc().get_ins_off(rng.choice([0, 2, 4]))
            else:
                code.get_bc().off_to_pos(rng.choice([0, 2, 4]))
            n += 1
        except Exception:
            pass
    return n


def analyse(datas, before_xref=None, look_rng=None):
    from androguard.core import dex
    from androguard.core.analysis.analysis import Analysis
    an = Analysis()
    dxs = []
    for d in datas:
        dx = dex.DEX(d)
        if look_rng is not None:
            early_look(dx, look_rng)
        an.add(dx)
        dxs.append(dx)
    if before_xref:
        before_xref(an, dxs)
    an.create_xref()
    return an, dxs


def expected(classes):
    """model -> expectation tables"""
    defined_methods = {m.key for c in classes for m in c.methods}
    defined_fields = {(c.name, f[0], f[1]) for c in classes for f in c.sfields + c.ifields}
    class_names = {c.name for c in classes}
    exp = {"xref_to": {}, "xref_from": {}, "field_read": {}, "field_write": {}, "meth_read": {}, "meth_write": {}, "string": {}, "new_instance": {}, "const_class": {},
           "m_new_instance": {}, "m_const_class": {}, "callgraph": set(), "special_invokes": []}
    for c in classes:
        for m in c.methods:
            mk = m.key
            for off, kind, opname, tgt in m.sites:
                if kind == "invoke":
                    cls = tgt[0]
                    if cls.startswith("["):
                        exp["special_invokes"].append((mk, off, tgt))
                        continue
                    exp["xref_to"].setdefault(mk, set()).add((tgt, off))
                    exp["xref_from"].setdefault(tgt, set()).add((mk, off))
                    exp["callgraph"].add((mk, tgt))
                elif kind in ("field-read", "field-write"):
                    if tgt in defined_fields:
                        t = "field_read" if kind == "field-read" else "field_write"
                        exp[t].setdefault(tgt, set()).add((c.name, mk, off))
                        exp["meth_read" if kind == "field-read" else "meth_write"].setdefault(mk, set()).add((tgt, off))
                elif kind == "string":
                    exp["string"].setdefault(tgt, set()).add((c.name, mk, off))
                elif kind in ("new-instance", "const-class"):
                    base = tgt.lstrip("[")
                    if not base.startswith("L"):
                        continue  # primitive array: no class
                    if tgt.startswith("[") or base == c.name:
                        continue  # array-of-class recorded on the element class / self reference: don't care
                    k = "new_instance" if kind == "new-instance" else "const_class"
                    exp[k].setdefault(base, set()).add((mk, off))
                    exp["m_" + k].setdefault(mk, set()).add((base, off))
    exp["defined_methods"] = defined_methods
    exp["defined_fields"] = defined_fields
    exp["class_names"] = class_names
    return exp


def dontcare_class_sites(classes):
    """(method key, offset) of const-class/new-instance sites that are don't-care: an array of ANOTHER class (androguard books it on the element
    class; the statement does not say). A reference of a class to itself or to an array of itself is not "on another class" under either
    reading, so it must not appear in any list ("nothing else appears there")."""
    out = set()
    for c in classes:
        for m in c.methods:
            for off, kind, opname, tgt in m.sites:
                if kind in ("new-instance", "const-class"):
                    base = tgt.lstrip("[")
                    if base.startswith("L") and tgt.startswith("[") and base != c.name:
                        out.add((m.key, off, base))
    return out


def check(ctx, which, classes, an, dxs, wit):
    exp = expected(classes)

    def viol(mech, what, extra):
        w = dict(wit)
        w.update(extra)
        ctx.violation(mech, what, w)
    # map real objects
    em_by_key = {}
    for dx in dxs:
        for em in dx.get_encoded_methods():
            em_by_key[(em.get_class_name(), em.get_name(), nosp(em.get_descriptor()))] = em
    ef_by_key = {}
    for dx in dxs:
        for ef in dx.get_encoded_fields():
            ef_by_key[(ef.get_class_name(), ef.get_name(), ef.get_descriptor())] = ef
    if which == "C13":
        stubs = {}
        for mk in sorted(exp["defined_methods"]):
            ma = an.get_method(em_by_key[mk])
            ctx.count("methods_checked")
            got = set()
            for (ca, callee, off) in ma.get_xref_to():
                ck = mkey_of(callee)
                got.add((ck, off))
                stubs.setdefault(ck, set()).add(id(callee))
                if ca.name != ck[0]:
                    viol("xref-to-class-mismatch", "the class reported with a callee is not the callee's class", {"method": mk, "callee": ck, "class": ca.name})
                if ck in exp["defined_methods"]:
                    if callee.is_external() or callee is not an.get_method(em_by_key[ck]):
                        viol("callee-not-resolved-to-defined-method", "a call to a defined method is not resolved to its MethodAnalysis", {"method": mk, "callee": ck})
                elif not callee.is_external():
                    viol("callee-external-flag", "an undefined callee is not an external stub", {"method": mk, "callee": ck})
            want = exp["xref_to"].get(mk, set())
            # array-class invokes (known behaviour pools)
            special = [(o, t) for (k2, o, t) in exp["special_invokes"] if k2 == mk]
            for o, t in special:
                elem = t[0].lstrip("[")
                if elem.startswith("L"):
                    if ((elem, t[1], t[2]), o) in got:
                        got.discard(((elem, t[1], t[2]), o))
                        viol("invoke-on-object-array-class-attributed-to-element-class", "an invoke on an array class [LFoo; is reported as a call to class LFoo;", {"method": mk, "offset": o, "target": t})
                    elif (t, o) not in got:
                        viol("invoke-on-array-class-dropped", "an invoke on an array class is not reported", {"method": mk, "offset": o, "target": t})
                    else:
                        got.discard((t, o))
                else:
                    if (t, o) not in got:
                        viol("invoke-on-primitive-array-class-dropped", "an invoke on a primitive array class ([I->clone()) is not reported", {"method": mk, "offset": o, "target": t})
                    else:
                        got.discard((t, o))
            if got != want:
                mech = "xref-to-missing" if want - got else "xref-to-extra"
                if {g[0] for g in got} == {w_[0] for w_ in want}:
                    mech = "xref-to-offset"
                viol(mech, "reported callees differ from the invoke instructions", {"method": mk, "got": sorted(got), "want": sorted(want)})
            if want:
                ctx.sig("C13", len(want), len({w_[0] for w_ in want}), any(w_[0] not in exp["defined_methods"] for w_ in want), bool(special))
        for ck, ids in stubs.items():
            if len(ids) != 1:
                viol("external-stub-not-shared", "references to one (class, name, descriptor) resolve to several method objects", {"callee": ck, "objects": len(ids)})
        # xref_from of every callee
        all_callees = set(exp["xref_from"]) | exp["defined_methods"]
        for ck in sorted(all_callees):
            ma = an.get_method_analysis_by_name(ck[0], ck[1], spaced(ck[2]))
            want = exp["xref_from"].get(ck, set())
            if ma is None:
                if want:
                    viol("callee-unknown", "a called method has no MethodAnalysis", {"callee": ck})
                continue
            got = {(mkey_of(caller), off) for (ca, caller, off) in ma.get_xref_from()}
            # remove element-class attributions of array invokes (known mechanism, reported above)
            for (k2, o, t) in exp["special_invokes"]:
                elem = t[0].lstrip("[")
                if (elem, t[1], t[2]) == ck:
                    got.discard((k2, o))
            if got != want:
                viol("xref-from-not-symmetric", "a callee's caller list is not the inverse of the callers' callee lists", {"callee": ck, "got": sorted(got), "want": sorted(want)})
        # class level and call graph
        try:
            cg = an.get_call_graph()
            edges = {(mkey_of(a), mkey_of(b)) for a, b in cg.edges()}
            sp = {(k2, (t[0].lstrip("["), t[1], t[2])) for (k2, o, t) in exp["special_invokes"]}
            if edges - sp != exp["callgraph"] - sp:
                viol("callgraph-edges", "call graph edges differ from the reported callees", {"missing": sorted(exp["callgraph"] - edges)[:5], "extra": sorted(edges - sp - exp["callgraph"])[:5]})
            ctx.count("callgraphs_checked")
            # variants: dropping isolated nodes must not drop edges; a class filter keeps exactly the edges leaving that class
            import re as _re
            cg2 = an.get_call_graph(no_isolated=True)
            edges2 = {(mkey_of(a), mkey_of(b)) for a, b in cg2.edges()}
            if edges2 != edges:
                viol("callgraph-no-isolated-loses-edges", "get_call_graph(no_isolated=True) has other edges than the default graph", {"missing": sorted(edges - edges2)[:5], "extra": sorted(edges2 - edges)[:5]})
            some = classes[len(classes) // 2].name
            cg3 = an.get_call_graph(classname=_re.escape(some))
            edges3 = {(mkey_of(a), mkey_of(b)) for a, b in cg3.edges()}
            want3 = {e for e in edges if e[0][0] == some}
            if edges3 != want3:
                viol("callgraph-class-filter", "get_call_graph(classname=X) does not have exactly the edges leaving X", {"class": some, "missing": sorted(want3 - edges3)[:5], "extra": sorted(edges3 - want3)[:5]})
            ctx.count("callgraph_variants_checked", 2)
        except Exception as e:
            viol("callgraph-raises", "get_call_graph raises", {"exc": exc_str(e)})
        for c in classes:
            ca = an.get_class_analysis(c.name)
            got = set()
            for oc, refs in ca.get_xref_to().items():
                for (kind, m2, off) in refs:
                    if int(kind) in (0x1C, 0x22):
                        continue
                    got.add((oc.name, mkey_of(m2), off))
            want = {(t[0], t, off) for m in c.methods for (t, off) in exp["xref_to"].get(m.key, set())}
            for (k2, o, t) in exp["special_invokes"]:
                elem = t[0].lstrip("[")
                got.discard((elem, (elem, t[1], t[2]), o))
            if got != want:
                viol("class-xref-to", "ClassAnalysis.get_xref_to differs from the method-level callees", {"class": c.name, "got": sorted(got)[:8], "want": sorted(want)[:8]})
    elif which == "C14":
        seen_fa = {}
        for fa in an.get_fields():
            f = fa.get_field()
            k = (f.get_class_name(), f.get_name(), f.get_descriptor())
            seen_fa.setdefault(k, []).append(fa)
        for fk in sorted(exp["defined_fields"]):
            ctx.count("fields_checked")
            n = len(seen_fa.get(fk, []))
            if n != 1:
                accessors = {a[0] for kind in ("field_read", "field_write") for a in exp[kind].get(fk, set())}
                dex_of = wit.get("class_to_dex") or {}
                same_dex_other = {a for a in accessors if a != fk[0]}
                if n == 0:
                    mech = "fieldanalysis-missing"
                elif n == 1 + len(same_dex_other):
                    # explained by the known mechanism: one extra FieldAnalysis per *other* accessing class
                    mech = "duplicate-fieldanalysis-for-field-accessed-from-other-class"
                else:
                    mech = "duplicate-fieldanalysis-unexplained"
                viol(mech, "a defined field does not have exactly one FieldAnalysis", {"field": fk, "count": n, "other_accessing_classes": sorted(same_dex_other)})
            ef = ef_by_key.get(fk)
            fa = an.get_field_analysis(ef) if ef is not None else None
            if fa is None:
                viol("get_field_analysis-none", "get_field_analysis returns nothing for a defined field", {"field": fk})
                continue
            for kind, getter in (("field_read", fa.get_xref_read), ("field_write", fa.get_xref_write)):
                got = {(ca.name, mkey_of(ma), off) for (ca, ma, off) in getter(with_offset=True)}
                want = exp[kind].get(fk, set())
                if got != want:
                    missing = want - got
                    extra = got - want
                    if missing and all(w_[0] != fk[0] for w_ in missing) and not extra:
                        # all missing accesses come from other classes
                        mech = "field-of-other-class-xref-on-accessing-class"
                    else:
                        mech = "%s-xref-%s" % (kind.replace("_", "-"), "missing" if missing else "extra")
                    viol(mech, "the FieldAnalysis of a field does not list the accesses to it", {"field": fk, "kind": kind, "got": sorted(got), "want": sorted(want)})
                if want:
                    ctx.sig("C14", kind, len(want), any(w_[0] != fk[0] for w_ in want), any(w_[0] == fk[0] for w_ in want))
        for mk in sorted(exp["defined_methods"]):
            ma = an.get_method(em_by_key[mk])
            for kind, getter in (("meth_read", ma.get_xref_read), ("meth_write", ma.get_xref_write)):
                got = set()
                for (ca, f, off) in getter():
                    ff = f.get_field() if hasattr(f, "get_field") else f
                    got.add(((ff.get_class_name(), ff.get_name(), ff.get_descriptor()), off))
                want = exp[kind].get(mk, set())
                if got != want:
                    mech = "method-%s-list" % kind.split("_")[1]
                    viol(mech, "the accessing method does not list the field accesses it performs", {"method": mk, "got": sorted(got), "want": sorted(want)})
    elif which == "C15":
        sa = {s.get_orig_value(): s for s in an.get_strings()}
        for val in sorted(set(exp["string"]) | set(R.STRINGS)):
            want = exp["string"].get(val, set())
            s = sa.get(val)
            if s is None:
                if want:
                    viol("string-analysis-missing", "a loaded string has no StringAnalysis", {"string": val})
                continue
            ctx.count("strings_checked")
            got = {(ca.name, mkey_of(ma), off) for (ca, ma, off) in s.get_xref_from(with_offset=True)}
            if got != want:
                viol("string-xref-%s" % ("missing" if want - got else "extra"), "const-string sites differ from the string's cross-references", {"string": val, "got": sorted(got), "want": sorted(want)})
            if want:
                ctx.sig("C15s", len(want), len({w_[1] for w_ in want}))
        for val, s in sa.items():
            if val not in exp["string"] and s.get_xref_from():
                viol("string-xref-extra", "a string that no instruction loads has cross-references", {"string": val})
        dc = dontcare_class_sites(classes)
        # const-class on an ARRAY of a class: whether it is recorded on the element class is not fixed by the property (androguard documents that it
        # strips '['), but whatever is done must not depend on the number of dimensions
        arr = {}
        for c in classes:
            for m in c.methods:
                for off, kind, opname, tgt in m.sites:
                    if kind == "const-class" and tgt.startswith("[") and tgt.lstrip("[").startswith("L") and tgt.lstrip("[") != c.name:
                        arr.setdefault(tgt.lstrip("["), []).append((m.key, off, len(tgt) - len(tgt.lstrip("["))))
        for base, sites in arr.items():
            ca = an.get_class_analysis(base)
            listed = {(mkey_of(ma), off) for (ma, off) in ca.get_xref_const_class()} if ca is not None else set()
            rec = {1: [], 2: []}
            for mk, off, dims in sites:
                rec[1 if dims == 1 else 2].append((mk, off) in listed)
            if rec[1] and rec[2] and (all(rec[1]) != all(rec[2]) or any(rec[1]) != any(rec[2])):
                viol("const-class-array-dimension-inconsistency", "const-class on a one-dimensional array of a class is treated differently from a multi-dimensional one",
                     {"class": base, "one_dim_recorded": rec[1], "multi_dim_recorded": rec[2]})
            ctx.count("array_const_class_groups")
        for kind, cget, mget in (("new_instance", "get_xref_new_instance", "get_xref_new_instance"), ("const_class", "get_xref_const_class", "get_xref_const_class")):
            targets = set(exp[kind]) | exp["class_names"] | {"Lext/E;", "Lext/Other;", "Ljava/lang/String;"}
            for cn in sorted(targets):
                ca = an.get_class_analysis(cn)
                want = exp[kind].get(cn, set())
                if ca is None:
                    if want:
                        viol("%s-class-unknown" % kind.replace("_", "-"), "a referenced class has no ClassAnalysis", {"class": cn})
                    continue
                ctx.count("class_usage_lists_checked")
                got = {(mkey_of(ma), off) for (ma, off) in getattr(ca, cget)()}
                got = {g for g in got if (g[0], g[1], cn) not in dc}
                if got != want:
                    viol("%s-class-side-%s" % (kind.replace("_", "-"), "missing" if want - got else "extra"), "a class's instantiation/class-reference list differs from the instructions",
                         {"class": cn, "got": sorted(got), "want": sorted(want)})
                if want:
                    ctx.sig("C15c", kind, len(want), cn in exp["class_names"])
            for mk in sorted(exp["defined_methods"]):
                ma = an.get_method(em_by_key[mk])
                got = {(ca.name, off) for (ca, off) in getattr(ma, mget)()}
                got = {g for g in got if (mk, g[1], g[0]) not in dc}
                want = exp["m_" + kind].get(mk, set())
                if got != want:
                    viol("%s-method-side-%s" % (kind.replace("_", "-"), "missing" if want - got else "extra"), "a method's instantiation/class-reference list differs from its instructions",
                         {"method": mk, "got": sorted(got), "want": sorted(want)})


def spaced(desc):
    """'(IJ)V' -> androguard's '(I J)V'"""
    inner = desc[1:desc.index(")")]
    ret = desc[desc.index(")") + 1:]
    parts = []
    i = 0
    while i < len(inner):
        j = i
        while inner[j] == "[":
            j += 1
        if inner[j] == "L":
            j = inner.index(";", j)
        parts.append(inner[i:j + 1])
        i = j + 1
    return "(%s)%s" % (" ".join(parts), ret)


def shard(ctx, arg):
    which, idx, count = arg
    rng = ctx.rng("xref", idx)
    for k in range(count):
        classes = R.gen_program(rng)
        # pools: single DEX, or classes split over two DEX files of one analysis
        split = rng.random() < 0.35 and len(classes) >= 2
        if split:
            cut = rng.randrange(1, len(classes))
            parts = [classes[:cut], classes[cut:]]
        else:
            parts = [classes]
        models = [R.to_model(p) for p in parts]
        big = None
        if rng.random() < (1 / 30 if ctx.quick else 1 / 160):
            # big-index pool: a padding class whose N static fields and N native methods sort BEFORE the program's classes pushes the program's field,
            # method and string indices across 0x7FFF/0x8000 (sign bit of a 16-bit index) or close to 0xFFFF
            big = rng.choice([0x7FF8, 0x7FFD, 0x7FFF, 0x8000, 0x8005, 0xFE00])
            pad = models[0].add_class("La/Pad;", W.ACC_PUBLIC | W.ACC_ABSTRACT)
            for i in range(big):
                pad.add_field("A%05d" % i, "I", W.ACC_STATIC | W.ACC_PUBLIC)
                pad.add_method("A%05d" % i, "V", (), W.ACC_PUBLIC | W.ACC_NATIVE, None)
            ctx.count("big_index_cases")
        wopts = None
        if rng.random() < 0.2:
            wopts = {"string_data_order": __import__("random").Random(rng.getrandbits(32))}     # string data items not in pool order
        datas = [W.write_dex(m, wopts) for m in models]
        class_to_dex = {c.name: i for i, p in enumerate(parts) for c in p}
        wit = {"classes": [(c.name, c.sfields, c.ifields, [(m.key, m.sites) for m in c.methods]) for c in classes][:4], "dex_files": len(datas), "class_to_dex": class_to_dex, "padding_fields_and_methods_before_the_program": big}
        ctx.ev()
        ctx.count("analyses")
        try:
            hook = None
            if which == "C15" and rng.random() < 0.3:
                # interaction with the rename feature: a method whose NAME string is also loaded by const-string instructions is renamed before the
                # cross-references are built. The instructions still load the string of the file; their xrefs stay with it.
                def hook(an_, dxs_, wit=wit):
                    for dx_ in dxs_:
                        for em in dx_.get_encoded_methods():
                            if em.get_name() in R.STRINGS and em.get_name() and nosp(em.get_descriptor()) == "(JJJ)V":   # the generator's reflection-style method: no sites of its own
                                wit["renamed_before_create_xref"] = "%s->%s" % (em.get_class_name(), em.get_name())
                                for c_ in classes:   # the model follows the rename (only this stub method changes its name)
                                    for m_ in c_.methods:
                                        if getattr(m_, "stub", False) and m_.cls == em.get_class_name() and m_.name == em.get_name():
                                            m_.name = "renamedByTheCheck"
                                em.set_name("renamedByTheCheck")
                                ctx.count("methods_renamed_before_create_xref")
                                return
            look = None
            if rng.random() < 0.25:
                look = rng
                wit["history"] = "first instructions of some methods were looked at before the Analysis was built"
                ctx.count("analyses_after_an_early_partial_look")
            an, dxs = analyse(datas, hook, look)
        except Exception as e:
            ctx.violation("analysis-raises", "Analysis.add/create_xref raises on generated valid code", dict(wit, exc=exc_str(e)))
            continue
        try:
            check(ctx, which, classes, an, dxs, wit)
        except Exception as e:
            import traceback
            ctx.violation("xref-query-raises", "an xref query raises", dict(wit, exc=traceback.format_exc()[-800:]))
        if idx == 0 and k < 2:
            ctx.sample({"classes": [(c.name, [(m.key, m.sites) for m in c.methods]) for c in classes][:2], "dex_files": len(datas)})


def run(ctx, which):
    ctx.rule = ("programs from vf/gen/refprog.py: invoke-virtual/super/direct/static/interface and /range on internal, external and array-class methods; iget/iput/sget/sput (7 variants) on "
                "fields of the same class, of other classes and (35% of the cases) of classes in a second DEX of the same Analysis, and on undefined fields; const-string(/jumbo) with "
                "shared values; new-instance / const-class on internal, external, array and primitive-array types; repeated at several offsets; a big-index pool (32760..65024 padding fields/methods/strings in front, so that the program's indices cross 0x8000 or approach 0xFFFF). Real Analysis.add + create_xref; "
                "every xref table compared with the model. distinct non-trivial = distinct (#sites, #targets, external?, array?) per method/field/string/class")
    ctx.assumptions = ["const-class / new-instance on the method's own class and const-class on [LFoo; (recorded by androguard on LFoo;) are don't-care",
                       "vf/model/dexw.py + vf/gen/refprog.py site offsets"]
    n = 480 if ctx.quick else 64000
    ctx.run_shards(MOD, "shard", [[which, i, n // 16 + 1] for i in range(16)], timeout=3000)
    ctx.require_counter("analyses", 100)
    ctx.min_distinct = 8
