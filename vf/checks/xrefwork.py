"""Shared workload for C13 (method xrefs), C14 (field xrefs), C15 (string / class-usage xrefs) and the canonical analysis dump used by C16."""
from vf.gen import refprog as R
from vf.harness import exc_str, load_known
from vf.model import dexw as W

MOD = "vf.checks.xrefwork"


def nosp(s):
    return str(s).replace(" ", "")


def mkey_of(ma):
    return (ma.class_name, ma.name, nosp(ma.descriptor))


def early_look(dx, rng):
    """what a script does with a freshly parsed DEX before any analysis exists: look at the first instruction(s) of a few methods, ask for one offset"""
    n = 0
    for em in dx.get_encoded_methods():
        code = em.get_code()
        if code is None or rng.random() < 0.4:
            continue
        k = rng.randrange(4)
        try:
            if k == 0:
                next(iter(em.get_instructions()), None)
            elif k == 1:
                for j, ins in enumerate(em.get_instructions()):
                    if j >= rng.randrange(1, 4):
                        break
            elif k == 2:
                code.get_bc().get_ins_off(rng.choice([0, 2, 4]))
            else:
                code.get_bc().off_to_pos(rng.choice([0, 2, 4]))
            n += 1
        except Exception:
            pass
    return n


def analyse(datas, before_xref=None, look_rng=None, steps=(), final=None):
    """Parse every DEX once, then build the Analysis under test from the objects `final` (indices into datas, in that order; default: all).
    steps: the usage history of these very DEX OBJECTS - each step is a tuple of indices; the objects named are put into an Analysis of their own
    and cross-referenced (a script that first looks at classes.dex alone, then at the whole APK; a tool that analyses every DEX per se and then all
    of them together; ...). What an Analysis reports depends on the DEX files IT holds, not on the company its DEX objects kept before.
    Returns (Analysis, [DEX objects of the final Analysis])"""
    from androguard.core import dex
    from androguard.core.analysis.analysis import Analysis
    dxs = []
    for d in datas:
        dx = dex.DEX(d)
        if look_rng is not None:
            early_look(dx, look_rng)
        dxs.append(dx)
    for st in steps:
        earlier = Analysis()
        for i in st:
            earlier.add(dxs[i])
        earlier.create_xref()
    an = Analysis()
    fin = [dxs[i] for i in (range(len(dxs)) if final is None else final)]
    for dx in fin:
        an.add(dx)
    if before_xref:
        before_xref(an, fin)
    an.create_xref()
    return an, fin


class Buffered:
    """stand-in for the Ctx in check(): counters and signatures go to the real Ctx (or nowhere: control runs), violations are held back - the
    caller decides under which mechanism name they are reported"""

    def __init__(self, ctx, forward):
        self.ctx, self.forward, self.v = ctx, forward, {}

    def count(self, name, n=1):
        if self.forward:
            self.ctx.count(name, n)

    def sig(self, *parts):
        if self.forward:
            self.ctx.sig(*parts)

    def violation(self, mechanism, what, witness=None):
        self.v.setdefault(mechanism, []).append((what, witness))


def gen_usage(rng, ndex):
    """-> (steps, final): what happened to the DEX objects before, and which of them (in which order) make up the Analysis under test"""
    def subset():
        k = rng.randrange(1, ndex + 1)
        return tuple(rng.sample(range(ndex), k))
    steps = []
    r = rng.random()
    if ndex == 1:
        steps = [(0,)] * rng.choice([1, 1, 2])           # the same object analysed again
    elif r < 0.3:
        steps = [(i,) for i in range(ndex)]               # every piece per se first
        rng.shuffle(steps)
    elif r < 0.5:
        steps = [(rng.randrange(ndex),)]                  # one piece alone first
    else:
        steps = [subset() for _ in range(rng.choice([1, 1, 2]))]
    final = tuple(range(ndex))
    if ndex > 1 and rng.random() < 0.3:
        final = subset()                                  # ... a piece (or the pieces in another load order) after it was analysed in company
        if rng.random() < 0.7:
            steps.insert(rng.randrange(len(steps) + 1), tuple(rng.sample(range(ndex), ndex)))
    return steps, final


def usage_pairs(steps, final, ndex):
    """-> (alone, together): `alone` = pairs (i, j) of DEX files of the final Analysis where object i was cross-referenced before WITHOUT j (what i
    references in j was external then and is defined now); `together` = pairs (i, j), i in the final Analysis and j not, where i was
    cross-referenced before in the company of j (what was defined then is external now)"""
    alone, together = set(), set()
    for i in final:
        for j in range(ndex):
            if i == j:
                continue
            if j in final and any(i in st and j not in st for st in steps):
                alone.add((i, j))
            if j not in final and any(i in st and j in st for st in steps):
                together.add((i, j))
    return alone, together


def expected(classes):
    """model -> expectation tables"""
    defined_methods = {m.key for c in classes for m in c.methods}
    defined_fields = {(c.name, f[0], f[1]) for c in classes for f in c.sfields + c.ifields}
    class_names = {c.name for c in classes}
    exp = {"xref_to": {}, "xref_from": {}, "field_read": {}, "field_write": {}, "meth_read": {}, "meth_write": {}, "string": {}, "new_instance": {}, "const_class": {},
           "m_new_instance": {}, "m_const_class": {}, "callgraph": set(), "special_invokes": []}
    for c in classes:
        for m in c.methods:
            mk = m.key
            for off, kind, opname, tgt in m.sites:
                if kind == "invoke":
                    cls = tgt[0]
                    if cls.startswith("["):
                        exp["special_invokes"].append((mk, off, tgt))
                        continue
                    exp["xref_to"].setdefault(mk, set()).add((tgt, off))
                    exp["xref_from"].setdefault(tgt, set()).add((mk, off))
                    exp["callgraph"].add((mk, tgt))
                elif kind in ("field-read", "field-write"):
                    if tgt in defined_fields:
                        t = "field_read" if kind == "field-read" else "field_write"
                        exp[t].setdefault(tgt, set()).add((c.name, mk, off))
                        exp["meth_read" if kind == "field-read" else "meth_write"].setdefault(mk, set()).add((tgt, off))
                elif kind == "string":
                    exp["string"].setdefault(tgt, set()).add((c.name, mk, off))
                elif kind in ("new-instance", "const-class"):
                    base = tgt.lstrip("[")
                    if not base.startswith("L"):
                        continue  # primitive array: no class
                    if tgt.startswith("[") or base == c.name:
                        continue  # array-of-class recorded on the element class / self reference: don't care
                    k = "new_instance" if kind == "new-instance" else "const_class"
                    exp[k].setdefault(base, set()).add((mk, off))
                    exp["m_" + k].setdefault(mk, set()).add((base, off))
    exp["defined_methods"] = defined_methods
    exp["defined_fields"] = defined_fields
    exp["class_names"] = class_names
    return exp


def dontcare_class_sites(classes):
    """(method key, offset) of const-class/new-instance sites that are don't-care: an array of ANOTHER class (androguard books it on the element
    class; the statement does not say). A reference of a class to itself or to an array of itself is not "on another class" under either
    reading, so it must not appear in any list ("nothing else appears there")."""
    out = set()
    for c in classes:
        for m in c.methods:
            for off, kind, opname, tgt in m.sites:
                if kind in ("new-instance", "const-class"):
                    base = tgt.lstrip("[")
                    if base.startswith("L") and tgt.startswith("[") and base != c.name:
                        out.add((m.key, off, base))
    return out


def relevant(which, c, site, exp):
    """is this site of a method of class c one that check(which) compares (and expects to be listed)?"""
    off, kind, opname, tgt = site
    if which == "C13":
        return kind == "invoke" and not tgt[0].startswith("[")
    if which == "C14":
        return kind in ("field-read", "field-write") and tgt in exp["defined_fields"]
    if kind == "string":
        return True
    return kind in ("new-instance", "const-class") and tgt.startswith("L") and tgt != c.name


def count_scenarios(ctx, which, classes, exp, info):
    """called when every comparison of check() went through: how many of the compared sites belong to the special scenarios"""
    shared = info.get("shared") or ()
    if shared:
        n = sum(1 for c in classes for m in c.methods if m.key in shared for s in m.sites if relevant(which, c, s, exp))
        ctx.count("sites_compared_in_methods_sharing_a_code_item", n)
        ctx.count("methods_sharing_a_code_item_checked", sum(1 for c in classes for m in c.methods if m.key in shared))
    alone, together = info.get("alone") or (), info.get("together") or ()
    if alone or together:
        c2d = info["class_to_dex"]
        for c in classes:
            for m in c.methods:
                for s in m.sites:
                    off, kind, opname, tgt = s
                    tcls = tgt[0] if kind in ("invoke", "field-read", "field-write") else None if kind == "string" else tgt.lstrip("[")
                    di, dj = c2d[c.name], c2d.get(tcls)
                    if dj is None or di == dj:
                        continue
                    if (di, dj) in alone and relevant(which, c, s, exp):
                        # the target is defined in the Analysis under test, in a DEX the accessing DEX object was once cross-referenced without
                        ctx.count("cross_dex_sites_compared_after_the_dex_object_was_analysed_without_the_other_dex")
                    if (di, dj) in together and (which != "C14" or tgt in info["all_fields"]):
                        # the target was defined in an earlier Analysis of the accessing DEX object and is external in the one under test
                        ctx.count("sites_on_a_former_companion_dex_compared")


def check(ctx, which, classes, an, dxs, wit, info=None):
    exp = expected(classes)

    def viol(mech, what, extra):
        w = dict(wit)
        w.update(extra)
        ctx.violation(mech, what, w)
    # map real objects
    em_by_key = {}
    for dx in dxs:
        for em in dx.get_encoded_methods():
            em_by_key[(em.get_class_name(), em.get_name(), nosp(em.get_descriptor()))] = em
    ef_by_key = {}
    for dx in dxs:
        for ef in dx.get_encoded_fields():
            ef_by_key[(ef.get_class_name(), ef.get_name(), ef.get_descriptor())] = ef
    if which == "C13":
        stubs = {}
        for mk in sorted(exp["defined_methods"]):
            ma = an.get_method(em_by_key[mk])
            ctx.count("methods_checked")
            got = set()
            for (ca, callee, off) in ma.get_xref_to():
                ck = mkey_of(callee)
                got.add((ck, off))
                stubs.setdefault(ck, set()).add(id(callee))
                if ca.name != ck[0]:
                    viol("xref-to-class-mismatch", "the class reported with a callee is not the callee's class", {"method": mk, "callee": ck, "class": ca.name})
                if ck in exp["defined_methods"]:
                    if callee.is_external() or callee is not an.get_method(em_by_key[ck]):
                        viol("callee-not-resolved-to-defined-method", "a call to a defined method is not resolved to its MethodAnalysis", {"method": mk, "callee": ck})
                elif not callee.is_external():
                    viol("callee-external-flag", "an undefined callee is not an external stub", {"method": mk, "callee": ck})
            want = exp["xref_to"].get(mk, set())
            # array-class invokes (known behaviour pools)
            special = [(o, t) for (k2, o, t) in exp["special_invokes"] if k2 == mk]
            for o, t in special:
                elem = t[0].lstrip("[")
                if elem.startswith("L"):
                    if ((elem, t[1], t[2]), o) in got:
                        got.discard(((elem, t[1], t[2]), o))
                        viol("invoke-on-object-array-class-attributed-to-element-class", "an invoke on an array class [LFoo; is reported as a call to class LFoo;", {"method": mk, "offset": o, "target": t})
                    elif (t, o) not in got:
                        viol("invoke-on-array-class-dropped", "an invoke on an array class is not reported", {"method": mk, "offset": o, "target": t})
                    else:
                        got.discard((t, o))
                else:
                    if (t, o) not in got:
                        viol("invoke-on-primitive-array-class-dropped", "an invoke on a primitive array class ([I->clone()) is not reported", {"method": mk, "offset": o, "target": t})
                    else:
                        got.discard((t, o))
            if got != want:
                mech = "xref-to-missing" if want - got else "xref-to-extra"
                if {g[0] for g in got} == {w_[0] for w_ in want}:
                    mech = "xref-to-offset"
                viol(mech, "reported callees differ from the invoke instructions", {"method": mk, "got": sorted(got), "want": sorted(want)})
            if want:
                ctx.sig("C13", len(want), len({w_[0] for w_ in want}), any(w_[0] not in exp["defined_methods"] for w_ in want), bool(special))
        for ck, ids in stubs.items():
            if len(ids) != 1:
                viol("external-stub-not-shared", "references to one (class, name, descriptor) resolve to several method objects", {"callee": ck, "objects": len(ids)})
        # xref_from of every callee
        all_callees = set(exp["xref_from"]) | exp["defined_methods"]
        for ck in sorted(all_callees):
            ma = an.get_method_analysis_by_name(ck[0], ck[1], spaced(ck[2]))
            want = exp["xref_from"].get(ck, set())
            if ma is None:
                if want:
                    viol("callee-unknown", "a called method has no MethodAnalysis", {"callee": ck})
                continue
            got = {(mkey_of(caller), off) for (ca, caller, off) in ma.get_xref_from()}
            # remove element-class attributions of array invokes (known mechanism, reported above)
            for (k2, o, t) in exp["special_invokes"]:
                elem = t[0].lstrip("[")
                if (elem, t[1], t[2]) == ck:
                    got.discard((k2, o))
            if got != want:
                viol("xref-from-not-symmetric", "a callee's caller list is not the inverse of the callers' callee lists", {"callee": ck, "got": sorted(got), "want": sorted(want)})
        # class level and call graph
        try:
            cg = an.get_call_graph()
            edges = {(mkey_of(a), mkey_of(b)) for a, b in cg.edges()}
            sp = {(k2, (t[0].lstrip("["), t[1], t[2])) for (k2, o, t) in exp["special_invokes"]}
            if edges - sp != exp["callgraph"] - sp:
                viol("callgraph-edges", "call graph edges differ from the reported callees", {"missing": sorted(exp["callgraph"] - edges)[:5], "extra": sorted(edges - sp - exp["callgraph"])[:5]})
            ctx.count("callgraphs_checked")
            # variants: dropping isolated nodes must not drop edges; a class filter keeps exactly the edges leaving that class
            import re as _re
            cg2 = an.get_call_graph(no_isolated=True)
            edges2 = {(mkey_of(a), mkey_of(b)) for a, b in cg2.edges()}
            if edges2 != edges:
                viol("callgraph-no-isolated-loses-edges", "get_call_graph(no_isolated=True) has other edges than the default graph", {"missing": sorted(edges - edges2)[:5], "extra": sorted(edges2 - edges)[:5]})
            some = classes[len(classes) // 2].name
            cg3 = an.get_call_graph(classname=_re.escape(some))
            edges3 = {(mkey_of(a), mkey_of(b)) for a, b in cg3.edges()}
            want3 = {e for e in edges if e[0][0] == some}
            if edges3 != want3:
                viol("callgraph-class-filter", "get_call_graph(classname=X) does not have exactly the edges leaving X", {"class": some, "missing": sorted(want3 - edges3)[:5], "extra": sorted(edges3 - want3)[:5]})
            ctx.count("callgraph_variants_checked", 2)
        except Exception as e:
            viol("callgraph-raises", "get_call_graph raises", {"exc": exc_str(e)})
        for c in classes:
            ca = an.get_class_analysis(c.name)
            got = set()
            for oc, refs in ca.get_xref_to().items():
                for (kind, m2, off) in refs:
                    if int(kind) in (0x1C, 0x22):
                        continue
                    got.add((oc.name, mkey_of(m2), off))
            want = {(t[0], t, off) for m in c.methods for (t, off) in exp["xref_to"].get(m.key, set())}
            for (k2, o, t) in exp["special_invokes"]:
                elem = t[0].lstrip("[")
                got.discard((elem, (elem, t[1], t[2]), o))
            if got != want:
                viol("class-xref-to", "ClassAnalysis.get_xref_to differs from the method-level callees", {"class": c.name, "got": sorted(got)[:8], "want": sorted(want)[:8]})
    elif which == "C14":
        seen_fa = {}
        for fa in an.get_fields():
            f = fa.get_field()
            k = (f.get_class_name(), f.get_name(), f.get_descriptor())
            seen_fa.setdefault(k, []).append(fa)
        for fk in sorted(exp["defined_fields"]):
            ctx.count("fields_checked")
            n = len(seen_fa.get(fk, []))
            if n != 1:
                accessors = {a[0] for kind in ("field_read", "field_write") for a in exp[kind].get(fk, set())}
                dex_of = wit.get("class_to_dex") or {}
                same_dex_other = {a for a in accessors if a != fk[0]}
                if n == 0:
                    mech = "fieldanalysis-missing"
                elif n == 1 + len(same_dex_other):
                    # explained by the known mechanism: one extra FieldAnalysis per *other* accessing class
                    mech = "duplicate-fieldanalysis-for-field-accessed-from-other-class"
                else:
                    mech = "duplicate-fieldanalysis-unexplained"
                viol(mech, "a defined field does not have exactly one FieldAnalysis", {"field": fk, "count": n, "other_accessing_classes": sorted(same_dex_other)})
            ef = ef_by_key.get(fk)
            fa = an.get_field_analysis(ef) if ef is not None else None
            if fa is None:
                viol("get_field_analysis-none", "get_field_analysis returns nothing for a defined field", {"field": fk})
                continue
            for kind, getter in (("field_read", fa.get_xref_read), ("field_write", fa.get_xref_write)):
                got = {(ca.name, mkey_of(ma), off) for (ca, ma, off) in getter(with_offset=True)}
                want = exp[kind].get(fk, set())
                if got != want:
                    missing = want - got
                    extra = got - want
                    if missing and all(w_[0] != fk[0] for w_ in missing) and not extra:
                        # all missing accesses come from other classes
                        mech = "field-of-other-class-xref-on-accessing-class"
                    else:
                        mech = "%s-xref-%s" % (kind.replace("_", "-"), "missing" if missing else "extra")
                    viol(mech, "the FieldAnalysis of a field does not list the accesses to it", {"field": fk, "kind": kind, "got": sorted(got), "want": sorted(want)})
                if want:
                    ctx.sig("C14", kind, len(want), any(w_[0] != fk[0] for w_ in want), any(w_[0] == fk[0] for w_ in want))
        for mk in sorted(exp["defined_methods"]):
            ma = an.get_method(em_by_key[mk])
            for kind, getter in (("meth_read", ma.get_xref_read), ("meth_write", ma.get_xref_write)):
                got = set()
                for (ca, f, off) in getter():
                    ff = f.get_field() if hasattr(f, "get_field") else f
                    got.add(((ff.get_class_name(), ff.get_name(), ff.get_descriptor()), off))
                want = exp[kind].get(mk, set())
                if got != want:
                    mech = "method-%s-list" % kind.split("_")[1]
                    viol(mech, "the accessing method does not list the field accesses it performs", {"method": mk, "got": sorted(got), "want": sorted(want)})
    elif which == "C15":
        sa = {s.get_orig_value(): s for s in an.get_strings()}
        for val in sorted(set(exp["string"]) | set(R.STRINGS)):
            want = exp["string"].get(val, set())
            s = sa.get(val)
            if s is None:
                if want:
                    viol("string-analysis-missing", "a loaded string has no StringAnalysis", {"string": val})
                continue
            ctx.count("strings_checked")
            got = {(ca.name, mkey_of(ma), off) for (ca, ma, off) in s.get_xref_from(with_offset=True)}
            if got != want:
                viol("string-xref-%s" % ("missing" if want - got else "extra"), "const-string sites differ from the string's cross-references", {"string": val, "got": sorted(got), "want": sorted(want)})
            if want:
                ctx.sig("C15s", len(want), len({w_[1] for w_ in want}))
        for val, s in sa.items():
            if val not in exp["string"] and s.get_xref_from():
                viol("string-xref-extra", "a string that no instruction loads has cross-references", {"string": val})
        dc = dontcare_class_sites(classes)
        # const-class on an ARRAY of a class: whether it is recorded on the element class is not fixed by the property (androguard documents that it
        # strips '['), but whatever is done must not depend on the number of dimensions
        arr = {}
        for c in classes:
            for m in c.methods:
                for off, kind, opname, tgt in m.sites:
                    if kind == "const-class" and tgt.startswith("[") and tgt.lstrip("[").startswith("L") and tgt.lstrip("[") != c.name:
                        arr.setdefault(tgt.lstrip("["), []).append((m.key, off, len(tgt) - len(tgt.lstrip("["))))
        for base, sites in arr.items():
            ca = an.get_class_analysis(base)
            listed = {(mkey_of(ma), off) for (ma, off) in ca.get_xref_const_class()} if ca is not None else set()
            rec = {1: [], 2: []}
            for mk, off, dims in sites:
                rec[1 if dims == 1 else 2].append((mk, off) in listed)
            if rec[1] and rec[2] and (all(rec[1]) != all(rec[2]) or any(rec[1]) != any(rec[2])):
                viol("const-class-array-dimension-inconsistency", "const-class on a one-dimensional array of a class is treated differently from a multi-dimensional one",
                     {"class": base, "one_dim_recorded": rec[1], "multi_dim_recorded": rec[2]})
            ctx.count("array_const_class_groups")
        for kind, cget, mget in (("new_instance", "get_xref_new_instance", "get_xref_new_instance"), ("const_class", "get_xref_const_class", "get_xref_const_class")):
            targets = set(exp[kind]) | exp["class_names"] | {"Lext/E;", "Lext/Other;", "Ljava/lang/String;"}
            for cn in sorted(targets):
                ca = an.get_class_analysis(cn)
                want = exp[kind].get(cn, set())
                if ca is None:
                    if want:
                        viol("%s-class-unknown" % kind.replace("_", "-"), "a referenced class has no ClassAnalysis", {"class": cn})
                    continue
                ctx.count("class_usage_lists_checked")
                got = {(mkey_of(ma), off) for (ma, off) in getattr(ca, cget)()}
                got = {g for g in got if (g[0], g[1], cn) not in dc}
                if got != want:
                    viol("%s-class-side-%s" % (kind.replace("_", "-"), "missing" if want - got else "extra"), "a class's instantiation/class-reference list differs from the instructions",
                         {"class": cn, "got": sorted(got), "want": sorted(want)})
                if want:
                    ctx.sig("C15c", kind, len(want), cn in exp["class_names"])
            for mk in sorted(exp["defined_methods"]):
                ma = an.get_method(em_by_key[mk])
                got = {(ca.name, off) for (ca, off) in getattr(ma, mget)()}
                got = {g for g in got if (mk, g[1], g[0]) not in dc}
                want = exp["m_" + kind].get(mk, set())
                if got != want:
                    viol("%s-method-side-%s" % (kind.replace("_", "-"), "missing" if want - got else "extra"), "a method's instantiation/class-reference list differs from its instructions",
                         {"method": mk, "got": sorted(got), "want": sorted(want)})
    if info:
        count_scenarios(ctx, which, classes, exp, info)


def spaced(desc):
    """'(IJ)V' -> androguard's '(I J)V'"""
    inner = desc[1:desc.index(")")]
    ret = desc[desc.index(")") + 1:]
    parts = []
    i = 0
    while i < len(inner):
        j = i
        while inner[j] == "[":
            j += 1
        if inner[j] == "L":
            j = inner.index(";", j)
        parts.append(inner[i:j + 1])
        i = j + 1
    return "(%s)%s" % (" ".join(parts), ret)


def shard(ctx, arg):
    which, idx, count = arg
    rng = ctx.rng("xref", idx)
    for k in range(count):
        classes = R.gen_program(rng)
        # pools: single DEX, or classes split over two DEX files of one analysis
        split = rng.random() < 0.35 and len(classes) >= 2
        if split:
            cut = rng.randrange(1, len(classes))
            parts = [classes[:cut], classes[cut:]]
        else:
            parts = [classes]
        # usage-sequence and layout scenarios draw from a stream of their own: the programs (and everything drawn from rng) stay what they were
        rng2 = ctx.rng("xref-usage", idx, k)
        if split and len(parts[1]) >= 2 and rng2.random() < 0.3:
            cut2 = rng2.randrange(1, len(parts[1]))
            parts = [parts[0], parts[1][:cut2], parts[1][cut2:]]       # three DEX files
        twins = R.add_code_twins(classes, rng2) if rng2.random() < 0.35 else []
        if twins:
            ctx.count("programs_with_twin_methods")
        models = [R.to_model(p) for p in parts]
        big = None
        if rng.random() < (1 / 30 if ctx.quick else 1 / 160):
            # big-index pool: a padding class whose N static fields and N native methods sort BEFORE the program's classes pushes the program's field,
            # method and string indices across 0x7FFF/0x8000 (sign bit of a 16-bit index) or close to 0xFFFF
            big = rng.choice([0x7FF8, 0x7FFD, 0x7FFF, 0x8000, 0x8005, 0xFE00])
            pad = models[0].add_class("La/Pad;", W.ACC_PUBLIC | W.ACC_ABSTRACT)
            for i in range(big):
                pad.add_field("A%05d" % i, "I", W.ACC_STATIC | W.ACC_PUBLIC)
                pad.add_method("A%05d" % i, "V", (), W.ACC_PUBLIC | W.ACC_NATIVE, None)
            ctx.count("big_index_cases")
        wopts = None
        if rng.random() < 0.2:
            wopts = {"string_data_order": __import__("random").Random(rng.getrandbits(32))}     # string data items not in pool order
        if rng2.random() < (0.85 if twins else 0.15):
            # code-item deduplication (dexlayout / D8): methods with a byte-identical code_item share it - several encoded_method entries with ONE
            # code_off, within a class or across the classes of the file. Each of these methods has every instruction of the shared code.
            wopts = dict(wopts or {}, share_identical_code_items=rng2.choice(["file", "file", "class"]))
        written = [W.write_dex(m, wopts, want_writer=True) for m in models]
        datas = [d for d, w_ in written]
        shared = {(q[0], q[1], "(%s)%s" % ("".join(q[3]), q[2])) for d, w_ in written for lst in w_.shared_code.values() for q in lst}
        if shared:
            ctx.count("dex_files_with_shared_code_items", sum(1 for d, w_ in written if w_.shared_code))
            ctx.count("methods_sharing_a_code_item", len(shared))
        class_to_dex = {c.name: i for i, p in enumerate(parts) for c in p}
        steps, final = (), tuple(range(len(parts)))
        if rng2.random() < (0.5 if split else 0.15) and not (big and ctx.quick):
            steps, final = gen_usage(rng2, len(parts))
        alone, together = usage_pairs(steps, final, len(parts))
        all_classes = classes
        if len(final) < len(parts):
            classes = [c for i in sorted(final) for c in parts[i]]      # the Analysis under test holds these classes only
        info = {"shared": shared, "alone": alone, "together": together, "class_to_dex": class_to_dex,
                "all_fields": {(c.name, f[0], f[1]) for c in all_classes for f in c.sfields + c.ifields}}
        wit = {"classes": [(c.name, c.sfields, c.ifields, [(m.key, m.sites) for m in c.methods]) for c in all_classes][:4], "dex_files": len(datas), "class_to_dex": class_to_dex, "padding_fields_and_methods_before_the_program": big}
        if shared:
            wit["methods_sharing_one_code_item"] = [sorted(lst) for d, w_ in written for lst in w_.shared_code.values()][:6]
        if steps:
            wit["history_of_the_dex_objects"] = {"earlier_analyses_(dex_indices)": [list(st) for st in steps], "analysis_under_test_(dex_indices)": list(final)}
            ctx.count("analyses_of_dex_objects_that_were_analysed_before")
            if alone:
                ctx.count("analyses_with_a_companion_dex_the_object_was_analysed_without")
            if together:
                ctx.count("analyses_without_a_dex_the_object_was_analysed_with")
        elif final != tuple(range(len(parts))):
            wit["analysis_under_test_(dex_indices)"] = list(final)
        ctx.ev()
        ctx.count("analyses")
        try:
            hook = None
            if which == "C15" and rng.random() < 0.3:
                # interaction with the rename feature: a method whose NAME string is also loaded by const-string instructions is renamed before the
                # cross-references are built. The instructions still load the string of the file; their xrefs stay with it.
                def hook(an_, dxs_, wit=wit):
                    for dx_ in dxs_:
                        for em in dx_.get_encoded_methods():
                            if em.get_name() in R.STRINGS and em.get_name() and nosp(em.get_descriptor()) == "(JJJ)V":   # the generator's reflection-style method: no sites of its own
                                wit["renamed_before_create_xref"] = "%s->%s" % (em.get_class_name(), em.get_name())
                                for c_ in classes:   # the model follows the rename (only this stub method changes its name)
                                    for m_ in c_.methods:
                                        if getattr(m_, "stub", False) and m_.cls == em.get_class_name() and m_.name == em.get_name():
                                            m_.name = "renamedByTheCheck"
                                em.set_name("renamedByTheCheck")
                                ctx.count("methods_renamed_before_create_xref")
                                return
            look = None
            look_seed = rng2.getrandbits(32)
            if rng.random() < 0.25:
                look = __import__("random").Random(look_seed)      # (own stream: how many methods there are to look at does not shift the programs that follow)
                wit["history"] = "first instructions of some methods were looked at before the Analysis was built"
                ctx.count("analyses_after_an_early_partial_look")
            an, dxs = analyse(datas, hook, look, steps, final)
        except Exception as e:
            ctx.violation("analysis-raises", "Analysis.add/create_xref raises on generated valid code", dict(wit, exc=exc_str(e)))
            continue
        try:
            if not steps:
                check(ctx, which, classes, an, dxs, wit, info)
            else:
                held = Buffered(ctx, True)
                check(held, which, classes, an, dxs, wit, info)
                control = None
                if set(held.v) - set(load_known().get(which, {})):
                    # control: the same bytes, the same early look and rename, FRESH DEX objects without a history. What only shows up with the history
                    # is reported under a name of its own: the answer of an Analysis depends on what its DEX objects were used for before
                    try:
                        an2, dxs2 = analyse(datas, hook, None if look is None else __import__("random").Random(look_seed), (), final)
                        control = Buffered(ctx, False)
                        check(control, which, classes, an2, dxs2, wit)
                        ctx.count("control_analyses_with_fresh_dex_objects")
                    except Exception:
                        control = None
                for mech, lst in held.v.items():
                    name = mech
                    if control is not None and mech not in control.v:
                        name = mech + "-only-when-the-dex-objects-were-analysed-before"
                    for what, w_ in lst:
                        ctx.violation(name, what if name == mech else what + " (fresh DEX objects of the same bytes: no such difference)", w_)
        except Exception as e:
            import traceback
            ctx.violation("xref-query-raises", "an xref query raises", dict(wit, exc=traceback.format_exc()[-800:]))
        if idx == 0 and k < 2:
            ctx.sample({"classes": [(c.name, [(m.key, m.sites) for m in c.methods]) for c in classes][:2], "dex_files": len(datas)})


def run(ctx, which):
    ctx.rule = ("programs from vf/gen/refprog.py: invoke-virtual/super/direct/static/interface and /range on internal, external and array-class methods; iget/iput/sget/sput (7 variants) on "
                "fields of the same class, of other classes and (35% of the cases) of classes in a second DEX of the same Analysis, and on undefined fields; const-string(/jumbo) with "
                "shared values; new-instance / const-class on internal, external, array and primitive-array types; repeated at several offsets; a big-index pool (32760..65024 padding fields/methods/strings in front, so that the program's indices cross 0x8000 or approach 0xFFFF). Real Analysis.add + create_xref; "
                "every xref table compared with the model. Usage / layout stream (own rng): twin methods with byte-identical bodies and a writer that deduplicates code items, so that "
                "several encoded methods of a class (or of several classes) share ONE code_item - each of them has every site of the shared code; two or three DEX files; DEX OBJECTS "
                "with a history: analysed before alone, per piece, in another company or load order, then put into the Analysis under test (all pieces, or a subset after they were analysed "
                "together) - the expectation only depends on the DEX files the Analysis holds; a difference that fresh DEX objects of the same bytes do not show is reported as "
                "<mechanism>-only-when-the-dex-objects-were-analysed-before. distinct non-trivial = distinct (#sites, #targets, external?, array?) per method/field/string/class")
    ctx.assumptions = ["const-class / new-instance on the method's own class and const-class on [LFoo; (recorded by androguard on LFoo;) are don't-care",
                       "vf/model/dexw.py + vf/gen/refprog.py site offsets"]
    n = 480 if ctx.quick else 64000
    ctx.run_shards(MOD, "shard", [[which, i, n // 16 + 1] for i in range(16)], timeout=3000)
    ctx.require_counter("analyses", 100)
    # the scenarios of the usage / layout stream must have been compared (not just generated)
    ctx.require_counter("analyses_of_dex_objects_that_were_analysed_before", 20)
    ctx.require_counter("cross_dex_sites_compared_after_the_dex_object_was_analysed_without_the_other_dex", 10)
    ctx.require_counter("analyses_without_a_dex_the_object_was_analysed_with", 2)
    ctx.require_counter("sites_compared_in_methods_sharing_a_code_item", 20)
    ctx.min_distinct = 8
