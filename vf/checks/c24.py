"""C24 type descriptors -> Java type names: direct calls of util.get_type / dex.get_type, and end to end: the types the decompiler
prints for fields, parameters, return types, superclass, interfaces and the class header of generated DEX files."""
import itertools

from vf.harness import exc_str

PRIMS = {'V': 'void', 'Z': 'boolean', 'B': 'byte', 'S': 'short', 'C': 'char', 'I': 'int', 'J': 'long', 'F': 'float', 'D': 'double'}


def accepted(desc):
    """set of accepted Java spellings of a field/param/return descriptor"""
    dims = 0
    while desc[dims] == '[':
        dims += 1
    base = desc[dims:]
    if base in PRIMS:
        names = {PRIMS[base]}
    else:
        assert base[0] == 'L' and base[-1] == ';'
        inner = base[1:-1]
        full = inner.replace('/', '.')
        names = {full}
        segs = inner.split('/')
        if len(segs) == 3 and segs[0] == 'java' and segs[1] == 'lang':
            names.add(segs[2])
    return {n + '[]' * dims for n in names}


SEGS = ['java', 'lang', 'language', 'javax', 'langX', 'annotation', 'ref', 'reflect', 'invoke', 'a', 'v', 'g', 'l', 'n', 'j',
        'String', 'Object', 'Foo', 'Thread$State', 'Lfoo', 'URL', 'MySQL', 'LL', 'L', 'lang2', 'langx', 'gnal', 'nav', 'jav', 'lan', 'x1', '_', 'va', 'ng', 'la', 'java$', 'Ljava', 'util', 'io', 'android', 'R$id',
        # every SimpleNameChar is legal, not only identifier characters: D8/R8 synthetic and companion classes, package-info, symbols
        '-$$Lambda$Shape$1', 'Fn$-CC', 'package-info', 'q-CC', '\u00a2x']


def gen_desc(rng):
    r = rng.random()
    if r < 0.12:
        base = rng.choice(list(PRIMS)[1:])
    else:
        k = rng.random()
        if k < 0.35:
            segs = ['java', 'lang'] + [rng.choice(SEGS) for _ in range(rng.choice([1, 1, 1, 2, 2, 3]))]
        elif k < 0.5:
            segs = [rng.choice(['java', 'javax', 'jav', 'j']), rng.choice(['lang', 'language', 'langX', 'lan', 'lang$'])] + [rng.choice(SEGS) for _ in range(rng.randint(1, 2))]
        else:
            segs = [rng.choice(SEGS) for _ in range(rng.randint(1, 5))]
        if rng.random() < 0.15:
            segs[-1] = ''.join(rng.choice('javlngLOI$_x.0;[') for _ in range(rng.randint(1, 6))).replace('.', 'q').replace(';', 'w').replace('[', 'e')
        base = 'L' + '/'.join(segs) + ';'
    dims = rng.choice([0, 0, 0, 1, 1, 2, 3, rng.randint(4, 255)])
    return '[' * dims + base


def run(ctx):
    from androguard.core import dex
    from androguard.decompiler import util
    ctx.rule = ("end to end: abstract classes with random field/parameter/return/super/interface types decompiled by DvClass.get_source(), every printed type compared; field declarations also in the token form (get_source_ext); "
                "classes declaring two or three fields of ONE name with different descriptors (static/instance mixed): the printed types of the name match the fields one to one; "
                "direct calls of decompiler.util.get_type and dex.get_type on descriptors: exhaustive primitives x dims 0..3, "
                "all 1..3-segment class names over a fixed segment alphabet, random descriptors (look-alike packages, nested arrays to depth 255); "
                "distinct non-trivial = distinct (function, package-class, #segments, dims-class) with a class type")
    ctx.assumptions = ["accepted spellings: fully-qualified dotted name, or the short name for direct members of java.lang; one [] per dimension"]
    rng = ctx.rng("c24")
    fns = (("util.get_type", util.get_type), ("dex.get_type", dex.get_type))

    def pkgclass(desc):
        b = desc.lstrip('[')
        if b in PRIMS:
            return "prim"
        segs = b[1:-1].split('/')
        if segs[:2] == ['java', 'lang']:
            return "java.lang direct" if len(segs) == 3 else "java.lang sub" if len(segs) > 3 else "java.lang itself"
        if segs[0].startswith('jav') and len(segs) > 1 and segs[1].startswith('lan'):
            return "lookalike"
        return "other"

    def classify(name, desc, got):
        pc = pkgclass(desc)
        if pc == "java.lang sub":
            return "%s-javalang-subpackage-stripped" % name
        if pc in ("lookalike",):
            return "%s-lookalike-package-stripped" % name
        if pc == "java.lang direct":
            return "%s-javalang-direct-wrong" % name
        if pc == "prim":
            return "%s-primitive-wrong" % name
        return "%s-class-wrong" % name

    hrng = ctx.rng("c24-histories")

    def one(desc):
        want = accepted(desc)
        for name, fn in fns:
            ctx.ev()
            ctx.count(name)
            if name == "util.get_type" and desc[0] == '[' and hrng.random() < 0.2:
                # the sized form get_type('[T', n) -> 'T[n]' asked BEFORE the plain question about the same descriptor (answers must not leak between calls)
                size = hrng.choice([0, 1, 4, 255])
                ctx.count("util.get_type_sized_calls")
                try:
                    gs = fn(desc, size)
                    if gs not in {"%s[%d]" % (a, size) for a in accepted(desc[1:])}:
                        ctx.violation("util.get_type-sized-form-wrong", "get_type('[T', n) is not 'T[n]'", {"desc": desc, "size": size, "got": gs})
                except RecursionError:
                    pass
                except Exception as e:
                    ctx.violation("util.get_type-sized-raises", "get_type(desc, size) raises on a valid descriptor", {"desc": desc, "exc": exc_str(e)})
            try:
                got = fn(desc)
            except RecursionError:
                ctx.count("recursion_error_deep_array")
                continue
            except Exception as e:
                ctx.violation(name + "-raises", "%s raises on a valid descriptor" % name, {"desc": desc, "exc": exc_str(e)})
                continue
            if got not in want:
                ctx.violation(classify(name, desc, got), "%s renders a descriptor as a different Java type" % name, {"desc": desc, "got": got, "accepted": sorted(want)})
            dims = len(desc) - len(desc.lstrip('['))
            if pkgclass(desc) != "prim" or dims:
                ctx.sig(name, pkgclass(desc), min(desc.count('/'), 5), min(dims, 4))

    for p in PRIMS:
        for d in range(0, 4):
            if p == 'V' and d:
                continue
            one('[' * d + p)
    ctx.count("exhaustive_primitives", len(PRIMS))
    for k in (1, 2, 3):
        for segs in itertools.product(SEGS if k < 3 else SEGS[:18], repeat=k):
            one('L' + '/'.join(segs) + ';')
    for segs in itertools.product(SEGS, repeat=1):
        one('Ljava/lang/' + segs[0] + ';')
        one('[Ljava/lang/' + segs[0] + ';')
        for s2 in SEGS:
            one('Ljava/lang/%s/%s;' % (segs[0], s2))
    for _ in range(20000 if ctx.quick else 1500000):
        one(gen_desc(rng))
    # the register summary of a method (dex.get_params_info, printed by EncodedMethod.show / get_bytecodes_method): one line per parameter, in
    # order, each with the Java name of its type, and the return type
    import re as _re
    for _ in range(3000 if ctx.quick else 200000):
        params = [gen_desc(rng) for _ in range(rng.choice([0, 1, 1, 2, 3, 5]))]
        params = [p_ if p_.lstrip("[") != "V" else "I" for p_ in params]
        ret = rng.choice(["V", gen_desc(rng)])
        nb = sum(2 if p_ in ("J", "D") else 1 for p_ in params) + rng.choice([0, 1, 3, 10])
        ctx.ev()
        ctx.count("get_params_info_calls")
        try:
            txt = dex.get_params_info(nb, "(%s)%s" % (" ".join(params), ret))
        except RecursionError:
            continue
        except Exception as e:
            ctx.violation("get_params_info-raises", "dex.get_params_info raises on a valid prototype", {"params": params, "ret": ret, "nb": nb, "exc": exc_str(e)})
            continue
        got_p = _re.findall(r"^# - v\d+:(.*)$", txt, _re.M)
        got_r = _re.findall(r"^# - return:(.*)$", txt, _re.M)
        okp = len(got_p) == len(params) and all(g in accepted(p_) for g, p_ in zip(got_p, params))
        okr = len(got_r) == 1 and got_r[0] in accepted(ret)
        if not (okp and okr):
            ctx.violation("get_params_info-%s" % ("parameter-types" if not okp else "return-type"), "the register summary does not name every parameter type (in order) and the return type",
                          {"params": params, "ret": ret, "nb": nb, "got_params": got_p, "got_return": got_r})
    ctx.sample({"desc": "[[Ljava/lang/String;", "accepted": sorted(accepted("[[Ljava/lang/String;"))})
    ctx.sample({"desc": "Ljava/lang/annotation/Foo;", "accepted": sorted(accepted("Ljava/lang/annotation/Foo;"))})
    ctx.require_counter("util.get_type")
    ctx.require_counter("dex.get_type")
    end_to_end(ctx)
    ctx.require_counter("printed_types_compared", 200)
    ctx.require_counter("same_name_fields_compared", 60)
    ctx.require_counter("same_name_fields_compared-ext", 60)
    ctx.require_counter("ext_field_types_compared", 100)


def class_header_names(desc):
    """accepted spellings of the class's own name in its header: the simple name (the package is printed separately)"""
    inner = desc[1:-1]
    return {inner.rsplit("/", 1)[-1]}


def end_to_end(ctx):
    import re
    from androguard.core.analysis.analysis import Analysis
    from androguard.core.dex import DEX
    from androguard.decompiler.decompiler import DecompilerDAD
    from vf.model import dexw as W
    rng = ctx.rng("c24-e2e")
    srng = ctx.rng("c24-e2e-samename")
    n = 120 if ctx.quick else 12000
    for k in range(n):
        m = W.DexModel()
        classes = []
        for ci in range(rng.choice([1, 2, 3])):
            pk = rng.choice(["", "", "p/", "p/q/", "java/lang/", "java/lang/ref/", "java/language/", "javax/x/"])
            cname = "L%sK%d_%d;" % (pk, k, ci)
            sup = rng.choice(["Ljava/lang/Object;", "Ljava/lang/ref/WeakReference;", "Ljava/lang/Thread;", "Lx/Base;", "LNoPackageBase;"])
            ifs = rng.sample(["Ljava/lang/Runnable;", "Ljava/lang/annotation/Annotation;", "Ljava/io/Serializable;", "LNoPkgIface;"], rng.randrange(0, 3))
            c = m.add_class(cname, W.ACC_PUBLIC, sup, ifs)
            fields = []
            for fi in range(rng.randrange(0, 5)):
                d = gen_desc(rng)
                if d.count("[") > 6:
                    d = d.lstrip("[")
                c.add_field("f%d" % fi, d, rng.choice([0, W.ACC_PUBLIC, W.ACC_STATIC]))
                fields.append(("f%d" % fi, d))
            # field names are unique in Java source but not in DEX: a field is identified by (class, name, TYPE), so a class may declare
            # several fields sharing one name with different descriptors (aggressive overloading by obfuscators); each has its own type
            same = []
            if srng.random() < 0.5:
                for gi in range(srng.choice([1, 1, 2])):
                    descs = []
                    want_n = srng.choice([2, 2, 3])
                    while len(descs) < want_n:
                        if descs and srng.random() < 0.4:
                            # a close relative of a sibling: one more dimension, its element type, or the same simple name in another package
                            b = srng.choice(descs)
                            v = srng.choice(["dim", "elem", "pkg"])
                            if v == "dim":
                                d = "[" + b
                            elif v == "elem":
                                d = b.lstrip("[")
                            else:
                                e = b.lstrip("[")
                                d = b[:len(b) - len(e)] + ("L%s%s" % (srng.choice(["", "java/lang/", "java/lang/ref/", "p/"]), e[1:].rsplit("/", 1)[-1]) if e not in PRIMS else srng.choice("ZBSCIJFD"))
                        else:
                            d = gen_desc(srng)
                        if d.count("[") > 6:
                            d = d.lstrip("[")
                        if d not in descs:
                            descs.append(d)
                    for d in descs:
                        acc = srng.choice([0, W.ACC_PUBLIC, W.ACC_PRIVATE, W.ACC_STATIC, W.ACC_STATIC, W.ACC_STATIC | W.ACC_PUBLIC, W.ACC_FINAL])
                        c.add_field("g%d" % gi, d, acc)
                        same.append(("g%d" % gi, d, bool(acc & W.ACC_STATIC)))
            methods = []
            for mi in range(rng.randrange(0, 4)):
                ret = rng.choice(["V", gen_desc(rng).lstrip("[") if rng.random() < 0.5 else gen_desc(rng)])
                if ret.count("[") > 6:
                    ret = ret.lstrip("[")
                params = []
                for _ in range(rng.randrange(0, 4)):
                    d = gen_desc(rng)
                    if d.count("[") > 6:
                        d = d.lstrip("[")
                    params.append(d)
                c.add_method("m%d" % mi, ret, params, W.ACC_PUBLIC | W.ACC_ABSTRACT)
                methods.append(("m%d" % mi, ret, params))
            c.access |= W.ACC_ABSTRACT
            bodies = []
            OBJ = "Ljava/lang/Object;"
            for bi in range(rng.randrange(0, 4)):
                form = rng.choice(["cc", "io", "kc", "na", "ni", "sg", "iv", "fa"])
                t = gen_desc(rng)
                if t.count("[") > 6:
                    t = t.lstrip("[")
                if form in ("ni", "sg", "iv"):
                    t = t.lstrip("[")
                    if t in PRIMS:
                        t = "Ljava/lang/ref/Foo;"
                if form in ("na", "fa") and not t.startswith("["):
                    t = "[" * rng.choice([1, 2, 3]) + t
                if t == "V" or t.lstrip("[") == "V":
                    t = "[I" if form in ("na", "fa") else OBJ
                nm = "b%d" % bi
                ST = W.ACC_PUBLIC | W.ACC_STATIC
                if form == "cc":
                    c.add_method(nm, OBJ, (OBJ,), ST, W.Code(2, 1, 0, [("check-cast", 1, W.Typ(t)), ("return-object", 1)]))
                elif form == "io":
                    c.add_method(nm, "Z", (OBJ,), ST, W.Code(2, 1, 0, [("instance-of", 0, 1, W.Typ(t)), ("return", 0)]))
                elif form == "kc":
                    c.add_method(nm, "Ljava/lang/Class;", (), ST, W.Code(1, 0, 0, [("const-class", 0, W.Typ(t)), ("return-object", 0)]))
                elif form == "na":
                    c.add_method(nm, OBJ, ("I",), ST, W.Code(3, 1, 0, [("new-array", 0, 2, W.Typ(t)), ("return-object", 0)]))
                elif form == "ni":
                    c.add_method(nm, OBJ, (), ST, W.Code(1, 0, 1, [("new-instance", 0, W.Typ(t)), ("invoke-direct", [0], W.Mth(t, "<init>", "V", ())), ("return-object", 0)]))
                elif form == "sg":
                    c.add_method(nm, OBJ, (), ST, W.Code(1, 0, 0, [("sget-object", 0, W.Fld(t, "f", OBJ)), ("return-object", 0)]))
                elif form == "iv":
                    c.add_method(nm, OBJ, (OBJ,), ST, W.Code(2, 1, 1, [("invoke-static", [1], W.Mth(t, "g", OBJ, (OBJ,))), ("move-result-object", 0), ("return-object", 0)]))
                else:
                    c.add_method(nm, OBJ, ("I", "I"), ST, W.Code(3, 2, 2, [("filled-new-array", [1, 2], W.Typ(t)), ("move-result-object", 0), ("return-object", 0)]))
                proto = {"cc": (OBJ, (OBJ,)), "io": ("Z", (OBJ,)), "kc": ("Ljava/lang/Class;", ()), "na": (OBJ, ("I",)), "ni": (OBJ, ()), "sg": (OBJ, ()), "iv": (OBJ, (OBJ,)),
                         "fa": (OBJ, ("I", "I"))}[form]
                bodies.append((nm, form, t, proto))
            classes.append((cname, sup, ifs, fields, methods, bodies, same))
        try:
            d = DEX(W.write_dex(m))
            dx = Analysis(d)
            d.set_decompiler(DecompilerDAD(d, dx))
            dx.create_xref()
        except Exception as e:
            ctx.violation("e2e-parse-raises", "DEX/Analysis raises on a generated file", {"exc": exc_str(e)})
            continue
        for cname, sup, ifs, fields, methods, bodies, same in classes:
            ctx.ev()
            ctx.count("classes_decompiled")
            try:
                src = d.get_class(cname).get_source()
            except Exception as e:
                ctx.violation("e2e-decompile-raises", "get_source raises", {"class": cname, "exc": exc_str(e)})
                continue
            wit = {"class": cname, "source": src[:1200]}
            hm = re.search(r"^(?:[a-z]+ )*(?:class|interface) (\S+)(?: extends (\S+))?(?: implements ([^{]*))? \{", src, re.M)
            if not hm:
                ctx.violation("e2e-class-header-unparsable", "class header not found in the decompiled source", wit)
                continue
            ctx.count("printed_types_compared")
            if hm.group(1) not in class_header_names(cname):
                mech = "class-header-package-less-keeps-L" if "/" not in cname and hm.group(1) == cname[:-1] else "class-header-name"
                ctx.violation(mech, "the class header names the class differently from its descriptor", dict(wit, got=hm.group(1), accepted=sorted(class_header_names(cname))))
            if sup != "Ljava/lang/Object;":
                ctx.count("printed_types_compared")
                if hm.group(2) not in accepted(sup):
                    ctx.violation("superclass-name", "superclass rendered as a different Java type", dict(wit, got=hm.group(2), accepted=sorted(accepted(sup))))
            got_ifs = [x.strip() for x in (hm.group(3) or "").split(",") if x.strip()]
            if len(got_ifs) != len(ifs) or any(g not in accepted(i) for g, i in zip(got_ifs, ifs)):
                ctx.violation("interface-name", "interfaces rendered as different Java types", dict(wit, got=got_ifs, want=ifs))
            ctx.count("printed_types_compared", len(ifs))
            for fname, fd in fields:
                fm = re.search(r"^\s*(?:[a-z]+ )*(\S+) %s;" % fname, src, re.M)
                ctx.count("printed_types_compared")
                if not fm:
                    ctx.violation("field-not-printed", "a declared field is missing in the decompiled class", dict(wit, field=fname))
                elif fm.group(1) not in accepted(fd):
                    ctx.violation("field-type-" + pkgclass_of(fd), "field type rendered as a different Java type", dict(wit, field=fname, desc=fd, got=fm.group(1), accepted=sorted(accepted(fd))))
                ctx.sig("e2e-field", pkgclass_of(fd), min(fd.count("["), 3))
            # every declaration of a name shared by several fields carries the type of ITS field: the printed types of the name, taken
            # together, are the types of the fields of that name (whatever the order the declarations are printed in)
            if same:
                decls = {}
                for line in src.split("\n"):
                    if line.startswith("    ") and not line.startswith("     ") and line.endswith(";") and "(" not in line and " = " not in line:
                        words = line[:-1].split()
                        if len(words) >= 2:
                            decls.setdefault(words[-1], []).append(words[-2])
                same_name_fields(ctx, "get_source", same, decls, wit)
            if same or fields:
                # the token form of the same source (DvClass.get_source_ext): FIELD entries with FIELD_TYPE and NAME_FIELD tokens
                try:
                    ext = d.get_class(cname).get_source_ext()
                except Exception as e:
                    ctx.violation("e2e-decompile-ext-raises", "get_source_ext raises", {"class": cname, "exc": exc_str(e)})
                    ext = None
                if ext is not None:
                    decls = {}
                    for kind, toks in ext:
                        if kind == "FIELD":
                            t = {x[0]: x[1] for x in toks}
                            decls.setdefault(t.get("NAME_FIELD"), []).append(t.get("FIELD_TYPE"))
                    for fname, fd in fields:
                        got = decls.get(fname, [])
                        ctx.count("printed_types_compared")
                        ctx.count("ext_field_types_compared")
                        if len(got) != 1:
                            ctx.violation("field-not-printed-ext", "a declared field is missing (or repeated) in the token form of the decompiled class", dict(wit, field=fname, got=got))
                        elif got[0] not in accepted(fd):
                            ctx.violation("field-type-ext-" + pkgclass_of(fd), "field type rendered as a different Java type in the token form of the source",
                                          dict(wit, field=fname, desc=fd, got=got[0], accepted=sorted(accepted(fd))))
                    if same:
                        same_name_fields(ctx, "get_source_ext", same, decls, wit)
            for mname, ret, params in methods:
                mm = re.search(r"(\S+) %s\(([^)]*)\)" % mname, src)
                ctx.count("printed_types_compared", 1 + len(params))
                if not mm:
                    ctx.violation("method-not-printed", "a declared method is missing in the decompiled class", dict(wit, method=mname))
                    continue
                if mm.group(1) not in accepted(ret):
                    ctx.violation("return-type-" + pkgclass_of(ret), "return type rendered as a different Java type", dict(wit, method=mname, desc=ret, got=mm.group(1), accepted=sorted(accepted(ret))))
                gp = [x.strip().rsplit(" ", 1)[0] for x in mm.group(2).split(",") if x.strip()]
                if len(gp) != len(params):
                    ctx.violation("parameter-count", "the printed prototype has another number of parameters", dict(wit, method=mname, got=gp, want=list(params)))
                    continue
                for g, pd in zip(gp, params):
                    if g not in accepted(pd):
                        ctx.violation("parameter-type-" + pkgclass_of(pd), "parameter type rendered as a different Java type", dict(wit, method=mname, desc=pd, got=g, accepted=sorted(accepted(pd))))
                    ctx.sig("e2e-param", pkgclass_of(pd), min(pd.count("["), 3))
            # types named inside method bodies: cast, instanceof, class constant, array creation, instance creation, static member owner
            BODY_RX = {"cc": r"\(\((.+?)\) p\d+\)", "io": r"\(p\d+ instanceof (.+?)\)", "kc": r"return (.+?);", "na": r"new ([^\s;(){}]+)\[[^\]]+\]", "ni": r"new ([^\s;(){}]+)\(\)",
                       "sg": r"return (.+?)\.f;", "iv": r"return (.+?)\.g\(", "fa": r"new ([^\s;(){}]+) \{"}
            for nm, form, t, proto in bodies:
                # the prototype of a method WITH code comes from the descriptor, whatever the body does to the parameter registers (casts, reuse)
                pm = re.search(r"(\S+) %s\(([^)]*)\)" % nm, src)
                ctx.count("printed_types_compared", 1 + len(proto[1]))
                if pm:
                    gp = [x.strip().rsplit(" ", 1)[0] for x in pm.group(2).split(",") if x.strip()]
                    if pm.group(1) not in accepted(proto[0]) or len(gp) != len(proto[1]) or any(g not in accepted(pd) for g, pd in zip(gp, proto[1])):
                        ctx.violation("prototype-of-method-with-code-" + form, "the printed prototype of a method with code differs from its descriptor",
                                      dict(wit, method=nm, form=form, got=[pm.group(1)] + gp, want=[proto[0]] + list(proto[1])))
                bm = re.search(r" %s\([^)]*\)\s*\{(.*?)\n    \}" % nm, src, re.S)
                ctx.count("printed_types_compared")
                ctx.count("body_types_compared")
                if not bm:
                    ctx.violation("method-not-printed", "a declared method is missing in the decompiled class", dict(wit, method=nm))
                    continue
                tm = re.search(BODY_RX[form], bm.group(1))
                want_t = t[1:] if form == "na" else t     # new E[n]: E is the element type of the array type of the instruction
                if not tm:
                    ctx.violation("body-type-not-printed-" + form, "the type operand of the instruction is not found in the printed body", dict(wit, method=nm, form=form, desc=t, body=bm.group(1)))
                elif tm.group(1) not in accepted(want_t):
                    ctx.violation("body-type-%s-%s" % (form, pkgclass_of(want_t)), "a type named in a method body is rendered as a different Java type",
                                  dict(wit, method=nm, form=form, desc=t, got=tm.group(1), accepted=sorted(accepted(want_t)), body=bm.group(1)))
                ctx.sig("e2e-body", form, pkgclass_of(want_t), min(want_t.count("["), 3))
        if k == 0:
            ctx.sample({"e2e_class": classes[0][0], "fields": classes[0][3], "methods": classes[0][4], "source": src[:500]})


def same_name_fields(ctx, where, same, decls, wit):
    """same: [(name, descriptor, is_static)] of the fields sharing their name with another field of the class; decls: name -> printed types.
    The printed types of a name must be assignable one to one to the fields of that name."""
    by_name = {}
    for name, fd, st in same:
        by_name.setdefault(name, []).append((fd, st))
    ext = "-ext" if where == "get_source_ext" else ""
    for name, fl in sorted(by_name.items()):
        descs = [fd for fd, _ in fl]
        got = decls.get(name, [])
        ctx.ev()
        ctx.count("same_name_field_groups" + ext)
        ctx.count("same_name_fields_compared" + ext, len(descs))
        ctx.count("printed_types_compared", len(descs))
        w = dict(wit, where=where, field=name, descs=descs, got=got, accepted=[sorted(accepted(fd)) for fd in descs])
        if len(got) != len(descs):
            ctx.violation("field-not-printed" + ext, "a class declaring several fields of one name: not one declaration per field", w)
            continue
        if not any(all(g in accepted(fd) for g, fd in zip(perm, descs)) for perm in itertools.permutations(got)):
            every = set().union(*[accepted(fd) for fd in descs])
            if all(g in every for g in got):
                mech = "field-type-same-name-takes-sibling-type" + ext
                what = "fields sharing one name with different descriptors: a declaration is printed with the type of another field of that name"
            else:
                mech = "field-type-same-name" + ext
                what = "fields sharing one name with different descriptors: a declaration is printed with a type of none of them"
            ctx.violation(mech, what, w)
        nst = sum(1 for _, st in fl if st)
        ctx.sig("e2e-same-name-fields" + ext, len(descs), "static" if nst == len(fl) else "instance" if not nst else "mixed",
                tuple(sorted({pkgclass_of(fd) for fd in descs})), len({fd.lstrip("[") for fd in descs}) < len(descs))


def pkgclass_of(desc):
    b = desc.lstrip('[')
    if b in PRIMS:
        return "prim"
    segs = b[1:-1].split('/')
    if segs[:2] == ['java', 'lang']:
        return "javalang-direct" if len(segs) == 3 else "javalang-sub"
    if segs[0].startswith('jav') and len(segs) > 1 and segs[1].startswith('lan'):
        return "lookalike"
    return "other"
