"""C24 type descriptors -> Java type names (direct calls; the end-to-end part through DvClass.get_source
lives in vf/checks/c24_e2e once the DEX writer is available)."""
import itertools

from vf.harness import exc_str

PRIMS = {'V': 'void', 'Z': 'boolean', 'B': 'byte', 'S': 'short', 'C': 'char', 'I': 'int', 'J': 'long', 'F': 'float', 'D': 'double'}


def accepted(desc):
    """set of accepted Java spellings of a field/param/return descriptor"""
    dims = 0
    while desc[dims] == '[':
        dims += 1
    base = desc[dims:]
    if base in PRIMS:
        names = {PRIMS[base]}
    else:
        assert base[0] == 'L' and base[-1] == ';'
        inner = base[1:-1]
        full = inner.replace('/', '.')
        names = {full}
        segs = inner.split('/')
        if len(segs) == 3 and segs[0] == 'java' and segs[1] == 'lang':
            names.add(segs[2])
    return {n + '[]' * dims for n in names}


SEGS = ['java', 'lang', 'language', 'javax', 'langX', 'annotation', 'ref', 'reflect', 'invoke', 'a', 'v', 'g', 'l', 'n', 'j',
        'String', 'Object', 'Foo', 'Thread$State', 'Lfoo', 'gnal', 'nav', 'jav', 'lan', 'x1', '_', 'va', 'ng', 'la', 'java$', 'Ljava', 'util', 'io', 'android', 'R$id']


def gen_desc(rng):
    r = rng.random()
    if r < 0.12:
        base = rng.choice(list(PRIMS)[1:])
    else:
        k = rng.random()
        if k < 0.35:
            segs = ['java', 'lang'] + [rng.choice(SEGS) for _ in range(rng.choice([1, 1, 1, 2, 2, 3]))]
        elif k < 0.5:
            segs = [rng.choice(['java', 'javax', 'jav', 'j']), rng.choice(['lang', 'language', 'langX', 'lan', 'lang$'])] + [rng.choice(SEGS) for _ in range(rng.randint(1, 2))]
        else:
            segs = [rng.choice(SEGS) for _ in range(rng.randint(1, 5))]
        if rng.random() < 0.15:
            segs[-1] = ''.join(rng.choice('javlngLOI$_x.0;[') for _ in range(rng.randint(1, 6))).replace('.', 'q').replace(';', 'w').replace('[', 'e')
        base = 'L' + '/'.join(segs) + ';'
    dims = rng.choice([0, 0, 0, 1, 1, 2, 3, rng.randint(4, 255)])
    return '[' * dims + base


def run(ctx):
    from androguard.core import dex
    from androguard.decompiler import util
    ctx.rule = ("direct calls of decompiler.util.get_type and dex.get_type on descriptors: exhaustive primitives x dims 0..3, "
                "all 1..3-segment class names over a fixed segment alphabet, random descriptors (look-alike packages, nested arrays to depth 255); "
                "distinct non-trivial = distinct (function, package-class, #segments, dims-class) with a class type")
    ctx.assumptions = ["accepted spellings: fully-qualified dotted name, or the short name for direct members of java.lang; one [] per dimension"]
    rng = ctx.rng("c24")
    fns = (("util.get_type", util.get_type), ("dex.get_type", dex.get_type))

    def pkgclass(desc):
        b = desc.lstrip('[')
        if b in PRIMS:
            return "prim"
        segs = b[1:-1].split('/')
        if segs[:2] == ['java', 'lang']:
            return "java.lang direct" if len(segs) == 3 else "java.lang sub" if len(segs) > 3 else "java.lang itself"
        if segs[0].startswith('jav') and len(segs) > 1 and segs[1].startswith('lan'):
            return "lookalike"
        return "other"

    def classify(name, desc, got):
        pc = pkgclass(desc)
        if pc == "java.lang sub":
            return "%s-javalang-subpackage-stripped" % name
        if pc in ("lookalike",):
            return "%s-lookalike-package-stripped" % name
        if pc == "java.lang direct":
            return "%s-javalang-direct-wrong" % name
        if pc == "prim":
            return "%s-primitive-wrong" % name
        return "%s-class-wrong" % name

    def one(desc):
        want = accepted(desc)
        for name, fn in fns:
            ctx.ev()
            ctx.count(name)
            try:
                got = fn(desc)
            except RecursionError:
                ctx.count("recursion_error_deep_array")
                continue
            except Exception as e:
                ctx.violation(name + "-raises", "%s raises on a valid descriptor" % name, {"desc": desc, "exc": exc_str(e)})
                continue
            if got not in want:
                ctx.violation(classify(name, desc, got), "%s renders a descriptor as a different Java type" % name, {"desc": desc, "got": got, "accepted": sorted(want)})
            dims = len(desc) - len(desc.lstrip('['))
            if pkgclass(desc) != "prim" or dims:
                ctx.sig(name, pkgclass(desc), min(desc.count('/'), 5), min(dims, 4))

    for p in PRIMS:
        for d in range(0, 4):
            if p == 'V' and d:
                continue
            one('[' * d + p)
    ctx.count("exhaustive_primitives", len(PRIMS))
    for k in (1, 2, 3):
        for segs in itertools.product(SEGS if k < 3 else SEGS[:18], repeat=k):
            one('L' + '/'.join(segs) + ';')
    for segs in itertools.product(SEGS, repeat=1):
        one('Ljava/lang/' + segs[0] + ';')
        one('[Ljava/lang/' + segs[0] + ';')
        for s2 in SEGS:
            one('Ljava/lang/%s/%s;' % (segs[0], s2))
    for _ in range(20000 if ctx.quick else 1500000):
        one(gen_desc(rng))
    ctx.sample({"desc": "[[Ljava/lang/String;", "accepted": sorted(accepted("[[Ljava/lang/String;"))})
    ctx.sample({"desc": "Ljava/lang/annotation/Foo;", "accepted": sorted(accepted("Ljava/lang/annotation/Foo;"))})
    ctx.require_counter("util.get_type")
    ctx.require_counter("dex.get_type")
