"""C29 resource resolution terminates on reference cycles (generated tables with chains and cycles of length 1..5 -> ARSCParser resolver).

Deciding observations, both on the real androguard code:
 * termination: get_resolved_res_configs runs under a sys.monitoring step counter (PY_START + JUMP + BRANCH events).  The budget is calibrated
   in-run on acyclic chains of the same sizes: budget = 100 * (largest observed steps-per-node ratio * nodes + constant), never below 50 000.
   A RecursionError (default recursion limit) or a budget overrun is a violation; the mechanism names the cycle length and shape.
 * values: every concrete (non-reference) value reachable from the id must be present in the returned structure.
Domain decisions:
 * tables have the aapt shape (see C28); cycles go through plain entries (string aliases), through bag items (array item -> entry -> ... -> bag),
   with one or several configurations per node; length 1 is a self reference.
 * what is returned for the reference edges themselves is don't-care; only termination and presence of reachable concrete values are judged
   (configuration labels of values reached through references are not compared).
 * get_app_name / get_app_icon on an APK whose label / icon sits on a cycle must return (any value) instead of raising RecursionError.
"""
import sys

from vf.checks import c28
from vf.harness import exc_str
from vf.model import apkzip
from vf.model import arscw as R
from vf.model import axmlw as W

MOD = "vf.checks.c29"
TOOL = 4  # a free sys.monitoring tool id (0..5); 4 is not reserved by debugger/coverage/profiler/optimizer


class BudgetExceeded(BaseException):
    pass


class StepBudget:
    """counts PY_START / JUMP / BRANCH events of everything executed inside `with`; raises BudgetExceeded inside the monitored code"""

    def __init__(self, budget):
        self.budget = budget
        self.steps = 0

    def _cb(self, *a):
        self.steps += 1
        if self.steps > self.budget:
            sys.monitoring.set_events(TOOL, 0)
            raise BudgetExceeded()

    def __enter__(self):
        mon = sys.monitoring
        E = mon.events
        mon.use_tool_id(TOOL, "vf-steps")
        for ev in (E.PY_START, E.JUMP, E.BRANCH):
            mon.register_callback(TOOL, ev, self._cb)
        mon.set_events(TOOL, E.PY_START | E.JUMP | E.BRANCH)
        return self

    def __exit__(self, *exc):
        mon = sys.monitoring
        E = mon.events
        mon.set_events(TOOL, 0)
        for ev in (E.PY_START, E.JUMP, E.BRANCH):
            mon.register_callback(TOOL, ev, None)
        mon.free_tool_id(TOOL)
        return False


# ---------------------------------------------------------------------------------------------------------------------
# table shapes
# ---------------------------------------------------------------------------------------------------------------------
PID = 0x7F


FEATURES = {}


def build_graph_table(rng, length, shape, cyclic, nconfigs, extra_values):
    """One package; type 1 'string' holds the chain nodes, type 2 'array' the bag (shape 'complex').
    nodes n0 -> n1 -> ... -> n(length-1) [-> n0 if cyclic else a concrete value].  For shape 'complex' n0 is a bag whose item holds the reference.
    nconfigs: configurations per node (the reference is stored in every one of them).
    extra_values: some nodes get one more configuration holding a concrete string (must be found)."""
    m = c28.Model()
    cfgs = [R.Config()] + [R.Config(*loc) for loc in [("de", ""), ("fr", "FR"), ("en", "")]][:nconfigs - 1]
    if rng.random() < 0.3:
        # no node has a default (locale-less) variant: everything lives in values-de / values-fr-rFR / values-en only
        cfgs = [R.Config(*loc) for loc in [("de", ""), ("fr", "FR"), ("en", "")]][:max(1, nconfigs)]
        FEATURES["locale_only_tables"] = FEATURES.get("locale_only_tables", 0) + 1
    extra_cfg = R.Config("ja", "")
    str_entries = {}  # cfgkey -> {idx: Entry}
    arr_entries = {}
    concrete = []

    def rid_of(i):
        if shape == "complex" and i == 0:
            return (PID << 24) | (2 << 16) | 0
        return (PID << 24) | (1 << 16) | i

    def put(store, cfg, idx, e):
        store.setdefault(cfg.key(), (cfg, {}))[1][idx] = e

    # the reference may sit in every configuration of a node, or only in the later ones (the first variant then holds a plain string)
    ref_not_in_first = nconfigs >= 2 and rng.random() < 0.4
    null_refs = rng.random() < 0.3
    for i in range(length):
        last = i == length - 1
        if last and not cyclic:
            s = "terminal-%d" % rng.randrange(10 ** 6)
            target = R.Value(R.T_STRING, string=s)
            concrete.append(s)
        else:
            target = R.Value(R.T_REF, rid_of((i + 1) % length))
        for cfg in cfgs:
            v = R.Value(target.dtype, target.data, target.string)
            if ref_not_in_first and cfg is cfgs[0] and not (shape == "complex" and i == 0):
                s0 = "first-variant-%d-%d" % (i, rng.randrange(10 ** 6))
                v = R.Value(R.T_STRING, string=s0)
                concrete.append(s0)
            if shape == "complex" and i == 0:
                items = [(0x02000000, v)]
                if null_refs:
                    items.insert(rng.randrange(2), (0x02000005, R.Value(R.T_REF, 0)))      # @null: an empty reference denotes no value
                if extra_values:
                    s = "item-%d" % rng.randrange(10 ** 6)
                    items.append((0x02000001, R.Value(R.T_STRING, string=s)))
                    if cfg is cfgs[0]:
                        concrete.append(s)
                    else:
                        concrete.append(s)
                put(arr_entries, cfg, 0, R.Entry("bag", "complex", items=items))
            else:
                ek = "compact" if shape == "compact" or (shape == "mixed" and rng.random() < 0.5) else "plain"
                put(str_entries, cfg, i, R.Entry("node%d" % i, ek, value=v))
        if null_refs and rng.random() < 0.5 and not (shape == "complex" and i == 0) and shape != "compact":
            # one more configuration of this node holds @null (plain entry): nothing to report for it
            put(str_entries, R.Config("ko", ""), i, R.Entry("node%d" % i, "plain", value=R.Value(R.T_REF, 0)))
        if extra_values and rng.random() < 0.6 and not (shape == "complex" and i == 0):
            s = "side-%d-%d" % (i, rng.randrange(10 ** 6))
            put(str_entries, extra_cfg, i, R.Entry("node%d" % i, "plain", value=R.Value(R.T_STRING, string=s)))
            concrete.append(s)
    types = []
    n_str = length
    if str_entries:
        types.append(R.ResType("string", n_str, [R.TypeChunk(c, e) for c, e in str_entries.values()]))
    else:
        types.append(R.ResType("string", 1, [R.TypeChunk(R.Config(), {0: R.Entry("unused", "plain", value=R.Value(R.T_STRING, string="u"))})]))
    if arr_entries:
        types.append(R.ResType("array", 1, [R.TypeChunk(c, e) for c, e in arr_entries.values()]))
    pk = R.Package(PID, "com.cycle.app", types)
    table = R.Table([pk])
    for tid0, t in enumerate(types):
        for c in t.chunks:
            for i, e in c.entries.items():
                rid = (PID << 24) | ((tid0 + 1) << 16) | i
                m.res.setdefault(rid, []).append((c.config, e))
                m.meta[rid] = (pk.name, t.name, e.key)
    m.table = table
    m.special = None
    return m, rid_of(0), concrete


def flatten(x, out):
    if isinstance(x, str):
        out.append(x)
    elif isinstance(x, (list, tuple)):
        for y in x:
            flatten(y, out)


def run_resolver(a, rid, budget, config=None):
    """-> (status, result, steps) status: 'ok' | 'recursion' | 'budget' | 'raises:<exc>'"""
    sb = StepBudget(budget)
    try:
        with sb:
            r = a.get_resolved_res_configs(rid, config) if config is not None else a.get_resolved_res_configs(rid)
        return "ok", r, sb.steps
    except RecursionError:
        return "recursion", None, sb.steps
    except BudgetExceeded:
        return "budget", None, sb.steps
    except Exception as e:
        return "raises:" + exc_str(e), None, sb.steps


def one(ctx, rng, length, shape, cyclic, nconfigs, extra, budget, calibrate=None):
    from androguard.core.axml import ARSCParser, ARSCResTableConfig
    global PID
    PID = rng.choice([0x7F, 0x7F, 0x7F, 0x01, 0x02, 0x7E])     # the app's own package, the framework's id, a shared library, a feature split
    m, start, concrete = build_graph_table(rng, length, shape, cyclic, nconfigs, extra)
    data = R.build(m.table)
    R.selfcheck(m.table, data)
    a = ARSCParser(data)
    a.get_packages_names()
    a._analyse() if hasattr(a, "_analyse") else None  # parsing/analysis is not what is budgeted
    kind = "cycle" if cyclic else "chain"
    wit = {"package_id": PID, "length": length, "shape": shape, "kind": kind, "configs_per_node": nconfigs, "extra_values": extra, "start": "%08x" % start, "arsc_hex": data.hex() if len(data) < 3000 else None}
    for cfgmode in ("all", "default"):
        cfg = ARSCResTableConfig.default_config() if cfgmode == "default" else None
        ctx.ev()
        ctx.count("resolver_runs")
        ctx.count("resolver_runs_%s" % kind)
        status, res, steps = run_resolver(a, start, budget, cfg)
        ctx.maxi("steps_%s" % kind, steps)
        if calibrate is not None and status == "ok":
            calibrate.append((length * nconfigs, steps))
        if status != "ok":
            if status in ("recursion", "budget"):
                mech = "%s-len-%d-%s-%s" % (kind, length, shape, status)
                what = "resolving an id on a reference %s of length %d (%s entries) %s" % (kind, length, shape, "ends in RecursionError" if status == "recursion" else "exceeds the step budget")
            else:
                mech = "%s-len-%d-%s-raises" % (kind, length, shape)
                what = "resolver raises"
            ctx.violation(mech, what, dict(wit, status=status, steps=steps, budget=budget, config=cfgmode))
            continue
        if cfgmode == "all":
            flat = []
            flatten(res, flat)
            missing = [s for s in concrete if s not in flat]
            if missing:
                ctx.violation("%s-len-%d-%s-value-missing" % (kind, length, shape), "a concrete value reachable from the id is not in the result",
                              dict(wit, missing=missing, got=[repr(x)[:200] for x in res[:8]]))
                continue
            made_up = [s for s in flat if s not in concrete]
            if made_up:
                ctx.violation("%s-%s-value-not-in-the-table" % (kind, shape), "the result holds a value that no entry reachable from the id stores",
                              dict(wit, made_up=made_up[:5], stored=concrete[:8]))
                continue
            if not cyclic:
                r = c28.match_resolution(c28.expected_resolution(m, start), res)
                if r:
                    ctx.violation("chain-len-%d-%s-%s" % (length, shape, r[0]), "acyclic chain does not resolve to exactly the stored values", dict(wit, diff=r[1]))
                    continue
    if cyclic:
        # several queries on the SAME parser object: from every node of the cycle every concrete value is reachable, whatever was resolved before
        rids = [((PID << 24) | (2 << 16) | 0) if (shape == "complex" and i == 0) else ((PID << 24) | (1 << 16) | i) for i in range(length)]
        order = rids * 2
        rng.shuffle(order)
        for rid in order:
            ctx.ev()
            ctx.count("repeated_queries_same_parser")
            status, res, steps = run_resolver(a, rid, budget)
            if status != "ok":
                ctx.violation("%s-len-%d-%s-%s-on-repeated-query" % (kind, length, shape, status.split(":")[0]), "a later query on the same parser does not return", dict(wit, rid="%08x" % rid, status=status))
                break
            flat = []
            flatten(res, flat)
            missing = [x for x in concrete if x not in flat]
            if missing:
                ctx.violation("cycle-len-%d-%s-value-missing-on-repeated-query" % (length, shape), "after earlier queries on the same parser a concrete value reachable from the id is missing",
                              dict(wit, rid="%08x" % rid, missing=missing, query_order=["%08x" % r for r in order]))
                break
    ctx.sig(kind, length, shape, nconfigs, extra)
    return m, start, data


def apk_case(ctx, rng, length):
    """label and icon of the application sit on a reference cycle of the given length"""
    from androguard.core.apk import APK
    global PID
    PID = 0x7F    # the manifest below refers to 0x7F......
    cfg = R.Config()
    n = max(length, 1)
    strs = {i: R.Entry("app_name" if i == 0 else "alias%d" % i, "plain", value=R.Value(R.T_REF, (PID << 24) | (1 << 16) | ((i + 1) % n))) for i in range(n)}
    mips = {i: R.Entry("ic_launcher" if i == 0 else "ic%d" % i, "plain", value=R.Value(R.T_REF, (PID << 24) | (2 << 16) | ((i + 1) % n))) for i in range(n)}
    table = R.Table([R.Package(PID, "com.cycle.app", [R.ResType("string", n, [R.TypeChunk(cfg, strs)]), R.ResType("mipmap", n, [R.TypeChunk(cfg, mips)])])])
    arsc = R.build(table)
    R.selfcheck(table, arsc)
    A = W.ANDROID_NS
    root = W.Elem(None, "manifest", nsdecls=[("android", A)], attrs=[W.Attr(None, "package", W.TYPE_STRING, value="com.cycle.app")], children=[
        W.Elem(None, "application", attrs=[W.Attr(A, "label", W.TYPE_REFERENCE, data=0x7F010000, resid=0x01010001), W.Attr(A, "icon", W.TYPE_REFERENCE, data=0x7F020000, resid=0x01010002)],
               children=[W.Elem(None, "activity", attrs=[W.Attr(A, "name", W.TYPE_STRING, value=".Main", resid=0x01010003)])])])
    z = apkzip.pack({"AndroidManifest.xml": W.build(W.Doc(root)), "resources.arsc": arsc})
    a = APK(z, raw=True)
    for name, fn in (("get_app_name", a.get_app_name), ("get_app_icon", a.get_app_icon)):
        ctx.ev()
        ctx.count("apk_queries")
        sb = StepBudget(3000000)
        try:
            with sb:
                fn()
        except RecursionError:
            ctx.violation("cycle-len-%d-%s-recursion" % (length, name), "APK.%s raises RecursionError when the resource sits on a reference cycle" % name,
                          {"length": length, "steps": sb.steps, "apk_len": len(z), "arsc_hex": arsc.hex()})
        except BudgetExceeded:
            ctx.violation("cycle-len-%d-%s-budget" % (length, name), "APK.%s exceeds the step budget when the resource sits on a reference cycle" % name, {"length": length})
        except Exception as e:
            ctx.violation("cycle-len-%d-%s-raises" % (length, name), "APK.%s raises" % name, {"length": length, "exc": exc_str(e)})
    ctx.sig("apk", length)


def replay(ctx, path):
    """the workload is a fixed enumeration of shapes: a replay is a full run"""
    run(ctx)


def run(ctx):
    ctx.rule = ("tables with reference chains (control, must resolve exactly) and cycles of length 1..5 through plain entries, compact entries (FLAG_COMPACT), mixtures of both and through bag items, 1..4 configurations per "
                "node, optional concrete side values; get_resolved_res_configs(rid) and (rid, default config) run under a sys.monitoring step budget calibrated on the "
                "acyclic chains (100x linear envelope); APK.get_app_name / get_app_icon with label/icon on a cycle. distinct non-trivial = distinct (chain|cycle, length, "
                "shape, configs per node, side values)")
    ctx.assumptions = ["budget overrun or RecursionError = non-termination; a loop inside C code would only be caught by the wall-clock watchdog (inconclusive)",
                       "only termination and presence of reachable concrete values are judged for cycles",
                       "trusted base: vf.model.arscw (self-checked), sys.monitoring event delivery"]
    rng = ctx.rng("c29")
    # 1. calibration on acyclic chains (budget generous and fixed here)
    cal = []
    reps = 2 if ctx.quick else 12
    for length in range(1, 6):
        for shape in ("plain", "complex", "compact", "mixed"):
            for nconf in (1, 2, 4):
                for extra in (False, True):
                    for _ in range(reps):
                        one(ctx, rng, length, shape, False, nconf, extra, 5000000, calibrate=cal)
    if not cal:
        ctx.inconclusive("no calibration run finished")
        return
    ratio = max(s / max(n, 1) for n, s in cal)
    const = max(s for n, s in cal if n == min(x for x, _ in cal))
    ctx.extra["calibration"] = {"runs": len(cal), "max_steps_per_node": round(ratio, 1), "const": const}
    # 2. cycles
    for length in range(1, 6):
        for shape in ("plain", "complex", "compact", "mixed"):
            for nconf in (1, 2, 4):
                for extra in (False, True):
                    for _ in range(reps):
                        budget = max(50000, int(100 * (const + ratio * length * nconf)))
                        ctx.maxi("budget", budget)
                        r = one(ctx, rng, length, shape, True, nconf, extra, budget)
                        if length == 2 and shape == "plain" and nconf == 1 and not extra and r:
                            ctx.sample({"cycle_length": 2, "shape": "plain", "start": "%08x" % r[1], "arsc_hex": r[2].hex()})
    for length in range(1, 6):
        apk_case(ctx, rng, length)
    ctx.sample({"calibration": ctx.extra["calibration"]})
    ctx.count("tables_without_any_default_locale_variant", FEATURES.get("locale_only_tables", 0))
    ctx.require_counter("tables_without_any_default_locale_variant", 20)
    ctx.require_counter("resolver_runs_cycle", 100)
    ctx.require_counter("resolver_runs_chain", 100)
    ctx.require_counter("apk_queries", 10)
    ctx.min_distinct = 40
