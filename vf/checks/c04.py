"""C04 encoded constant values keep their declared width and signedness (static-field initial values, annotation element values,
and the initialiser the decompiler prints)."""
import re

from vf.harness import exc_str
from vf.model import dexw as W

MOD = "vf.checks.c04"
INT_TYPES = {"B": (W.V_BYTE, 8), "S": (W.V_SHORT, 16), "I": (W.V_INT, 32), "J": (W.V_LONG, 64)}
VT_NAME = {W.V_BYTE: "byte", W.V_SHORT: "short", W.V_CHAR: "char", W.V_INT: "int", W.V_LONG: "long", W.V_STRING: "string", W.V_TYPE: "type", W.V_FIELD: "field",
           W.V_METHOD: "method", W.V_ENUM: "enum", W.V_ARRAY: "array", W.V_ANNOTATION: "annotation", W.V_NULL: "null", W.V_BOOLEAN: "boolean"}


def boundary_values(bits, rng):
    m = 1 << (bits - 1)
    vals = {0, 1, -1, m - 1, -m, 0x7F, 0x80 - 256 if bits == 8 else 0x80, -0x80, 0xFF if bits > 8 else -1, 0x7FFF if bits >= 16 else 5, -0x8000 if bits >= 16 else -5,
            0x8000 if bits > 16 else 6, 0xFFFF if bits > 16 else 7, 0x7FFFFFFF if bits >= 32 else 8, -0x80000000 if bits >= 32 else -8, 0x80000000 if bits > 32 else 9,
            0xFFFFFFFF if bits > 32 else 10}
    vals |= {rng.randrange(-m, m) for _ in range(3)}
    return sorted(v for v in vals if -m <= v < m)


def widths_for(vtype, v):
    """all legal value widths (bytes) for the value: minimal ... declared maximum"""
    if vtype == W.V_BYTE:
        return [1]
    mx = {W.V_SHORT: 2, W.V_CHAR: 2, W.V_INT: 4, W.V_LONG: 8}[vtype]
    mn = W.min_unsigned_bytes(v) if vtype == W.V_CHAR else W.min_signed_bytes(v)
    return list(range(mn, mx + 1))


def expected_repr(ev):
    """the value the model defines for an EV, in a comparable normal form"""
    t = ev.vtype
    if t in (W.V_BYTE, W.V_SHORT, W.V_INT, W.V_LONG, W.V_CHAR):
        return ("int", ev.value)
    if t == W.V_BOOLEAN:
        return ("bool", bool(ev.value))
    if t == W.V_NULL:
        return ("null",)
    if t == W.V_STRING:
        return ("str", tuple(W.utf16_units(ev.value)))
    if t == W.V_TYPE:
        return ("type", ev.value)
    if t in (W.V_FIELD, W.V_ENUM):
        return ("field", ev.value.cls, ev.value.name, ev.value.type)
    if t == W.V_METHOD:
        return ("method", ev.value.cls, ev.value.name, "(%s)%s" % ("".join(ev.value.params), ev.value.ret))
    if t == W.V_ARRAY:
        return ("array", tuple(expected_repr(e) for e in ev.value))
    if t == W.V_ANNOTATION:
        return ("annotation", ev.value.type, tuple(sorted((n, expected_repr(e)) for n, e in ev.value.elements)))
    return ("skip",)


def real_repr(cm, rv, ev):
    """normal form of the real EncodedValue rv, guided by the expected type of ev"""
    t = ev.vtype
    v = rv.get_value()
    if rv.get_value_type() != t:
        return ("wrong-type", rv.get_value_type())
    if t in (W.V_BYTE, W.V_SHORT, W.V_INT, W.V_LONG, W.V_CHAR):
        return ("int", v)
    if t == W.V_BOOLEAN:
        return ("bool", v)
    if t == W.V_NULL:
        return ("null",) if v is None else ("not-null", repr(v))
    if t == W.V_STRING:
        return ("str", tuple(W.utf16_units(v)))
    if t == W.V_TYPE:
        return ("type", v)
    if t in (W.V_FIELD, W.V_ENUM):
        l = list(v)
        return ("field", l[0], l[2], l[1])
    if t == W.V_METHOD:
        l = list(v)
        # MethodIdItem.get_list(): [class, name, proto]
        return ("method", l[0], l[1], "".join(l[2:]).replace(" ", "") if not isinstance(l[2], (list, tuple)) else "".join(l[2]).replace(" ", ""))
    if t == W.V_ARRAY:
        vals = v.get_values()
        if len(vals) != len(ev.value):
            return ("array-len", len(vals))
        return ("array", tuple(real_repr(cm, a, b) for a, b in zip(vals, ev.value)))
    if t == W.V_ANNOTATION:
        els = v.get_elements()
        byname = dict(ev.value.elements)
        out = []
        for e in els:
            nm = cm.get_string(e.get_name_idx())
            if nm not in byname:
                return ("annotation-unknown-element", nm)
            out.append((nm, real_repr(cm, e.get_value(), byname[nm])))
        return ("annotation", cm.get_type(v.get_type_idx()), tuple(sorted(out)))
    return ("skip",)


def mech_for(ev, path):
    t = ev.vtype
    name = VT_NAME.get(t, hex(t))
    if t in (W.V_BYTE, W.V_SHORT, W.V_INT, W.V_LONG):
        bits = {W.V_BYTE: 8, W.V_SHORT: 16, W.V_INT: 32, W.V_LONG: 64}[t]
        w = ev.width or W.min_signed_bytes(ev.value)
        if ev.value < 0:
            return "%s-%s-negative-not-sign-extended" % (path, name) if True else ""
        return "%s-%s-value" % (path, name)
    return "%s-%s-value" % (path, name)


def first_bad(exp, got, ev):
    """find the innermost differing EV for attribution"""
    if exp == got:
        return None
    if ev.vtype == W.V_ARRAY and got[0] == "array":
        for e, (a, b) in zip(ev.value, zip(exp[1], got[1])):
            r = first_bad(a, b, e)
            if r:
                return r
    if ev.vtype == W.V_ANNOTATION and got[0] == "annotation" and got[1] == exp[1]:
        gd = dict(got[2])
        for n, e in ev.value.elements:
            r = first_bad(expected_repr(e), gd.get(n), e)
            if r:
                return r
    return ev, exp, got


def gen_scalar(rng, kinds=None):
    k = rng.choice(kinds or ["B", "S", "I", "J", "C", "Z", "str", "type", "field", "method", "enum", "null", "mtype"])
    if k == "mtype":
        # DEX 039 method type constant (a proto index): its own value is outside the statement, the values stored BEHIND it are not
        USED["mtype"] = True
        return W.EV(W.V_METHOD_TYPE, W.Pro(rng.choice(["V", "I"]), rng.choice([(), ("I", "J")])), rng.choice([None, 2, 4]))
    if k in INT_TYPES:
        vt, bits = INT_TYPES[k]
        v = rng.choice(boundary_values(bits, rng))
        return W.EV(vt, v, rng.choice(widths_for(vt, v)))
    if k == "C":
        v = rng.choice([0, 1, 0x7F, 0x80, 0xFF, 0x100, 0x7FFF, 0x8000, 0xFFFF, rng.randrange(65536)])
        return W.EV(W.V_CHAR, v, rng.choice(widths_for(W.V_CHAR, v)))
    if k == "Z":
        return W.EV(W.V_BOOLEAN, rng.random() < 0.5)
    if k == "str":
        return W.EV(W.V_STRING, rng.choice(["", "a", "héllo", "x\x00y", "😀", "line\nbreak", "say \"hi\"", "back\\slash", "Dear {{name}}, welcome", "{0} of {1}", "{}", "%s%%d", "\ud800x", "tab\there", "it's"]), rng.choice([None, None, 2, 4]))
    if k == "type":
        return W.EV(W.V_TYPE, rng.choice(["I", "[J", "Ljava/lang/String;", "Lp/V;"]), rng.choice([None, None, 2, 4]))
    if k == "field":
        return W.EV(W.V_FIELD, W.Fld("Lp/V;", "fa", "I"), rng.choice([None, 2, 4]))
    if k == "enum":
        return W.EV(W.V_ENUM, W.Fld("Lq/E;", "RED", "Lq/E;"), rng.choice([None, 2, 4]))
    if k == "method":
        return W.EV(W.V_METHOD, W.Mth("Lp/V;", "mm", "V", ("I", "J")), rng.choice([None, 2, 4]))
    return W.EV(W.V_NULL)


USED = {}


def gen_value(rng, depth=0):
    r = rng.random()
    if depth < 2 and r < 0.2:
        return W.EV(W.V_ARRAY, [gen_value(rng, depth + 1) for _ in range(rng.randrange(0, 4))])
    if depth < 2 and r < 0.3:
        names = rng.sample(["value", "a", "b", "zz", "name"], rng.randrange(0, 4))
        return W.EV(W.V_ANNOTATION, W.Annotation("Lq/Inner;", [(n, gen_value(rng, depth + 1)) for n in names]))
    return gen_scalar(rng)


FIELD_TYPE_FOR = {W.V_BYTE: "B", W.V_SHORT: "S", W.V_INT: "I", W.V_LONG: "J", W.V_CHAR: "C", W.V_BOOLEAN: "Z", W.V_STRING: "Ljava/lang/String;", W.V_TYPE: "Ljava/lang/Class;",
                  W.V_NULL: "Ljava/lang/Object;"}


def shard(ctx, arg):
    idx, count = arg
    from androguard.core import dex
    from androguard.core.analysis.analysis import Analysis
    from androguard.decompiler.decompiler import DecompilerDAD
    rng = ctx.rng("c04", idx)
    for k in range(count):
        m = W.DexModel()
        USED.clear()
        c = m.add_class("Lp/V;", source="V.java")
        c.add_field("fa", "I", 0)
        c.add_method("mm", "V", ("I", "J"), W.ACC_PUBLIC | W.ACC_NATIVE)
        fields = []
        if k % 3 == 0:
            # systematic: every integral type x boundary value x every legal width
            kind = ["B", "S", "I", "J", "C"][(k // 3) % 5]
            if kind == "C":
                vals = [(W.V_CHAR, v) for v in (0, 1, 0x7F, 0x80, 0xFF, 0x100, 0x7FFF, 0x8000, 0xFFFF)]
            else:
                vt, bits = INT_TYPES[kind]
                vals = [(vt, v) for v in boundary_values(bits, rng)]
            evs = [W.EV(vt, v, w_) for vt, v in vals for w_ in widths_for(vt, v)]
            rng.shuffle(evs)
            evs = evs[:40]
        else:
            evs = [gen_scalar(rng, ["B", "S", "I", "J", "C", "Z", "str", "type", "null"]) for _ in range(rng.randrange(1, 12))]
        # a DEX field is identified by name AND type: fields of one class may share their name (obfuscators: -overloadaggressively)
        same_names = k % 7 == 3
        used_nt = set()
        for i, ev in enumerate(evs):
            nm = "f%d" % i
            if same_names and ("g%d" % (i % 2), FIELD_TYPE_FOR[ev.vtype]) not in used_nt:
                nm = "g%d" % (i % 2)
            used_nt.add((nm, FIELD_TYPE_FOR[ev.vtype]))
            # static_values belongs to the static fields whatever their other flags are (d8 folds stores of <clinit> into non-final fields too)
            fl = W.ACC_STATIC | rng.choice((W.ACC_PUBLIC, W.ACC_PUBLIC, W.ACC_PRIVATE, W.ACC_PROTECTED, 0))
            r = rng.random()
            if r < 0.55:
                fl |= W.ACC_FINAL
            elif r < 0.7:
                fl |= W.ACC_VOLATILE
            if rng.random() < 0.15:
                fl |= rng.choice((W.ACC_TRANSIENT, W.ACC_SYNTHETIC, W.ACC_ENUM))
            if not fl & W.ACC_FINAL:
                ctx.count("initialised_static_fields_that_are_not_final")
            f = c.add_field(nm, FIELD_TYPE_FOR[ev.vtype], fl, init=ev)
            fields.append((f, ev))
        bare = None
        if same_names:
            ctx.count("classes_with_same_named_fields")
            bare = c.add_field("g0", "D", 0)   # an instance field without initial value that shares its name with initialised static fields
        # class annotations with every value type, nested arrays / annotations
        anns = []
        for a in range(rng.randrange(0, 3)):
            names = ["e%d" % j for j in range(rng.randrange(1, 6))]
            anns.append(W.Annotation("Lq/A%d;" % a, [(n, gen_value(rng)) for n in names], visibility=rng.choice([0, 1, 2])))
        c.annotations = anns
        # a class WITHOUT any member (marker interface, package-info, element-less annotation type) carries annotations too
        anns_marker = []
        for a in range(rng.randrange(0, 3)):
            names = ["e%d" % j for j in range(rng.randrange(1, 6))]
            anns_marker.append(W.Annotation("Lq/B%d;" % a, [(n, gen_value(rng)) for n in names], visibility=rng.choice([0, 1, 2])))
        marker = m.add_class("Lp/Marker;", W.ACC_PUBLIC | W.ACC_INTERFACE | W.ACC_ABSTRACT)
        marker.annotations = anns_marker
        pad_n = 0
        if k % 8 == 5:
            # index-valued constants (string / type / field / method / enum) beyond 0x7F and 0x7FFF: the index is an UNSIGNED little-endian
            # value of 1..4 bytes; a padding class sorting first pushes the string, field and method indices up
            pad_n = 33000 if (not ctx.quick and k % 512 == 5) or (ctx.quick and idx == 0 and k == 5) else rng.choice([130, 200, 300])
            pad = m.add_class("La/Pad;", W.ACC_PUBLIC | W.ACC_ABSTRACT)
            for i in range(pad_n):
                pad.add_field("A%05d" % i, "I", W.ACC_STATIC | W.ACC_PUBLIC)
                pad.add_method("A%05d" % i, "V", (), W.ACC_PUBLIC | W.ACC_NATIVE, None)
            ctx.count("big_index_cases")
        if USED.get("mtype"):
            m.version = b"039"
            ctx.count("files_with_method_type_values")
        data, w = W.write_dex(m, want_writer=True)
        hexd = data.hex() if len(data) < 3000 else None
        ctx.ev()
        ctx.count("DEX_parsed")
        try:
            dx = dex.DEX(data)
            cm = dx.get_class_manager()
            cls = dx.get_class("Lp/V;")
        except Exception as e:
            ctx.violation("parse-raises", "DEX() raises on a well-formed file with encoded values", {"exc": exc_str(e), "dex": hexd})
            continue
        byname = {(f.get_name(), f.get_descriptor()): f for f in cls.get_fields()}
        for f, ev in fields:
            ctx.count("static_values_compared")
            rf = byname.get((f.name, f.type))
            iv = rf.get_init_value() if rf is not None else None
            if iv is None:
                ctx.violation("static-value-missing", "a static field with an encoded initial value reports none", {"field": f.name, "type": f.type, "dex": hexd})
                continue
            try:
                got = real_repr(cm, iv, ev)
            except Exception as e:
                ctx.violation("static-value-raises", "reading an initial value raises", {"field": f.name, "exc": exc_str(e), "dex": hexd})
                continue
            exp = expected_repr(ev)
            if got != exp:
                ctx.violation(mech_for(ev, "static"), "static-field initial value differs from the encoded value", {"field": f.name, "type": f.type, "vtype": VT_NAME[ev.vtype], "width": ev.width, "want": exp, "got": got, "dex": hexd})
            ctx.sig("static", ev.vtype, ev.width, (ev.value < 0) if isinstance(ev.value, int) and not isinstance(ev.value, bool) else None)
        # annotations (of the class with members and of the member-less class)
        for ann_cls, ann_model, ann_tag in ((cls, anns, ""), (dx.get_class("Lp/Marker;"), anns_marker, "-memberless-class")):
          ctx.count("annotated_classes_checked" + ann_tag)
          try:
            real_anns = ann_cls._get_annotation_type_ids()
          except Exception as e:
            ctx.violation("annotations-raise" + ann_tag, "reading class annotations raises", {"exc": exc_str(e), "dex": hexd})
            real_anns = None
          if real_anns is not None:
              exp_by_type = {a.type: a for a in ann_model}
              if sorted(cm.get_type(r.get_type_idx()) for r in real_anns) != sorted(exp_by_type):
                  ctx.violation("annotation-set-differs" + ann_tag, "class annotation list differs", {"got": [cm.get_type(r.get_type_idx()) for r in real_anns], "want": sorted(exp_by_type), "dex": hexd})
              else:
                  for r in real_anns:
                      a = exp_by_type[cm.get_type(r.get_type_idx())]
                      ev = W.EV(W.V_ANNOTATION, a)

                      class _Wrap:
                          def get_value(self_inner):
                              return r

                          def get_value_type(self_inner):
                              return W.V_ANNOTATION
                      ctx.count("annotations_compared")
                      try:
                          got = real_repr(cm, _Wrap(), ev)
                      except Exception as e:
                          ctx.violation("annotation-value-raises", "reading annotation element values raises", {"exc": exc_str(e), "dex": hexd})
                          continue
                      exp = expected_repr(ev)
                      if got != exp:
                          fb = first_bad(exp, got, ev)
                          bad_ev = fb[0] if fb else ev
                          ctx.violation(mech_for(bad_ev, "annotation"), "annotation element value differs from the encoded value",
                                        {"annotation": a.type, "vtype": VT_NAME.get(bad_ev.vtype), "width": bad_ev.width, "want": fb[1] if fb else exp, "got": fb[2] if fb else got, "dex": hexd})
                      for n, e in a.elements:
                          ctx.sig("ann", e.vtype, e.width, len(a.elements))
        # decompiler initialiser
        try:
            an = Analysis(dx)
            dx.set_decompiler(DecompilerDAD(dx, an))
            an.create_xref()
            src = cls.get_source()
        except Exception as e:
            ctx.violation("decompile-raises", "decompiling a class with static initial values raises", {"exc": exc_str(e), "dex": hexd})
            continue
        ctx.count("classes_decompiled")
        if bare is not None and re.search(r"\bdouble g0 =", src):
            ctx.violation("initialiser-on-a-field-without-initial-value", "a field without initial value is printed with the initialiser of a same-named field", {"source": src[:1500]})
        JT = {"B": "byte", "S": "short", "I": "int", "J": "long", "C": "char", "Z": "boolean", "Ljava/lang/String;": "String", "Ljava/lang/Class;": "Class", "Ljava/lang/Object;": "Object"}
        for f, ev in fields:
            decl = r"\b%s %s" % (JT[f.type], re.escape(f.name))
            if ev.vtype in (W.V_STRING, W.V_TYPE):
                # a String constant is printed as a Java string literal denoting it; a Class constant is NOT a string literal
                mm = re.search(decl + r" = (.*);$", src, re.M)
                ctx.count("initialisers_compared")
                if not mm:
                    ctx.violation("initialiser-missing", "the decompiled class has no initialiser for a field with an initial value", {"field": f.name, "type": f.type, "source": src[:1500]})
                    continue
                text = mm.group(1).strip()
                if ev.vtype == W.V_TYPE:
                    if text.startswith('"') or ev.value.lstrip("[")[1:-1].split("/")[-1] not in text:
                        ctx.violation("initialiser-type-constant-printed-as-something-else", "a Class constant is printed as a string literal / without its type", {"field": f.name, "value": ev.value, "printed": text[:200]})
                else:
                    from vf.model import javaoracle as J
                    try:
                        ok = J.jls_decode_string_literal(text) == J.utf16_units(ev.value)
                    except J.JLSError:
                        ok = False
                    if not ok:
                        ctx.violation("initialiser-string-constant", "a String constant is not printed as a Java string literal denoting it", {"field": f.name, "value": J.utf16_units(ev.value)[:40], "printed": text[:200]})
                continue
            if ev.vtype not in (W.V_BYTE, W.V_SHORT, W.V_INT, W.V_LONG, W.V_CHAR, W.V_BOOLEAN):
                continue
            mm = re.search(decl + r" = ([^;\n]*);", src)
            ctx.count("initialisers_compared")
            if not mm:
                ctx.violation("initialiser-missing", "the decompiled class has no initialiser for a field with an initial value", {"field": f.name, "type": f.type, "source": src[:1500]})
                continue
            text = mm.group(1).strip()
            try:
                if ev.vtype == W.V_BOOLEAN:
                    val = {"true": True, "false": False}[text.lower()]
                else:
                    val = int(text.rstrip("Ll"), 0)
            except Exception:
                ctx.violation("initialiser-unparsable-%s" % VT_NAME[ev.vtype], "the printed initialiser is not a number/boolean", {"field": f.name, "type": f.type, "text": text})
                continue
            if val != ev.value:
                sfx = "negative" if isinstance(ev.value, int) and ev.value < 0 else "value"
                ctx.violation("initialiser-%s-%s" % (VT_NAME[ev.vtype], sfx), "the decompiler prints another value than the encoded one", {"field": f.name, "type": f.type, "want": ev.value, "printed": text, "width": ev.width})
        if idx == 0 and k < 3:
            ctx.sample({"fields": [(f.name, f.type, VT_NAME[ev.vtype], repr(ev.value), ev.width) for f, ev in fields[:8]], "source_head": src[:400]})


def run(ctx):
    ctx.rule = ("classes with static fields of every integral/char/boolean/String/Class/null value type using EVERY legal value_arg width (minimal and wider) with values at the sign "
                "boundaries, and class annotations whose elements cover byte..boolean, string/type/field/method/enum references, nested arrays and annotations; observed through "
                "EncodedField.get_init_value().get_value(), EncodedAnnotation elements, and the initialiser text of DvClass.get_source() (int(text,0) / boolean). "
                "distinct non-trivial = distinct (place, value type, width, sign)")
    ctx.assumptions = ["float/double are not in the statement (androguard marks them TODO): not checked", "the printed initialiser is compared for integral, char and boolean fields only"]
    n = 240 if ctx.quick else 64000
    ctx.run_shards(MOD, "shard", [[i, n // 16 + 1] for i in range(16)], timeout=3000)
    ctx.require_counter("static_values_compared", 500)
    ctx.require_counter("annotations_compared", 20)
    ctx.require_counter("initialisers_compared", 200)
    ctx.min_distinct = 20
