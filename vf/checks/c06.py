"""C06 DEX strings decode to exactly the UTF-16 text their MUTF-8 bytes encode."""
from vf.harness import exc_str
from vf.model import dexw as W

MOD = "vf.checks.c06"
HOLDER = "holder_of_the_const_strings"  # the only method with code; (III)V so that it cannot coincide with a generated ()V method


def u16(s):
    return W.utf16_units(s)


def rand_string(rng):
    k = rng.choice([0, 1, 1, 2, 3, 5, 8, 20])
    pools = [
        lambda: chr(rng.randrange(0x20, 0x7F)),
        lambda: "\x00",
        lambda: chr(rng.randrange(1, 0x20)),
        lambda: chr(rng.choice([0x7F, 0x80, 0x7FF, 0x800, 0xFFFF, 0xFFFE, 0xFEFF, 0xD7FF, 0xE000])),
        lambda: chr(rng.randrange(0x80, 0x800)),
        lambda: chr(rng.randrange(0x800, 0xD800)),
        lambda: chr(rng.randrange(0xD800, 0xDC00)),  # lone high
        lambda: chr(rng.randrange(0xDC00, 0xE000)),  # lone low
        lambda: chr(rng.randrange(0xDC00, 0xE000)) + chr(rng.randrange(0xD800, 0xDC00)),  # reversed pair
        lambda: chr(rng.randrange(0x10000, 0x110000)),
        lambda: chr(rng.choice([0x10000, 0x10FFFF, 0x1F600])),
    ]
    w = [rng.random() ** 2 for _ in pools]
    return "".join(rng.choices(pools, weights=w)[0]() for _ in range(k))


def string_of_mutf8_len(rng, n):
    """a string whose MUTF-8 encoding has exactly n bytes (the reader scans in chunks)"""
    s = ""
    left = n
    while left:
        c = rng.choice([1, 1, 2, 3]) if left >= 3 else (rng.choice([1, 2]) if left == 2 else 1)
        if c == 1:
            s += chr(rng.randrange(0x21, 0x7F))
        elif c == 2:
            s += rng.choice(["\x00", chr(rng.randrange(0x80, 0x800))])
        else:
            s += chr(rng.choice([rng.randrange(0x800, 0xD800), rng.randrange(0xD800, 0xE000), rng.randrange(0xE000, 0x10000)]))
        left -= c
    assert len(W.mutf8(s)[0]) == n
    return s


def kind_of(s):
    ks = set()
    units = u16(s)
    for i, u in enumerate(units):
        if u == 0:
            ks.add("nul")
        elif u < 0x80:
            ks.add("ascii")
        elif u < 0x800:
            ks.add("2byte")
        elif 0xD800 <= u < 0xDC00:
            if i + 1 < len(units) and 0xDC00 <= units[i + 1] < 0xE000:
                ks.add("pair")
            else:
                ks.add("lone-high")
        elif 0xDC00 <= u < 0xE000:
            if not (i > 0 and 0xD800 <= units[i - 1] < 0xDC00):
                ks.add("lone-low")
        else:
            ks.add("3byte")
    return tuple(sorted(ks))


def shard(ctx, arg):
    idx, count = arg
    from androguard.core import dex
    rng = ctx.rng("c06", idx)
    if idx % 2:
        # the process has used the rename API on ANOTHER, unrelated DEX object before (half of the shards): the strings of the files parsed
        # afterwards are still their own
        import os
        from vf.harness import REPO
        try:
            with open(os.path.join(REPO, "tests", "data", "APK", "FieldsTest.dex"), "rb") as f:
                other = dex.DEX(f.read())
            for c in other.get_classes():
                cd = c.get_class_data()
                for j, em in enumerate((cd.get_direct_methods() + cd.get_virtual_methods() + cd.get_static_fields() + cd.get_instance_fields()) if cd else []):
                    em.set_name("renamed_in_another_file_%d" % j)
                    ctx.count("renames_done_in_an_unrelated_dex_object_before")
            shard._other = other
        except Exception as e:
            ctx.count("rename_prologue_raises_" + type(e).__name__)
    for k in range(count):
        strs = set()
        n = rng.choice([1, 3, 10, 40])
        while len(strs) < n:
            r = rng.random()
            if r < 0.15:
                strs.add(string_of_mutf8_len(rng, rng.choice([126, 127, 128, 129, 130, 254, 255, 256, 257, 258, 383, 384, 385])))
            else:
                strs.add(rand_string(rng))
        strs = sorted(strs, key=u16)
        m = W.DexModel()
        c = m.add_class("Lp/S;")
        # strings as const-string operands, names of a method, a field and a class
        insns = []
        for i, s in enumerate(strs[:20]):
            insns.append(("const-string" if i % 2 == 0 else "const-string/jumbo", 0, W.Str(s)))
        insns.append(("return-void",))
        c.add_method(HOLDER, "V", ("I", "I", "I"), W.ACC_STATIC | W.ACC_PUBLIC, W.Code(4, 3, 0, insns))
        named = [s for s in strs if s][:3]
        for i, s in enumerate(named):
            c.add_field(s, "I", W.ACC_STATIC)
            c.add_method(s, "V", (), W.ACC_STATIC | W.ACC_NATIVE)
        for s in strs[20:]:
            m.extra_refs.append(W.Str(s))
        opts = {}
        r_ = rng.random()
        if r_ < 0.25:
            opts["string_data_order"] = "reversed"       # string_ids hold offsets: the data items may lie in any order
        elif r_ < 0.5:
            opts["string_data_order"] = __import__("random").Random(rng.getrandbits(32))
        if rng.random() < 0.25:
            prng = __import__("random").Random(rng.getrandbits(32))
            opts["string_size_pad"] = lambda: prng.choice([0, 0, 1, 2])     # valid non-minimal uleb128 utf16_size
        if "" not in strs and rng.random() < 0.5:
            m.extra_refs.append(W.Str(""))
        last_at_eof = rng.random() < 0.3
        data, w = W.write_dex(m, opts, want_writer=True)
        ctx.ev()
        ctx.count("DEX_parsed")
        hexd = data.hex() if len(data) < 2500 else None
        try:
            dx = dex.DEX(data)
            got = dx.get_strings()
        except Exception as e:
            ctx.violation("parse-raises", "DEX() raises on a well-formed file with unusual strings", {"exc": exc_str(e), "strings_units": [u16(s)[:20] for s in strs[:5]], "dex": hexd})
            continue
        want = w.string_list
        if sorted(u16(x) for x in got) != sorted(u16(x) for x in want):
            bad = [s for s in want if u16(s) not in [u16(g) for g in got]]
            ks = kind_of(bad[0]) if bad else ("extra",)
            ctx.violation("pool-multiset-" + "+".join(ks), "get_strings() differs from the encoded strings (as UTF-16 code units)",
                          {"missing_units": [u16(s)[:30] for s in bad[:3]], "dex": hexd})
        if k % 3 == 0 and isinstance(got, list):
            # what a caller does with the list it was handed (sort it, drop or add an element) is its own business: the next answer is the pool again
            first = sorted(u16(x) for x in got)
            try:
                got.sort(key=u16)
                if got:
                    got.pop()
                got.append("added by the caller")
            except Exception:
                pass
            ctx.count("pool_asked_again_after_the_caller_changed_its_list")
            try:
                again = dx.get_strings()
                if sorted(u16(x) for x in again) != first or (hasattr(dx, "get_len_strings") and dx.get_len_strings() != len(first)):
                    ctx.violation("pool-changes-when-a-returned-list-is-modified", "get_strings()/get_len_strings() report the caller's modified list instead of the pool",
                                  {"pool_size": len(first), "reported_size": len(again), "dex": hexd})
            except Exception as e:
                ctx.violation("pool-second-query-raises", "a second get_strings() raises", {"exc": exc_str(e), "dex": hexd})
        cm = dx.get_class_manager()
        for i, s in enumerate(want):
            ctx.count("strings_compared")
            g = cm.get_string(i)
            if u16(g) != u16(s):
                n = len(W.mutf8(s)[0])
                mech = "index-" + "+".join(kind_of(s)) + ("-chunk-boundary" if n in (127, 128, 129, 255, 256, 257) else "")
                ctx.violation(mech, "string decodes to different UTF-16 code units", {"index": i, "want_units": u16(s)[:40], "got_units": u16(g)[:40], "mutf8": W.mutf8(s)[0][:60], "dex": hexd})
            ctx.sig(kind_of(s), min(len(u16(s)), 3), len(W.mutf8(s)[0]) // 64)
        # derived names and constants
        cls = dx.get_class("Lp/S;")
        if cls is None:
            ctx.violation("class-missing", "class not found", {"dex": hexd})
            continue
        fn = sorted(u16(f.get_name()) for f in cls.get_fields())
        if fn != sorted(u16(s) for s in named):
            ctx.violation("field-name", "field names differ from the strings they reference", {"got": fn, "want": sorted(u16(s) for s in named), "dex": hexd})
        mn = sorted(u16(x.get_name()) for x in cls.get_methods() if x.get_code() is None)
        if mn != sorted(u16(s) for s in named):
            ctx.violation("method-name", "method names differ from the strings they reference", {"got": mn, "want": sorted(u16(s) for s in named), "dex": hexd})
        for meth in cls.get_methods():
            if meth.get_code():
                consts = [ins for ins in meth.get_instructions() if ins.get_op_value() in (0x1A, 0x1B)]
                for ins, s in zip(consts, strs[:20]):
                    ctx.count("const_strings_compared")
                    if u16(ins.get_raw_string()) != u16(s) or u16(ins.get_string()) != u16(s):
                        ctx.violation("const-string-operand", "const-string operand differs from the string it loads",
                                      {"want_units": u16(s)[:40], "got_units": u16(ins.get_raw_string())[:40], "dex": hexd})
        if idx == 0 and k < 3:
            ctx.sample({"strings_utf16_units": [u16(s)[:12] for s in strs[:4]], "mutf8": [W.mutf8(s)[0][:24].hex() for s in strs[:4]]})


def run(ctx):
    ctx.rule = ("string pools over the full code-point range (U+0000, 1/2/3-byte boundaries, lone high/low surrogates, reversed pairs, non-BMP, MUTF-8 byte lengths around the "
                "128/256/384 chunk sizes) written with an own MUTF-8 encoder; get_strings(), ClassManager.get_string(i) by index, field/method names and const-string(/jumbo) "
                "operands compared as UTF-16 code units. distinct non-trivial = distinct (character-kind set, length class, byte-length/64)")
    ctx.assumptions = ["comparison in UTF-16 code units (surrogatepass): the decoder may legitimately join a surrogate pair into one str character",
                       "MUTF-8 decoding itself is the third-party mutf8 extension; a defect there would be reported against androguard's use of it"]
    n = 300 if ctx.quick else 160000
    per = n // 16 + 1
    ctx.run_shards(MOD, "shard", [[i, per] for i in range(16)], timeout=3000)
    ctx.require_counter("strings_compared", 1000)
    ctx.require_counter("const_strings_compared", 100)
    ctx.min_distinct = 10
