"""C21 Decompiled integer code computes what the bytecode computes.

(The first half of this module is the shared "bytecode -> DAD -> javac -> one JVM" pipeline, also used by C25 and C22.)

Domain decisions (each can be challenged):
 * Methods are `public static` in classes of package `p` without constructor (a package-less class is printed as `class LFoo`, which javac
   rejects for a reason that belongs to C24, not here).
 * Only int and long values; byte/short/char appear as results of int-to-byte/short/char (held in int registers, as dx emits them). Method
   return types are int or long.  No invokes, fields, arrays, floats, exceptions handlers.
 * Bytecode is what dx would emit for structured Java: every register is written before it is read on every path, wide values live in
   aligned-by-construction pairs that are never half-overwritten while live, cmp-long results feed only an if-testz, loops are bounded by a
   counter (so "same value" is decidable), switch payloads follow the code.  Temporaries are reused for values of different types, as dx
   does (feature `reuse:int-long`), unless a method is generated with separate temp banks.
 * "accepted by a Java compiler": javac 17 without -Werror; warnings are ignored.  A method whose class text cannot be compiled because of a
   diagnostic *inside that method* fails; other methods of the same file are re-compiled without it (so one defect does not mask the rest).
 * "same arithmetic exception": class name of the Throwable (java.lang.ArithmeticException).
 * Tuples are sampled (boundary-directed), not exhaustive.  Cases where the independent interpreter reaches its step cap are discarded and counted.
"""
import collections
import os
import re

from vf.harness import exc_str
from vf.model import dexw as W
from vf.model import interp as I
from vf.model import javaoracle as J

MOD = "vf.checks.c21"

# =====================================================================================================
# shared pipeline
# =====================================================================================================
DRIVER = r"""
import java.io.*;
import java.lang.reflect.*;
import java.util.*;

public class VfDriver {
    static volatile int cur = -1;
    static volatile long curStart = 0;
    static volatile int gen = 0;
    static String[] results;
    static List<String[]> methods = new ArrayList<>();
    static Map<String, long[][]> sets = new HashMap<>();

    static String runMethod(int i) {
        String[] m = methods.get(i);
        StringBuilder sb = new StringBuilder();
        try {
            Class<?> c = Class.forName(m[0]);
            String types = m[2];
            Class<?>[] pt = new Class<?>[types.length()];
            for (int k = 0; k < pt.length; k++) pt[k] = types.charAt(k) == 'J' ? long.class : int.class;
            Method me = c.getMethod(m[1], pt);
            long[][] tuples = sets.get(m[3]);
            Object[] args = new Object[pt.length];
            for (int t = 0; t < tuples.length; t++) {
                for (int k = 0; k < pt.length; k++) {
                    if (types.charAt(k) == 'J') args[k] = Long.valueOf(tuples[t][k]); else args[k] = Integer.valueOf((int) tuples[t][k]);
                }
                if (t > 0) sb.append(';');
                try {
                    Object r = me.invoke(null, args);
                    sb.append(String.valueOf(r));
                } catch (InvocationTargetException e) {
                    sb.append('!').append(e.getCause().getClass().getName());
                }
            }
        } catch (Throwable e) {
            return "#" + e.getClass().getName() + ":" + String.valueOf(e.getMessage()).replace('\n', ' ');
        }
        return sb.toString();
    }

    static volatile long curCpuStart = 0;
    static final java.lang.management.ThreadMXBean TB = java.lang.management.ManagementFactory.getThreadMXBean();

    static void work(int start, int myGen) {
        for (int i = start; i < methods.size(); i++) {
            if (gen != myGen) return;
            curStart = System.currentTimeMillis();
            curCpuStart = TB.getCurrentThreadCpuTime();
            cur = i;
            String r = runMethod(i);
            if (gen != myGen) return;
            results[i] = r;
        }
    }

    public static void main(String[] a) throws Exception {
        BufferedReader br = new BufferedReader(new FileReader(a[0]));
        long deadlineMs = Long.parseLong(a[1]);
        String line;
        while ((line = br.readLine()) != null) {
            String[] f = line.split(" ");
            if (f[0].equals("T")) {
                int n = Integer.parseInt(f[2]);
                long[][] t = new long[n][];
                for (int i = 0; i < n; i++) {
                    String l = br.readLine().trim();
                    String[] g = l.isEmpty() ? new String[0] : l.split(" ");
                    t[i] = new long[g.length];
                    for (int k = 0; k < g.length; k++) t[i][k] = Long.parseLong(g[k]);
                }
                sets.put(f[1], t);
            } else if (f[0].equals("M")) {
                methods.add(new String[] {f[1], f[2], f[3].equals("-") ? "" : f[3], f[4]});
            }
        }
        results = new String[methods.size()];
        int next = 0;
        while (next < methods.size()) {
            final int start = next;
            final int myGen = ++gen;
            curStart = System.currentTimeMillis();
            curCpuStart = 0;
            cur = start;
            Thread t = new Thread(() -> work(start, myGen));
            t.setDaemon(true);
            t.start();
            boolean stuck = false;
            while (t.isAlive()) {
                t.join(25);
                if (!t.isAlive()) break;
                // a call is stuck when it has burnt deadlineMs of CPU time (robust against a loaded machine), or 30x that in wall time
                long cpu = TB.getThreadCpuTime(t.getId());
                if (cpu >= 0 && (cpu - curCpuStart) / 1000000L > deadlineMs) { stuck = true; break; }
                if (System.currentTimeMillis() - curStart > 30 * deadlineMs) { stuck = true; break; }
            }
            if (stuck) {
                int s = cur;
                gen++;               // the abandoned worker stops as soon as its call returns (if ever)
                results[s] = "?timeout";
                next = s + 1;
            } else {
                next = methods.size();
            }
        }
        PrintStream out = new PrintStream(new FileOutputStream(a[2]), false, "UTF-8");
        for (int i = 0; i < results.length; i++) out.println("R " + i + " " + results[i]);
        out.flush();
        out.close();
        Runtime.getRuntime().halt(0);
    }
}
"""


class Case:
    """one generated method going through the pipeline"""
    __slots__ = ("cls", "name", "ret", "params", "registers", "ins", "units", "tuples", "meta",
                 "src", "decomp_error", "diags", "jvm", "expected", "in_class_source")

    def __init__(self, cls, name, ret, params, registers, ins, units, tuples, meta=None):
        self.cls, self.name, self.ret, self.params = cls, name, ret, list(params)
        self.registers, self.ins, self.units, self.tuples, self.meta = registers, ins, list(units), tuples, meta
        self.src = None            # text of the method as printed inside the class source
        self.decomp_error = None   # exception text if DAD raised for this method
        self.diags = []            # javac diagnostics located inside this method
        self.jvm = None            # list of per-tuple result strings, or "?timeout" / "#..." string, or None if never run
        self.expected = None       # list of interpreter results
        self.in_class_source = False

    @property
    def key(self):
        return "%s.%s" % (self.cls, self.name)


METHOD_HEAD = re.compile(r"^    public static (?:int|long|void|byte|short|char|boolean) (m\d+)\(", re.M)


def split_class_source(src):
    """-> (header, [(method name, text)], footer). The class text is kept byte for byte; methods are cut at their blank separator line."""
    hits = list(METHOD_HEAD.finditer(src))
    if not hits:
        return src, [], ""
    starts = []
    for h in hits:
        s = h.start()
        # DAD writes "\n    public static ..." : include the preceding empty line
        if s > 0 and src[s - 1] == "\n" and s > 1 and src[s - 2] == "\n":
            s -= 1
        starts.append(s)
    end = src.rstrip().rfind("}")
    parts = []
    for i, h in enumerate(hits):
        e = starts[i + 1] if i + 1 < len(hits) else end
        parts.append((h.group(1), src[starts[i]:e]))
    return src[:starts[0]], parts, src[end:]


def build_dex(cases):
    m = W.DexModel()
    by_cls = collections.OrderedDict()
    for c in cases:
        by_cls.setdefault(c.cls, []).append(c)
    for cls, cs in by_cls.items():
        cd = m.add_class("L%s;" % cls)
        for c in cs:
            cd.add_method(c.name, c.ret, c.params, W.ACC_PUBLIC | W.ACC_STATIC, W.Code(c.registers, c.ins, 0, c.units))
    return W.write_dex(m)


def load_dad(data):
    from androguard.core.analysis.analysis import Analysis
    from androguard.core.dex import DEX
    from androguard.decompiler.decompiler import DecompilerDAD
    d = DEX(data)
    dx = Analysis(d)
    d.set_decompiler(DecompilerDAD(d, dx))
    dx.create_xref()
    return d, dx


def decompile_cases(ctx, cases, data=None):
    """runs the real decompiler on every class; fills case.src / case.decomp_error; -> {cls: (header, footer)}"""
    if data is None:
        data = build_dex(cases)
    d, dx = load_dad(data)
    by_key = {c.key: c for c in cases}
    frames = {}
    for cls in d.get_classes():
        cname = cls.get_name()[1:-1]
        try:
            src = cls.get_source()
        except Exception as e:  # DvClass.process swallows per-method errors, so this is unusual
            ctx.count("class_get_source_raised")
            for c in cases:
                if c.cls == cname:
                    c.decomp_error = "class: " + exc_str(e)
            continue
        ctx.count("classes_decompiled")
        header, parts, footer = split_class_source(src)
        frames[cname] = (header, footer)
        for mname, text in parts:
            c = by_key.get("%s.%s" % (cname, mname))
            if c is not None:
                c.src = text
                c.in_class_source = True
                ctx.count("methods_decompiled")
    missing = [c for c in cases if c.src is None and c.decomp_error is None]
    if missing:
        enc = {}
        for em in d.get_encoded_methods():
            enc["%s.%s" % (em.get_class_name()[1:-1], em.get_name())] = em
        for c in missing:
            em = enc.get(c.key)
            try:
                text = em.get_source()
                c.decomp_error = "method missing from the class source although method.get_source() returned %d chars" % len(text or "")
            except Exception as e:
                c.decomp_error = exc_str(e)
    return frames


DIAG = re.compile(r"^(?P<file>[^\s:]+\.java):(?P<line>\d+): error: (?P<msg>.*)$")


def diag_class(msg):
    """stable classifier of a javac message: identifiers and numbers removed"""
    m = msg.strip()
    m = re.sub(r"\b[vpm]\d+(_\d+)?\b", "", m)
    m = re.sub(r"\bC\d+\b", "", m)
    m = re.sub(r"\(.*?\)", "", m)
    m = re.sub(r"\d+", "", m)
    m = re.sub(r"[^A-Za-z]+", "-", m).strip("-").lower()
    m = re.sub(r"^variable-(?=might|is-already)", "variable-", m)
    return "javac-" + m[:70]


def javac_rounds(ctx, jr, cases, frames, max_rounds=6):
    """write one file per class, compile; methods that contain a diagnostic are cut out and the rest is compiled again.
    -> set of case keys that are inside successfully compiled classes"""
    by_cls = collections.OrderedDict()
    for c in cases:
        if c.src is not None and c.cls in frames:
            by_cls.setdefault(c.cls, []).append(c)
    alive = {cls: list(cs) for cls, cs in by_cls.items()}
    jr.write("VfDriver.java", DRIVER)
    for rnd in range(max_rounds):
        files = ["VfDriver.java"]   # in every round: javac writes no class file at all when any file has an error
        linemap = {}
        for cls, cs in alive.items():
            if not cs:
                continue
            header, footer = frames[cls]
            text = header
            spans = []
            for c in cs:
                a = text.count("\n") + 1
                text += c.src
                spans.append((a, text.count("\n") + 1, c))
            text += footer
            rel = cls + ".java"
            jr.write(rel, text)
            files.append(rel)
            linemap[rel] = spans
        if not files or files == ["VfDriver.java"]:
            if files:
                jr.javac(files)
            return set()
        # -XDshould-stop.ifError=FLOW: report attribution *and* flow errors (definite assignment, missing return) in one pass
        rc, diag = jr.javac(files, timeout=900, extra=["-XDshould-stop.ifError=FLOW", "-Xlint:none"])
        ctx.count("javac_invocations")
        if rc == 0:
            return {c.key for cs in alive.values() for c in cs}
        hit = False
        unlocated = []
        lines = diag.split("\n")
        for i, ln in enumerate(lines):
            mt = DIAG.match(ln)
            if not mt:
                continue
            rel, lno, msg = mt.group("file"), int(mt.group("line")), mt.group("msg")
            spans = linemap.get(rel)
            owner = None
            for a, b, c in spans or ():
                if a <= lno <= b:
                    owner = c
                    break
            if owner is None:
                unlocated.append(ln)
                continue
            ctxlines = [x for x in lines[i + 1:i + 3] if not DIAG.match(x)]
            owner.diags.append((msg, "\n".join(ctxlines)))
            hit = True
        if not hit:
            # diagnostics that cannot be pinned on a method: drop whole files named in them, else give up
            bad = {DIAG.match(x).group("file") for x in unlocated} if unlocated else set()
            if not bad:
                ctx.inconclusive("javac failed without a locatable diagnostic: " + diag[:400])
                return set()
            for rel in bad:
                cls = rel[:-5]
                for c in alive.get(cls, []):
                    c.diags.append(("(class-level) " + unlocated[0], ""))
                alive[cls] = []
            continue
        for cls in alive:
            alive[cls] = [c for c in alive[cls] if not c.diags]
    ctx.inconclusive("javac still reports diagnostics after %d elimination rounds" % max_rounds)
    return set()


def run_jvm(ctx, jr, cases, compiled, deadline_ms=4000, timeout=900):
    """one JVM: every compiled method on its tuple set. fills case.jvm"""
    todo = [c for c in cases if c.key in compiled]
    if not todo:
        return
    sets = {}
    lines = []
    for c in todo:
        k = id(c.tuples)
        if k not in sets:
            sets[k] = ("S%d" % len(sets), c.tuples)
    for sid, tuples in sets.values():
        lines.append("T %s %d" % (sid, len(tuples)))
        for t in tuples:
            lines.append(" ".join(str(x) for x in t))
    for c in todo:
        lines.append("M %s %s %s %s" % (c.cls.replace("/", "."), c.name, "".join(c.params) or "-", sets[id(c.tuples)][0]))
    spec = jr.write("spec.txt", "\n".join(lines) + "\n")
    outp = os.path.join(jr.dir, "results.txt")
    rc, out, err = jr.java("VfDriver", [spec, str(deadline_ms), outp], timeout=timeout)
    ctx.count("jvm_runs")
    if rc != 0 or not os.path.exists(outp):
        ctx.inconclusive("JVM driver failed rc=%s: %s" % (rc, (err or out)[-400:]))
        return
    with open(outp, encoding="utf-8") as f:
        res = f.read().split("\n")
    got = {}
    for ln in res:
        if ln.startswith("R "):
            _, i, r = ln.split(" ", 2)
            got[int(i)] = r
    for i, c in enumerate(todo):
        r = got.get(i)
        if r is None or r == "null":
            ctx.inconclusive("JVM driver printed no result for %s" % c.key)
            continue
        if r.startswith("?") or r.startswith("#"):
            c.jvm = r
        else:
            c.jvm = r.split(";") if c.tuples else []
        ctx.count("jvm_methods_run")


def interp_expected(ctx, cases, step_cap=20000):
    """expected results from the independent interpreter; a case hitting the cap gets expected=None (discarded, counted)"""
    for c in cases:
        prog = I.Program(c.units, c.registers, c.ins, "".join(c.params))
        exp = []
        for t in c.tuples:
            r = prog.run(list(t), step_cap)
            if r[0] == "cap":
                exp = None
                ctx.count("discarded_interpreter_step_cap")
                break
            if r[0] == "error":
                exp = None
                ctx.inconclusive("interpreter left its subset (generator/harness bug): %s in %s" % (r[1], I.listing(c.units)[:12]))
                break
            exp.append(str(r[1]) if r[0] == "ret" else "!java.lang." + r[1])
            ctx.count("interp_runs")
        c.expected = exp
        ctx.maxi("interp_max_steps", prog.max_steps)


def pipeline(ctx, cases, deadline_ms=700, refs=None):
    """bytecode -> DEX -> DAD -> javac (elimination rounds) -> one JVM; interpreter expectations. Mutates the cases.
    refs: optional list of reference cases (own Java rendering of the generator AST, package q) compiled and run in the same javac/JVM
    invocations to cross-check the interpreter; they carry .src and a (header, footer) frame in .meta["frame"]."""
    import time
    if not J.available():
        ctx.inconclusive("javac/java not found")
        return
    t0 = time.time()
    interp_expected(ctx, cases)
    t1 = time.time()
    frames = decompile_cases(ctx, cases)
    t2 = time.time()
    allc = list(cases)
    if refs:
        for r in refs:
            frames[r.cls] = r.meta["frame"]
        allc += refs
    jr = J.JavaRun()
    try:
        compiled = javac_rounds(ctx, jr, allc, frames)
        t3 = time.time()
        run_jvm(ctx, jr, allc, compiled, deadline_ms)
        # a call the driver gave up on is decided by a SECOND run of that method alone with a 4x budget (CPU time of the call, generous wall
        # clock): "does not terminate" is only reported when it is stuck again; if it returns now, the first give-up was the machine, not the code
        stuck = [c for c in allc if isinstance(c.jvm, str) and c.jvm.startswith("?")]
        if stuck:
            ctx.count("jvm_calls_given_up_first_time", len(stuck))
            for c in stuck:
                c.jvm = None
            run_jvm(ctx, jr, stuck, compiled, deadline_ms * 4)
            ctx.count("jvm_calls_stuck_again_with_4x_budget", len([c for c in stuck if isinstance(c.jvm, str) and c.jvm.startswith("?")]))
        t4 = time.time()
    finally:
        jr.close()
    for k, v in (("interp", t1 - t0), ("decompile", t2 - t1), ("javac", t3 - t2), ("jvm", t4 - t3)):
        ctx.counters["wall_s_" + k] = round(ctx.counters.get("wall_s_" + k, 0) + v, 1)


def witness_of(c, extra=None):
    w = {"method": c.key, "descriptor": "(%s)%s" % ("".join(c.params), c.ret), "registers": c.registers, "ins": c.ins,
         "bytecode": I.listing(c.units), "units_hex": " ".join("%04x" % u for u in c.units), "decompiled": c.src}
    if extra:
        w.update(extra)
    return w


def first_mismatch(c):
    """-> None or (tuple, expected, actual)"""
    if c.expected is None or not isinstance(c.jvm, list):
        return None
    for t, e, g in zip(c.tuples, c.expected, c.jvm):
        if e != g:
            return (list(t), e, g)
    return None


# =====================================================================================================
# C21 proper
# =====================================================================================================
from vf.gen import intprog as G  # noqa: E402

PER_CLASS = 60


def to_cases(methods, tag, rng, tcache):
    """wrap compiled generator methods into pipeline cases (class p/<tag><n>, PER_CLASS methods each); method names are made unique"""
    cases = []
    for i, m in enumerate(methods):
        types = [t for _, t in m.params]
        k = "".join(types)
        if k not in tcache:
            tcache[k] = G.tuples_for(types, rng)
        m.name = "m%d" % i
        c = Case("p/%s%d" % (tag, i // PER_CLASS), m.name, m.ret, types, m.registers, m.ins, m.units, tcache[k], meta=m)
        cases.append(c)
    return cases


def symptom_of(ctx, c):
    """-> None (passes / not decidable) or (symptom, detail dict)"""
    if c.expected is None:
        return None
    if c.decomp_error is not None:
        return ("decompile-raises-" + re.sub(r"[^A-Za-z]", "", c.decomp_error.split(":")[0])[:40], {"error": c.decomp_error})
    if c.src is not None and not c.in_class_source:
        return None
    if c.diags:
        return (diag_class(c.diags[0][0]), {"diagnostics": [d[0] + " | " + d[1] for d in c.diags[:4]]})
    if c.jvm is None:
        return None
    if isinstance(c.jvm, str):
        if c.jvm.startswith("?"):
            return ("jvm-does-not-terminate", {"note": "the compiled decompiler output did not return within the per-call deadline; the interpreter needed %s steps at most" % "few"})
        ctx.inconclusive("JVM could not call %s: %s" % (c.key, c.jvm[:200]))
        return None
    mm = first_mismatch(c)
    if mm is None:
        return None
    t, e, a = mm
    if e.startswith("!") and not a.startswith("!"):
        s = "exception-lost"
    elif a.startswith("!") and not e.startswith("!"):
        s = "exception-spurious"
    else:
        s = "wrong-value"
    nbad = sum(1 for x, y in zip(c.expected, c.jvm) if x != y)
    return (s, {"args": t, "expected": e, "actual": a, "mismatching_tuples": "%d of %d" % (nbad, len(c.tuples))})


def subject_mechanism(m, symptom, src, failing_subjects=()):
    """mechanism name for a single-subject method (P0/P1): derived from the subject feature and the symptom, never from values"""
    kind, base = m.subject.split(":", 1)
    src = src or ""
    shape = ""
    if "@" in base:
        base, shape = base.split("@")
    if kind == "op" and base.startswith("ushr") and symptom == "wrong-value" and ">>>" not in src:
        return base + "-printed-as-shr"
    if kind == "const" and symptom == "javac-integer-number-too-large":
        return base + "-literal-without-L"
    if kind == "dead" and symptom == "exception-lost":
        return "div-by-zero-exception-lost-unused-result"     # one root cause (dead-store removal of a throwing instruction) for all div/rem forms
    if kind == "dead":
        return "unused-result-%s-%s" % (base, symptom)
    if kind == "op" and shape and ("op:" + base) not in failing_subjects:
        # only the constant-operand shape fails, the register-register shape of the same instruction is fine
        if shape == "cp" and "-long" in base and base.split("-")[0] in ("shl", "shr", "ushr") and symptom == "wrong-value":
            return base + "-long-constant-lhs-printed-as-int-literal"
        if shape == "cc" and "-long" in base and symptom == "wrong-value":
            return base + "-long-constant-operands-printed-as-int-literals"
        if shape in ("acc1", "acc2", "join2"):
            return "%s-%s-%s" % (base, {"acc1": "loop-accumulator-as-first-operand", "acc2": "loop-accumulator-as-second-operand",
                                        "join2": "redefined-before-join-as-second-operand"}[shape], symptom)
        return "%s-const-%s-%s" % (base, {"cp": "lhs", "pc": "rhs", "cc": "both"}[shape], symptom)
    if kind == "nest3" and re.fullmatch(r"do-while/(while-top|while-bottom|do-while)/.*", base):
        return "loop-nested-in-do-while-misstructured"   # the two-level defect (nest:do-while/<loop>) with one more statement inside
    if kind == "latch" and re.fullmatch(r"exit-goto:do-while/(while-top|while-bottom|do-while)", base):
        return "loop-nested-in-do-while-misstructured"   # the same failure as with the other latch shape (nest:do-while/<loop>)
    if kind in G.STRUCT_KINDS:
        return structural_mechanism(m.subject)
    return "%s-%s" % (base, symptom)


# Root-cause groups established by hand triage of the single-subject pools (first match wins). A structural subject that fails and is
# not listed here gets "<kind>-<subject>" as its own mechanism, so a new defect never hides under an old name.
STRUCT_GROUPS = [
    (r"nest:do-while/(while-top|while-bottom|do-while)", "loop-nested-in-do-while-misstructured"),
    (r"ret-in:(packed|sparse)-switch/if(-else)?", "switch-case-with-if-return-loses-break"),
    (r"switch:(packed|sparse):(empty-cases-empty-default|two-empty-cases(-no-default)?|multi-label-empty-case(-no-default)?)@(top|nested)", "switch-empty-cases-printed-twice-duplicate-case-label"),
    (r"switch:(packed|sparse):fallthrough(-into-return)?@nested", "switch-fallthrough-wrong-follow-when-nested"),
    (r"switch:(packed|sparse):if-return-falls-into-next-case@(top|nested)", "switch-case-label-lost-after-if-return-fallthrough"),
    (r"switch:(packed|sparse):empty-if-case-falls-through@(top|nested)", "switch-case-label-lost-after-if-return-fallthrough"),
    (r"switch:(packed|sparse):if-return-then-break@(top|nested)", "switch-case-with-if-return-loses-break"),
    (r"empty-if:throwing-condition", "div-by-zero-exception-lost-empty-if-condition-commented-out"),
    (r"decl:compound-if-else-assigns-in-both-branches", "declaration-lost-when-hoisted-to-merged-short-circuit-condition"),
    (r"decl:dead-stmt-uses-local", "declaration-left-in-one-branch-after-dead-use-removed"),
    (r"decl:def-in-do-while-body", "declaration-inside-do-while-body-but-used-after-loop"),
    (r"throw:div-or-rem", "div-by-zero-exception-lost-division-moved-into-branch"),
    (r"type:int-to-(byte|char|short):mixed-defs", "int-variable-declared-with-narrow-cast-type"),
    (r"type:int-to-(byte|char|short):unary-of-narrow", "neg-or-not-of-narrow-cast-typed-as-narrow"),
]


def structural_mechanism(subject):
    """structural defects show different symptoms in different contexts (wrong value, javac error, endless loop): the name carries none"""
    for rx, name in STRUCT_GROUPS:
        if re.fullmatch(rx, subject):
            return name
    kind, base = subject.split(":", 1)
    return "%s-%s" % (kind, re.sub(r"[^A-Za-z0-9]+", "-", base).strip("-"))


def judge(ctx, cases, label):
    """-> list of (case, symptom, detail) for failing cases; counts evaluations and signatures"""
    bad = []
    for c in cases:
        m = c.meta
        if c.expected is None:
            continue
        ctx.ev()
        ctx.count("methods_" + label)
        if c.src and len(c.tuples) >= 8:
            ctx.sig(tuple(sorted(m.features)), m.shape_sig())
        if isinstance(c.jvm, list):
            ctx.count("jvm_calls_compared", len(c.jvm))
            if any(x.startswith("!") for x in c.expected):
                ctx.count("methods_with_expected_exception")
        s = symptom_of(ctx, c)
        if s is not None:
            bad.append((c, s[0], s[1]))
            ctx.count("failing_" + label)
    return bad


def report(ctx, c, mech, what, detail, extra=None):
    m = c.meta
    w = witness_of(c, {"pool": m.pool, "subject": m.subject, "shape": m.shape, "features": sorted(m.features), "generator_ast_as_java": G.to_java(m)})
    w.update(detail)
    if extra:
        w.update(extra)
    ctx.violation(mech, what, w)


WHAT = {"wrong-value": "the compiled decompiler output returns a different value than the bytecode",
        "exception-lost": "the bytecode throws ArithmeticException, the compiled decompiler output returns a value",
        "exception-spurious": "the compiled decompiler output throws where the bytecode returns a value",
        "jvm-does-not-terminate": "the compiled decompiler output does not terminate where the bytecode does"}


def what_of(symptom):
    if symptom.startswith("javac-"):
        return "javac rejects the decompiler output (%s)" % symptom[6:]
    if symptom.startswith("decompile-raises"):
        return "the decompiler raises / prints no code for the method"
    return WHAT.get(symptom, symptom)


def phase_single(ctx, arg):
    """P0 + P1: single-subject methods. Returns through ctx.extra['bad_features'] = {feature: {symptom: mechanism}}"""
    rng = ctx.rng("c21-single", arg.get("salt", 0))
    part = arg.get("part", "all")
    methods = []
    if part in ("all", "ops"):
        methods += G.p0_methods(rng) + G.p1_methods(rng)
    if part in ("all", "PC", "PS", "PD"):
        methods += [m for m in G.pattern_methods(rng) if part == "all" or m.pool == part or (part == "PS" and m.pool == "PD")]
    tc = {}
    cases = to_cases(methods, "S", rng, tc)
    refs = make_refs(cases)
    pipeline(ctx, cases, refs=refs)
    crosscheck_interp(ctx, refs)
    bad = judge(ctx, cases, "single")
    table = {}
    failing_subjects = {c.meta.subject for c, _, _ in bad}
    for c, symptom, detail in bad:
        m = c.meta
        mech = subject_mechanism(m, symptom, c.src, failing_subjects)
        report(ctx, c, mech, what_of(symptom), detail)
        table.setdefault(m.subject, {})["*" if m.subject.split(":")[0] in G.STRUCT_KINDS else symptom] = mech
    covered = sorted({m.subject for m in methods})
    ctx.extra["bad_features"] = table
    ctx.extra["single_subjects_covered"] = len(covered)
    for c in cases:
        if c.src and c.meta.pool == "P0" and len(ctx.samples) < 2:
            ctx.sample({"pool": "P0", "subject": c.meta.subject, "bytecode": I.listing(c.units), "decompiled": c.src, "tuples": len(c.tuples)})
    return table


def make_refs(cases):
    """reference cases: the generator's AST printed as Java (NOT the decompiler), same tuples"""
    refs = []
    for c in cases:
        cls = "q/X%s" % c.cls.split("/")[1]
        k = Case(cls, c.name, c.ret, c.params, c.registers, c.ins, c.units, c.tuples,
                 meta={"frame": ("package q;\npublic class %s {\n" % cls.split("/")[1], "}\n"), "of": c})
        k.src = "\n" + G.to_java(c.meta)
        refs.append(k)
    return refs


def crosscheck_interp(ctx, refs):
    """harness self-check: interpreter == JVM on the generator's own Java rendering of every method"""
    for k in refs:
        c = k.meta["of"]
        if c.expected is None:
            continue
        if k.diags:
            ctx.inconclusive("harness: the generator's own Java rendering is rejected by javac: %s\n%s" % (k.diags[0][0], k.src))
            continue
        if not isinstance(k.jvm, list):
            if k.jvm is not None:
                ctx.inconclusive("harness: reference Java of %s did not run: %s" % (k.key, k.jvm))
            continue
        ctx.count("crosscheck_methods")
        ctx.counters["jvm_methods_run"] = ctx.counters.get("jvm_methods_run", 1) - 1
        k.expected = c.expected
        mm = first_mismatch(k)
        if mm is not None:
            ctx.inconclusive("harness: interpreter and JVM disagree on the generator's own AST: %s args=%s interp=%s jvm=%s\n%s" % (
                I.listing(k.units)[:30], mm[0], mm[1], mm[2], k.src))


def symptom_explained(sym, entry):
    """entry: {symptom: mechanism} of a single-subject feature. A wrong value can surface downstream as a lost/spurious exception."""
    if sym in entry:
        return True
    return "wrong-value" in entry and sym in ("exception-lost", "exception-spurious")


def phase_multi(ctx, arg):
    """one shard of a multi-feature pool with explain-away re-runs. arg: pool, n, salt, bad (table from the single phase), crosscheck"""
    pool, n, table = arg["pool"], arg["n"], arg["bad"]
    rng = ctx.rng("c21", pool, arg.get("salt", 0))
    methods = G.random_methods(rng, pool, n)
    tc = {}
    cases = to_cases(methods, pool, rng, tc)
    refs = make_refs(cases) if arg.get("crosscheck") else None
    pipeline(ctx, cases, refs=refs)
    if refs:
        crosscheck_interp(ctx, refs)
    bad = judge(ctx, cases, pool)
    for c in cases:
        if c.src and isinstance(c.jvm, list) and len(ctx.samples) < 1 and len(c.units) < 60:
            ctx.sample({"pool": pool, "features": sorted(c.meta.features), "bytecode": I.listing(c.units), "decompiled": c.src, "tuples": len(c.tuples)})
    # explain-away: neutralise the known-bad features whose single-feature symptom matches, re-run, repeat
    pending = [{"orig": c, "cur": c, "symptom": s, "detail": d, "attr": []} for c, s, d in bad]
    for rnd in range(4 if ctx.quick else 7):
        if not pending:
            break
        nxt = []
        for p in pending:
            m = p["cur"].meta
            sym = p["symptom"]
            # tier 1: instruction-level features whose single-subject symptom is the one observed; tier 2: structural features
            t1 = {f for f in m.features if f in table and symptom_explained(sym, table[f])}
            t2 = {f for f in m.features if f in table and "*" in table[f] and (f != "throw:div-or-rem" or sym == "exception-lost")}
            m2 = done = None
            for tier, cands in ((1, t1), (2, t2)):
                if not cands:
                    continue
                try:
                    m2, done = G.neutralise(m, cands, avoid=set(table)) if tier == 1 else G.neutralise_struct(m, cands)
                except (G.TooBig, AssertionError):
                    m2 = None
                if m2 is not None and done:
                    for f in sorted(done):
                        if f in table:
                            p["attr"].append((f, sym, table[f].get(sym) or table[f].get("*") or table[f].get("wrong-value") or sorted(table[f].values())[0]))
                    break
                m2 = None
            if m2 is None:
                finish_unattributed(ctx, p, pool)
                continue
            p["m2"] = m2
            nxt.append(p)
        if not nxt:
            pending = []
            break
        ms = [p["m2"] for p in nxt]
        ncases = to_cases(ms, "%sN%d_" % (pool, rnd), rng, tc)
        pipeline(ctx, ncases)
        ctx.count("explain_away_reruns", len(ncases))
        pending = []
        for p, nc in zip(nxt, ncases):
            p["cur"] = nc
            if nc.expected is None:
                ctx.count("explain_away_discarded_step_cap")
                continue
            s = symptom_of(ctx, nc)
            if s is None:
                if nc.jvm is None and not nc.diags and nc.decomp_error is None:
                    continue  # pipeline trouble already recorded as inconclusive
                seen = set()
                for f, sym, mech in p["attr"]:
                    if mech in seen:
                        continue
                    seen.add(mech)
                    ctx.count("attributed_by_explain_away")
                    report(ctx, p["orig"], mech, what_of(sym), p["detail"] if sym == p["symptom"] else {},
                           {"attribution": "explain-away: with %s replaced by benign equivalents the method passes" % sorted({a[0] for a in p["attr"]}),
                            "neutralised_decompiled": nc.src})
            else:
                p["symptom"], p["detail"] = s
                pending.append(p)
    for p in pending:
        finish_unattributed(ctx, p, pool)



def finish_unattributed(ctx, p, pool):
    c = p["cur"]
    ctx.count("unattributed")
    extra = {}
    if p["attr"]:
        extra = {"note": "residual failure after neutralising %s; the original method is given below" % sorted({a[0] for a in p["attr"]}),
                 "original_decompiled": p["orig"].src, "original_bytecode": I.listing(p["orig"].units)}
    subj = c.meta.subject or ""
    feats = set(p["orig"].meta.features) | set(c.meta.features)
    if p["symptom"] == "exception-lost" and c.src and re.search(r"// Both branches of the condition point to the same code\.\s*\n\s*// if \(.*[/%]", c.src):
        # the printed source itself shows the mechanism: a condition containing a division was turned into a comment
        ctx.count("attributed_by_source_evidence")
        report(ctx, c, "div-by-zero-exception-lost-empty-if-condition-commented-out", what_of(p["symptom"]), p["detail"],
               dict(extra, attribution="the decompiled source contains a commented-out condition with a division"))
        return
    if p["symptom"].startswith("javac") and c.src and re.search(r"[()|&^+*/%<>=!~?:,-]\s*(?:int|long|short|byte|char|boolean) v\d+\w*\s*[)|&^+*/%<>=;,-]", c.src):
        # the printed source itself shows the mechanism: a variable whose definition was removed (its constant / cast was propagated to the other
        # uses) is still used once and gets its declaration printed in the middle of an expression: "(x | int v1)"
        ctx.count("attributed_by_source_evidence")
        report(ctx, c, "variable-declaration-printed-inside-expression-after-definition-was-propagated-away", what_of(p["symptom"]), p["detail"],
               dict(extra, attribution="the decompiled source contains '<type> vN' in operand position"))
        return
    diags = (p["detail"] or {}).get("diagnostics") or []
    if p["symptom"].startswith("javac-incompatible-types") and diags and re.search(r"lossy conversion from \w+ to \w+ \|\s*(?:char|byte|short|int|long) v\d+\w* = ", str(diags[0])):
        # the diagnostic itself shows the mechanism: a DECLARATION whose declared type cannot hold its own initialiser - the register is reused
        # for values of another type and the variable took the type of one of the other definitions
        ctx.count("attributed_by_source_evidence")
        report(ctx, c, "declared-type-of-reused-register-taken-from-another-definition", what_of(p["symptom"]), p["detail"],
               dict(extra, attribution="javac rejects a declaration line '<type> vN = <expr of a wider type>'"))
        return
    nested = any(f.startswith("nest:") and "/" in f for f in feats) or sum(1 for f in feats if f.startswith("seq:")) >= 1
    if any(f.endswith("-switch") or f == "ctl:do-while" for f in feats) or (pool == "P5" and nested):
        # The decompiler has several structural defects around switches and do-while loops (the switch-* / loop-nested-in-do-while /
        # declaration-inside-do-while mechanisms found by the single-subject pools). In a random multi-construct method their interactions
        # cannot be separated by neutralising one feature, so such a residue is recorded under ONE composite mechanism, which is a known
        # finding; the single-subject pools PS/PC (every switch shape, every two-level nesting) remain the precise judges for these constructs.
        ctx.count("residue_in_methods_with_switch_do_while_or_nesting")
        report(ctx, c, "unisolated-failure-in-method-with-switch-or-do-while", what_of(p["symptom"]) + " (random method containing a switch, a do-while or (pool P5) nested/sequenced control constructs; constructs: %s)" % subj, p["detail"], extra)
        return
    report(ctx, c, "unattributed-%s-%s" % (pool, p["symptom"]), what_of(p["symptom"]) + " (no single-feature mechanism explains it; constructs: %s)" % subj, p["detail"], extra)


QUICK_POOLS = {"P0m": 40, "P2": 40, "P3": 40, "P4": 40, "P5": 40}
THOROUGH_POOLS = {"P0m": 1500, "P2": 1500, "P3": 2000, "P4": 2000, "P5": 3000}
SHARD_METHODS = 250


def run(ctx):
    ctx.rule = ("generated well-typed static int/long methods -> DEX -> DAD class source -> javac -> one JVM per batch, every method on boundary "
                "and seeded random argument tuples (all values for 1 parameter, all pairs for 2, >=120 tuples for 3), compared per call with the "
                "independent Dalvik interpreter (value or exception class). Single-subject pools: P0 one operator/constant/move form x operand shape "
                "(register, constant lhs/rhs/both, in-place, unused result), P1 one if/else per comparison, PC every two-level nesting and sequence "
                "of if/if-else/while/do-while/switch, PS switch shapes, PD definition/declaration/variable-type patterns. Random pools: P0m "
                "multi-operator straight line, P2 &&/||, P3 loops, P4 switches, P5 nested mixes; a failing random method is attributed to a "
                "single-subject mechanism only if it has that feature, the symptom fits, and it passes once the feature is replaced by a benign "
                "equivalent (explain-away re-run), else it is reported as unattributed-<pool>-<symptom>. "
                "distinct non-trivial = distinct (feature set, AST shape) of methods that were decompiled and ran >= 8 tuples")
    ctx.assumptions = ["vf.model.interp implements the Dalvik int/long semantics (cross-checked against the JVM on the generator's own Java rendering"
                       " of every method: always for the single-subject pools, for all pools in the thorough tier)",
                       "javac 17 / JVM 17 give the meaning of the printed Java",
                       "explain-away attribution can hide a defect that needs a known-bad feature to show (stated limit)"]
    if not J.available():
        ctx.inconclusive("javac/java not found")
        return
    salts = [0] if ctx.quick else [0, 1, 2, 3]
    res = ctx.run_shards(MOD, "phase_single_shard", [{"salt": s, "part": p} for s in salts for p in ("ops", "PC", "PS")], timeout=900)
    table = {}
    for r in res:
        if r is None:
            continue
        for subj, d in r.get("extra", {}).get("bad_features", {}).items():
            table.setdefault(subj, {}).update(d)
    ctx.extra["bad_features"] = table
    pools = QUICK_POOLS if ctx.quick else THOROUGH_POOLS
    scale = float(os.environ.get("VERIF_C21_SCALE", "1"))   # development aid: shrink/grow the random pools
    if scale != 1:
        pools = {k: max(10, int(v * scale)) for k, v in pools.items()}
    args = []
    for pool, n in pools.items():
        k = 0
        while n > 0:
            take = min(n, SHARD_METHODS)
            args.append({"pool": pool, "n": take, "salt": k, "bad": table, "crosscheck": not ctx.quick})
            n -= take
            k += 1
    ctx.run_shards(MOD, "phase_multi", args, timeout=1800)
    ctx.require_counter("methods_single", 900)
    for pool in pools:
        ctx.require_counter("methods_" + pool, 10)
    ctx.require_counter("methods_decompiled", 100)
    ctx.require_counter("jvm_calls_compared", 10000)
    ctx.require_counter("crosscheck_methods", 400)
    ctx.require_counter("methods_with_expected_exception", 5)
    ctx.min_distinct = 200


def phase_single_shard(ctx, arg):
    phase_single(ctx, arg)
