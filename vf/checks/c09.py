"""C09 corrupted or non-DEX input is rejected at the header, before any structure is parsed."""
import struct

from vf.gen import classes as G
from vf.harness import exc_str
from vf.model import dexw as W

MOD = "vf.checks.c09"


def make_files(ctx):
    rng = ctx.rng("c09-files")
    files = []
    tries = 0
    while len(files) < 5 and tries < 400:
        tries += 1
        m = G.gen_model(rng, nclasses=rng.choice([1, 1, 2]), max_members=2)
        d = W.write_dex(m)
        if 200 <= len(d) <= 760 and not W.self_check(d):
            files.append(d)
    return files


class Monitor:
    """counts structure parsing: MapList construction and MapItem.parse calls"""

    def __init__(self, dex):
        self.dex = dex
        self.maplist = 0
        self.mapitem = 0
        self.o1 = dex.MapList.__init__
        self.o2 = dex.MapItem.parse
        mon = self

        def ml(s, *a, **k):
            mon.maplist += 1
            return mon.o1(s, *a, **k)

        def mp(s, *a, **k):
            mon.mapitem += 1
            return mon.o2(s, *a, **k)
        dex.MapList.__init__ = ml
        dex.MapItem.parse = mp

    def reset(self):
        self.maplist = self.mapitem = 0

    def close(self):
        self.dex.MapList.__init__ = self.o1
        self.dex.MapItem.parse = self.o2


def attempt(ctx, dex, mon, data, mech, what, wit):
    mon.reset()
    ctx.ev()
    ctx.count("DEX_constructions")
    try:
        dex.DEX(data)
    except Exception as e:
        ctx.count("rejected_" + type(e).__name__)
        if mon.maplist or mon.mapitem:
            ctx.violation(mech + "-parsed-before-rejection", what + " (structures were parsed before the error)", dict(wit, exc=exc_str(e), maplist=mon.maplist, mapitem_parse=mon.mapitem))
        return
    ctx.violation(mech + "-accepted", what, wit)


def shard(ctx, arg):
    fi, lo, hi = arg
    from androguard.core import dex
    data = make_files(ctx)[fi]
    rng = ctx.rng("c09", fi, lo)
    mon = Monitor(dex)
    try:
        # sanity: the unmodified file parses and the monitor sees it
        mon.reset()
        dex.DEX(data)
        if not mon.maplist or not mon.mapitem:
            ctx.inconclusive("monitor did not see MapList/MapItem.parse on a valid file")
        ctx.count("valid_file_mapitem_parse_calls", mon.mapitem)
        for off in range(max(lo, 12), min(hi, len(data))):
            orig = data[off]
            if ctx.quick:
                vals = {orig ^ 0x01, orig ^ 0x80, (orig + 1 + rng.randrange(254)) & 0xFF} - {orig}
            else:
                vals = set(range(256)) - {orig}
            for v in vals:
                b = bytearray(data)
                b[off] = v
                region = "magic/checksum" if off < 12 else "signature" if off < 32 else "header" if off < 0x70 else "ids" if off < struct.unpack_from("<I", data, 108)[0] else "data"
                attempt(ctx, dex, mon, bytes(b), "single-byte-change-%s" % region, "a single-byte change after the checksum field is not rejected", {"file": fi, "offset": off, "value": v, "dex": data.hex()})
            ctx.sig(fi, off)
        ctx.count("offsets_covered", max(0, min(hi, len(data)) - max(lo, 12)))
        # the same sweep on the tolerated spellings of the magic (the magic is not covered by the checksum): 'dey' (ODEX) and other version
        # digits are accepted by design - the checksum must protect those files just the same
        for label, magic in (("dey", b"dey\n036\0"), ("version-digits", b"dex\n099\0"), ("dey-version-digits", b"dey\n013\0")):
            var = magic + data[8:]
            mon.reset()
            try:
                dex.DEX(var)
            except Exception:
                ctx.count("tolerated_magic_variant_not_accepted_" + label)
                continue
            ctx.count("tolerated_magic_variants_swept")
            for off in range(max(lo, 12), min(hi, len(var))):
                orig = var[off]
                for v in ({orig ^ 0x01, orig ^ 0x80, (orig + 1 + rng.randrange(254)) & 0xFF} - {orig}) if ctx.quick else (set(rng.sample(range(256), 24)) | {orig ^ 1, orig ^ 0x80}) - {orig}:
                    b = bytearray(var)
                    b[off] = v
                    attempt(ctx, dex, mon, bytes(b), "single-byte-change-with-%s-magic" % label, "a single-byte change after the checksum field is not rejected (file with a tolerated magic spelling)",
                            {"file": fi, "offset": off, "value": v, "magic": magic.hex(), "dex": data.hex()})
                ctx.sig(fi, label, off)
    finally:
        mon.close()


def shard_header(ctx, arg):
    from androguard.core import dex
    files = make_files(ctx)
    rng = ctx.rng("c09h")
    mon = Monitor(dex)
    try:
        for fi, data in enumerate(files):
            def fixed(b):
                return W.fix_checksum(bytes(b))
            # magic bytes 0..3 and 7 (version digits 4..6 are tolerated by design: warning + "trying to parse anyways")
            for pos in (0, 1, 2, 3, 7):
                vals = set(rng.randrange(256) for _ in range(12)) | {0, 0xFF, data[pos] ^ 0x20, data[pos] ^ 1}
                for v in vals:
                    if v == data[pos] or (pos == 2 and v in (0x78, 0x79)):
                        continue
                    b = bytearray(data)
                    b[pos] = v
                    attempt(ctx, dex, mon, fixed(b), "wrong-magic-byte%d" % pos, "a buffer with a wrong magic is not rejected", {"file": fi, "pos": pos, "value": v})
                    ctx.sig("magic", pos, v & 0xF0)
            # structured wrong tags: every byte permutation of the constant, every 4-byte window of two constants written one after the other (in
            # both byte orders), every single-bit and single-byte change of the constant; then random ones
            import itertools
            le, be = struct.pack("<I", 0x12345678), struct.pack(">I", 0x12345678)
            near = {struct.unpack("<I", bytes(p))[0] for p in itertools.permutations(le)}
            for two in (le + be, be + le, le + le, be + be):
                near |= {struct.unpack("<I", two[k:k + 4])[0] for k in range(5)}
            near |= {0x12345678 ^ (1 << k) for k in range(32)}
            near |= {(0x12345678 & ~(0xFF << (8 * k))) | (v << (8 * k)) for k in range(4) for v in (0, 0xFF, 0x12, 0x34, 0x56, 0x78)}
            for tag in [0x78563412, 0, 0xFFFFFFFF, 0x12345679, 0x12345600, 0x02345678] + sorted(near) + [rng.getrandbits(32) for _ in range(10)]:
                if tag == 0x12345678:
                    continue
                b = bytearray(data)
                struct.pack_into("<I", b, 40, tag)
                attempt(ctx, dex, mon, fixed(b), "wrong-endian-tag", "a buffer with a wrong endian tag is not rejected", {"file": fi, "tag": "%08x" % tag})
                ctx.sig("endian", tag & 0xFF)
            for hs in list(range(0, 0x201)) + [0x7000, 0xFFFFFFFF, 0x70000000, len(data), len(data) - 4] + [rng.getrandbits(32) for _ in range(10)]:
                if hs == 0x70:
                    continue
                b = bytearray(data)
                struct.pack_into("<I", b, 36, hs)
                attempt(ctx, dex, mon, fixed(b), "wrong-header-size", "a buffer with a wrong header size is not rejected", {"file": fi, "header_size": hs})
                ctx.sig("hsize", hs & 0xFF)
            # wrong checksum only
            for delta in (1, 0x10000, 0x80000000, rng.getrandbits(32) | 1):
                b = bytearray(data)
                cs = (struct.unpack_from("<I", b, 8)[0] ^ delta) & 0xFFFFFFFF
                struct.pack_into("<I", b, 8, cs)
                attempt(ctx, dex, mon, bytes(b), "wrong-checksum", "a buffer with a wrong Adler-32 checksum is not rejected", {"file": fi, "delta": delta})
            # too small / not a dex at all
            for junk in (b"", b"dex\n035\0", data[:0x6F], b"PK\x03\x04" + data[4:], bytes(len(data))):
                attempt(ctx, dex, mon, junk, "non-dex-buffer", "a non-DEX buffer is not rejected", {"len": len(junk), "head": junk[:16].hex()})
        ctx.sample({"file_sizes": [len(f) for f in files], "first_file": files[0].hex()})
    finally:
        mon.close()


def run(ctx):
    files = make_files(ctx)
    if len(files) < 5:
        ctx.inconclusive("could not generate 5 small DEX files")
        return
    ctx.rule = ("5 generated DEX files of 200-760 bytes: every offset >= 12 x (3 other byte values in quick / all 255 in thorough); with the checksum re-fixed: wrong magic bytes "
                "0-3 and 7, wrong endian tags (incl. the byte-swapped constant), wrong header sizes (every value 0..0x200 except 0x70, huge and random ones); wrong checksum alone; non-DEX buffers. Monitor: MapList.__init__ and "
                "the single-byte sweep repeated on the same files with the tolerated magic spellings 'dey\\n036', 'dex\\n099', 'dey\\n013'. MapItem.parse call counters must be 0 whenever DEX() raises. distinct non-trivial = distinct (file, offset) / (field, value class)")
    ctx.assumptions = ["the three version digits of the magic and magic[2]=='y' (ODEX) are tolerated by design and not generated as 'wrong'"]
    args = []
    for fi, d in enumerate(files):
        step = (len(d) + 2) // 3
        for lo in range(0, len(d), step):
            args.append([fi, lo, lo + step])
    ctx.run_shards(MOD, "shard", args, timeout=3000)
    ctx.run_shards(MOD, "shard_header", [0], timeout=3000)
    ctx.exhaustive = True
    ctx.extra["exhaustive_part"] = "every offset >= 12 of the 5 files" + ("" if ctx.quick else " x all 255 other values")
    ctx.extra["file_sizes"] = [len(f) for f in files]
    ctx.require_counter("DEX_constructions", 5000)
    ctx.require_counter("valid_file_mapitem_parse_calls", 5)
