"""C32 A v1 certificate is reported only if it verifies the signature file.

Workload: v1-signed APKs built from a model (vf/model/apkw.py zip, vf/model/cmsw.py PKCS#7): RSA-2048 / EC P-256 / DSA-2048 x SHA-1 / SHA-256
x {no signed attributes, contentType+messageDigest, +signingTime}, generic and hash-specific signatureAlgorithm OIDs, 1-2 SignerInfos,
0-2 unrelated certificates before/after the signer's in the bag, manifests declaring minSdk 9 / 29 / no manifest (androguard tries only
the first SignerInfo below 24), one or two signature blocks per APK. Then: every single-byte corruption of the .SF and of the signature
value (thorough: every byte x 3 values; quick: sampled), and structured alterations of the signed attributes, of the certificate
reference, of the certificate bag, of the digest algorithm and of the signature.

Monitor: APK.get_certificate_der is wrapped by a postcondition. Whatever the caller (direct call, get_certificate, get_certificates_v1),
when it returns a certificate the archive actually given to APK() is re-read with zipfile and cmsw.verify_v1 (own DER reader +
`cryptography`) must find a SignerInfo whose signature verifies with that certificate's key over the .SF in the archive (over the DER
SET OF signed attributes, whose messageDigest must equal the digest of the .SF, when signedAttrs is present), and that SignerInfo must
reference the certificate (issuer + serial, names compared as RFC 5280 compares them). None / an exception = "no certificate reported".
Unaltered inputs must yield exactly the signer's certificate DER.

Domain decisions (each can be challenged):
 * contentType is NOT demanded by the oracle (the property names only the digest); androguard being stricter there is fine.
 * a certificate-reference alteration changes the serial number or a letter of the issuer's common name (not its case / string type,
   which X.500 matching ignores), or points to another certificate.
 * an exception escaping get_certificate_der counts as "nothing reported" and is only counted (counter raised_<type>).
 * signedAttrs "present" means the [0] field is encoded, also when the SET is empty (RFC 5652 5.4: the signature input is then the
   attributes' encoding; apksig's V1SchemeVerifier, which the code cites, rejects such a SignerInfo for lack of contentType/digest).
   This probe has its own mechanism name (empty-signed-attrs-added-...) so that it can be judged separately.
 * with two SignerInfos the certificate expected for the unaltered input is the first SignerInfo's (both minSdk regimes agree on it).
 * private keys come from the OS random generator (`cryptography` cannot be seeded) and DSA/ECDSA signatures are randomised; everything
   else (SF content, configurations, corruption positions and values) comes from ctx.rng. Witnesses carry the PKCS#7 and .SF bytes.
"""
import base64
import hashlib
import io
import zipfile

from vf.harness import exc_str
from vf.model import apkw
from vf.model import cmsw as C

MOD = "vf.checks.c32"
EXT = {"rsa": "RSA", "ec": "EC", "dsa": "DSA", "ed25519": "EC", "ed448": "RSA"}
# key types the library can load but the v1 scheme (and androguard) does not sign with: whatever is answered for an unaltered block, a certificate may
# only be reported if its key verifies - an altered block yields none
OTHER_KEY_TYPES = ("ed25519", "ed448")


# ------------------------------------------------------------------ monitor
class Monitor:
    def __init__(self, ctx, apkmod):
        self.ctx = ctx
        self.failures = []
        self.last = None
        orig = apkmod.APK.get_certificate_der
        mon = self

        def wrapped(self_, filename, *a, **kw):
            ctx.count("get_certificate_der_calls")
            try:
                res = orig(self_, filename, *a, **kw)
            except Exception as e:
                ctx.count("raised_" + type(e).__name__)
                mon.last = ("raised", exc_str(e))
                raise
            if res is None:
                ctx.count("reported_none")
                mon.last = ("none",)
                return res
            ctx.count("reported_certificate")
            # independent re-read of the archive the object was built from
            try:
                try:
                    with zipfile.ZipFile(io.BytesIO(bytes(self_.get_raw()))) as z:
                        p7 = z.read(filename)
                        sf = z.read(filename.rsplit(".", 1)[0] + ".SF")
                except (zipfile.BadZipFile, NotImplementedError):
                    # only for shipped archives python's zipfile refuses (deliberately odd zips of the apksig corpus): the entries are then
                    # taken from androguard's reader (file access is C34's subject, not this property's)
                    ctx.count("oracle_entries_read_through_androguard")
                    p7 = bytes(self_.get_file(filename))
                    sf = bytes(self_.get_file(filename.rsplit(".", 1)[0] + ".SF"))
                ctx.count("independent_verifications")
                r = C.verify_v1(p7, sf, bytes(res))
            except C.DerError as e:
                r = {"ok": False, "sid_ok": False, "reasons": ["PKCS#7 is not DER SignedData: %s" % e]}
            mon.last = ("cert", bytes(res), r)
            if not (r["ok"] and r["sid_ok"]):
                mon.failures.append((filename, bytes(res), r))
            return res

        apkmod.APK.get_certificate_der = wrapped

    def drain(self):
        f, self.failures = self.failures, []
        return f


# ------------------------------------------------------------------ workload
def gen_sf(rng, digest, n_entries):
    hn = {"sha1": "SHA1", "sha256": "SHA-256"}[digest]
    size = hashlib.new(digest).digest_size
    lines = ["Signature-Version: 1.0", "Created-By: 1.0 (verif %d)" % rng.randint(0, 999), "%s-Digest-Manifest: %s" % (hn, base64.b64encode(rng.randbytes(size)).decode()), ""]
    for i in range(n_entries):
        lines += ["Name: res/%s%d.bin" % (rng.choice("abcxyz"), i), "%s-Digest: %s" % (hn, base64.b64encode(rng.randbytes(size)).decode()), ""]
    return ("\r\n".join(lines) + "\r\n").encode()


def make_configs(quick):
    cfgs = []
    k = 0
    attr_modes = [0, 1] if quick else [0, 1, 2]
    reps = 1 if quick else 2
    for rep in range(reps):
        for alg in ("rsa", "ec", "dsa"):
            for digest in ("sha1", "sha256"):
                for attrs in attr_modes:
                    cfgs.append({"alg": alg, "digest": digest, "attrs": attrs if not (quick and attrs and k % 4 == 1) else 2, "style": ["generic", "specific"][(k + rep) % 2],
                                 "manifest": ["sdk9", "sdk29", "sdk9", None][(k + rep) % 4], "extras": [0, 1, 2][(k + rep) % 3], "extras_first": bool((k // 2 + rep) % 2),
                                 "second": None, "two_blocks": False, "stem": ["META-INF/CERT", "META-INF/ANDROGUA", "META-INF/A.B"][k % 3], "sf_method": k % 2})
                    k += 1
    multi = [("rsa", "after", "sdk29"), ("ec", "before", "sdk9"), ("dsa", "before", "sdk29"), ("ec", "after", "sdk9")]
    if not quick:
        multi += [("rsa", "before", "sdk29"), ("dsa", "after", "sdk9"), ("ec", "before", "sdk29"), ("rsa", "before", "sdk9"), ("dsa", "after", "sdk29"), ("ec", "after", "sdk29")]
    for i, (alg, second, man) in enumerate(multi):
        cfgs.append({"alg": alg, "digest": ["sha256", "sha1"][i % 2], "attrs": [1, 0, 2][i % 3], "style": "generic", "manifest": man, "extras": i % 2, "extras_first": False,
                     "second": second, "two_blocks": False, "stem": "META-INF/CERT", "sf_method": 0})
    for i, alg in enumerate(OTHER_KEY_TYPES):
        for attrs in (0, 1):
            cfgs.append({"alg": alg, "digest": ["sha256", "sha1"][i % 2], "attrs": attrs, "style": "generic", "manifest": ["sdk9", "sdk29"][attrs], "extras": i % 2, "extras_first": False,
                         "second": None, "two_blocks": False, "stem": "META-INF/CERT", "sf_method": 0})
    two = [("rsa", 1), ("ec", 0)] if not quick else [("rsa", 1)]
    for alg, attrs in two:
        cfgs.append({"alg": alg, "digest": "sha256", "attrs": attrs, "style": "generic", "manifest": "sdk9", "extras": 0, "extras_first": False, "second": None, "two_blocks": True,
                     "stem": "META-INF/CERT", "sf_method": 1})
    return cfgs


class Case:
    """one signed APK model: entries + the signature block under test"""

    def __init__(self, cfg, rng, keys, certs):
        self.cfg = cfg
        alg = cfg["alg"]
        self.alg = alg
        self.sf = gen_sf(rng, cfg["digest"], rng.randint(1, 3))
        self.signame = "%s.%s" % (cfg["stem"], EXT[alg])
        self.sfname = cfg["stem"] + ".SF"
        main = {"key": keys[alg], "cert_der": certs[alg], "digest": cfg["digest"], "with_attrs": cfg["attrs"] > 0, "signing_time": cfg["attrs"] == 2, "sig_style": cfg["style"]}
        signers = [main]
        self.main_idx = 0
        if cfg["second"]:
            other = {"key": keys["ec2"], "cert_der": certs["ec2"], "digest": "sha256", "with_attrs": True, "signing_time": False, "sig_style": "generic"}
            signers = [other, main] if cfg["second"] == "before" else [main, other]
            self.main_idx = 1 if cfg["second"] == "before" else 0
        extras = [certs["extra1"], certs["extra2"]][:cfg["extras"]]
        self.model = C.build_signed_data(self.sf, signers, extras, cfg["extras_first"])
        # SignerInfos and the certificate bag are SET OF: DER orders them by their encodings, not by the model's list order. The
        # layout actually encoded is read back (own DER reader) - "first SignerInfo" always means first in the encoded bytes.
        self.p7 = self.model.der()
        self.parsed = C.parse_p7(self.p7)
        by_sig = {si.signature: si for si in self.model.signer_infos}
        enc = [by_sig.get(x["signature"]) for x in self.parsed["signer_infos"]]
        main_si = self.model.signer_infos[self.main_idx]
        self.enc_main_idx = enc.index(main_si) if main_si in enc else None
        self.expected = enc[0].cert_der if enc and enc[0] is not None else None  # first encoded SignerInfo's certificate (see domain decisions)
        self.bag_pos = self.parsed["certs"].index(main_si.cert_der) if main_si.cert_der in self.parsed["certs"] else None
        self.other_entries = [apkw.Entry("META-INF/MANIFEST.MF", b"Manifest-Version: 1.0\r\nCreated-By: verif\r\n\r\n", apkw.DEFLATED),
                              apkw.Entry("classes.dex", rng.randbytes(40), apkw.STORED)]
        self.block2 = None
        if cfg["two_blocks"]:
            sf2 = gen_sf(rng, "sha256", 1)
            m2 = C.build_signed_data(sf2, [{"key": keys["ec2"], "cert_der": certs["ec2"], "digest": "sha256", "with_attrs": False}])
            self.block2 = ("META-INF/K2.SF", sf2, "META-INF/K2.EC", m2.der(), certs["ec2"])

    def apk(self, p7, sf):
        entries = list(self.other_entries)
        entries.append(apkw.Entry(self.sfname, sf, apkw.DEFLATED if self.cfg["sf_method"] else apkw.STORED))
        entries.append(apkw.Entry(self.signame, p7, apkw.DEFLATED))
        if self.block2:
            entries.append(apkw.Entry(self.block2[0], self.block2[1], apkw.STORED))
            entries.append(apkw.Entry(self.block2[2], self.block2[3], apkw.STORED))
        return apkw.build_apk(entries, manifest=self.cfg["manifest"])

    def label(self):
        return "%s-%s" % (self.alg, "attrs" if self.cfg["attrs"] else "no-attrs")


def clone_si(si, **kw):
    n = C.SignerInfoModel(si.issuer, si.serial, si.digest, None if si.attrs is None else list(si.attrs), si.sig_alg, si.signature, si.cert_der, si.alg)
    for k, v in kw.items():
        setattr(n, k, v)
    return n


def with_si(model, idx, si, certs=None):
    sis = list(model.signer_infos)
    sis[idx] = si
    return C.SignedDataModel(sis, model.certs if certs is None else certs, model.content_type)


def structured(case, keys, certs):
    """-> list of (kind, p7 bytes, sf bytes): alterations of attributes, reference, bag, algorithm, signature, .SF"""
    from asn1crypto import cms, core, x509 as ax509
    m, i, sf = case.model, case.main_idx, case.sf
    si = m.signer_infos[i]
    out = []

    def add(kind, model=None, sf_=None):
        out.append((kind, (model or m).der(), sf if sf_ is None else sf_))

    def set_attr(attrs, oid, vals):
        return [(t, vals if t == oid else v) for t, v in attrs]

    if si.attrs is not None:
        good = hashlib.new(si.digest, sf).digest()
        add("messagedigest-altered", with_si(m, i, clone_si(si, attrs=set_attr(si.attrs, C.OID_MESSAGE_DIGEST, [core.OctetString(bytes([good[0] ^ 1]) + good[1:])]))))
        add("messagedigest-of-other-data", with_si(m, i, clone_si(si, attrs=set_attr(si.attrs, C.OID_MESSAGE_DIGEST, [core.OctetString(hashlib.new(si.digest, sf + b"x").digest())]))))
        add("messagedigest-second-value-added", with_si(m, i, clone_si(si, attrs=set_attr(si.attrs, C.OID_MESSAGE_DIGEST, [core.OctetString(good), core.OctetString(b"\x00" * len(good))]))))
        add("contenttype-altered", with_si(m, i, clone_si(si, attrs=set_attr(si.attrs, C.OID_CONTENT_TYPE, [cms.ContentType("signed_data")]))))
        add("messagedigest-removed", with_si(m, i, clone_si(si, attrs=[(t, v) for t, v in si.attrs if t != C.OID_MESSAGE_DIGEST])))
        add("contenttype-removed", with_si(m, i, clone_si(si, attrs=[(t, v) for t, v in si.attrs if t != C.OID_CONTENT_TYPE])))
        add("messagedigest-duplicated", with_si(m, i, clone_si(si, attrs=list(si.attrs) + [(C.OID_MESSAGE_DIGEST, [core.OctetString(good)])])))
        add("signed-attrs-removed", with_si(m, i, clone_si(si, attrs=None)))
        add("signed-attrs-emptied", with_si(m, i, clone_si(si, attrs=[])))
        add("attribute-added", with_si(m, i, clone_si(si, attrs=list(si.attrs) + [("1.2.840.113549.1.9.16.2.47", [core.OctetString(b"x")])])))
        if any(t == C.OID_SIGNING_TIME for t, _ in si.attrs):
            import datetime
            add("signingtime-altered", with_si(m, i, clone_si(si, attrs=set_attr(si.attrs, C.OID_SIGNING_TIME, [cms.Time({"utc_time": datetime.datetime(2025, 1, 1, tzinfo=datetime.timezone.utc)})]))))
        else:
            add("attribute-order-changed", with_si(m, i, clone_si(si, attrs=list(reversed(si.attrs)))))  # DER re-sorts: must stay valid or be rejected
    else:
        add("signed-attrs-added", with_si(m, i, clone_si(si, attrs=C.make_attrs(sf, si.digest))))
        add("empty-signed-attrs-added", with_si(m, i, clone_si(si, attrs=[])))
    add("digest-algorithm-swapped", with_si(m, i, clone_si(si, digest="sha1" if si.digest == "sha256" else "sha256")))
    # certificate reference
    add("sid-serial-altered", with_si(m, i, clone_si(si, serial=si.serial + 1)))
    other_name = ax509.Certificate.load(C.make_cert(keys["ec2"], "signer-%s-x" % case.alg, serial=si.serial))
    add("sid-issuer-altered", with_si(m, i, clone_si(si, issuer=other_name.issuer)))
    ex = ax509.Certificate.load(certs["extra1"])
    add("sid-points-to-other-cert-in-bag", with_si(m, i, clone_si(si, issuer=ex.issuer, serial=ex.serial_number), certs=list(m.certs) + ([] if certs["extra1"] in m.certs else [certs["extra1"]])))
    nb = ax509.Certificate.load(certs["notinbag"])
    add("sid-points-to-cert-not-in-bag", with_si(m, i, clone_si(si, issuer=nb.issuer, serial=nb.serial_number)))
    add("signer-cert-removed-from-bag", with_si(m, i, si, certs=[c for c in m.certs if c != si.cert_der] or [certs["extra2"]]))
    add("bag-cert-replaced-same-issuer-serial-other-key", with_si(m, i, si, certs=[certs["imposter-" + case.alg] if c == si.cert_der else c for c in m.certs]))
    add("imposter-cert-first-in-bag", with_si(m, i, si, certs=[certs["imposter-" + case.alg]] + list(m.certs)))
    # signature
    sig = si.signature
    add("signature-truncated", with_si(m, i, clone_si(si, signature=sig[:-1])))
    add("signature-extended", with_si(m, i, clone_si(si, signature=sig + b"\x00")))
    add("signature-zeroed", with_si(m, i, clone_si(si, signature=b"\x00" * len(sig))))
    add("signature-empty", with_si(m, i, clone_si(si, signature=b"")))
    tbs = sf if si.attrs is None else b"\x31" + si.attrs_obj().dump()[1:]
    add("signature-over-other-data", with_si(m, i, clone_si(si, signature=C.sign_raw(keys[case.alg], tbs + b"x", si.digest))))
    add("signature-by-other-key", with_si(m, i, clone_si(si, signature=C.sign_raw(keys["imposter-" + case.alg], tbs, si.digest))))
    if si.attrs is not None:
        add("signature-over-sf-instead-of-attrs", with_si(m, i, clone_si(si, signature=C.sign_raw(keys[case.alg], sf, si.digest))))
    # .SF as a whole
    add("sf-truncated", None, sf[:-1])
    add("sf-extended", None, sf + b"\n")
    add("sf-empty", None, b"")
    if case.block2:
        add("sf-of-other-block", None, case.block2[1])
    return out


SDK_VARIANTS = [(23,), (24,), (18, 30), (1,), (23, 24), ()]


def run_case(ctx, mon, APK, case, kind, p7, sf, expect_cert=None, detail=None):
    """one execution of the real code under the monitor. expect_cert: DER that must be returned (unaltered input) or None (only the postcondition applies)"""
    raw = case.apk(p7, sf)
    if not hasattr(ctx, "ev_count_for_variants"):
        ctx.ev_count_for_variants = 0
    ctx.ev()
    ctx.count("cases_" + ("valid" if expect_cert is not None else kind.split("@")[0]))
    label = case.label()

    def W(**kw):
        w = {"kind": kind, "config": case.cfg, "signature_entry": case.signame, "pkcs7": p7, "sf": sf, "detail": detail}
        w.update(kw)
        return w

    mon.drain()
    try:
        a = APK(raw, raw=True)
    except Exception as e:
        ctx.violation("apk-constructor-raises", "APK() raises on a well-formed archive", W(exc=exc_str(e)))
        return
    got = None
    try:
        got = a.get_certificate_der(case.signame)
    except Exception:
        pass  # counted by the monitor; "nothing reported"
    state = mon.last
    # the same question through the optional max_sdk_version argument (it only relaxes the contentType requirement below API 24; the statement
    # holds for every value): judged by the monitor's postcondition; on unaltered input the answer must not change either
    for sdk in SDK_VARIANTS[ctx.ev_count_for_variants % len(SDK_VARIANTS)]:
        ctx.count("get_certificate_der_calls_with_max_sdk_version")
        try:
            g2 = a.get_certificate_der(case.signame, max_sdk_version=sdk)
        except Exception:
            g2 = None
        if expect_cert is not None and got is not None and (g2 is None or bytes(g2) != bytes(got)):
            ctx.violation("valid-signature-answer-changes-with-max-sdk-version-%s" % label,
                          "get_certificate_der(name, max_sdk_version=N) answers differently from get_certificate_der(name) on an unaltered, verifying block",
                          W(max_sdk_version=sdk, got=None if g2 is None else bytes(g2)))
    ctx.ev_count_for_variants += 1
    if expect_cert is None and (kind.startswith("sf-byte") or kind.startswith("signature-byte")):
        pass
    else:
        # the other entry points must agree with get_certificate_der (they go through the monitor as well)
        try:
            names = a.get_signature_names()
            if case.signame not in names:
                ctx.violation("signature-block-not-listed", "get_signature_names() misses a META-INF signature block that has its .SF", W(got=names))
            lst = [x.dump() for x in a.get_certificates_v1()]
            ctx.count("get_certificates_v1_calls")
            want_lst = ([bytes(got)] if got is not None else []) + ([case.block2[4]] if case.block2 else [])
            if lst != want_lst:
                ctx.violation("certificates-v1-list-differs-from-per-block-results", "get_certificates_v1() is not the list of the per-block certificates", W(got=lst, want=want_lst))
            if expect_cert is not None and not a.is_signed_v1():
                ctx.violation("is-signed-v1-false-with-signature-block", "is_signed_v1() is false although a signature block with its .SF exists", W())
        except Exception as e:
            ctx.count("other_entry_points_raised_" + type(e).__name__)
    for filename, cert, r in mon.drain():
        if r["ok"] and not r["sid_ok"]:
            ctx.violation("%s-reported-cert-not-referenced-by-signerinfo-%s" % (kind.split("@")[0], label),
                          "a certificate is reported that verifies the signature but is not the one the SignerInfo references", W(reported=cert, verifier=r["reasons"], block=filename))
        else:
            if kind == "empty-signed-attrs-added":
                mech = "empty-signed-attrs-treated-as-absent"  # one root cause whatever the key type
            elif expect_cert is None:
                mech = "%s-accepted-%s" % (kind.split("@")[0], label)
            else:
                mech = "valid-input-fails-independent-verification-%s" % label
            ctx.violation(mech,
                          "a certificate is reported although no SignerInfo verifies over the .SF with its key", W(reported=cert, verifier=r["reasons"], block=filename))
    if expect_cert is not None:
        if got is None:
            why = state[1] if state and state[0] == "raised" else None
            ctx.violation("valid-signature-not-reported-%s" % label, "an unaltered, verifying signature block yields no certificate", W(exc=why))
        elif bytes(got) != expect_cert:
            ctx.violation("valid-signature-wrong-certificate-%s" % label, "the certificate reported for an unaltered block is not the signer's", W(reported=bytes(got), want=expect_cert))
    return got


def byte_values(rng, b, all_three):
    vals = [b ^ 0x01, b ^ 0x80]
    r = rng.randrange(256)
    while r == b or r in vals:
        r = rng.randrange(256)
    vals.append(r)
    return vals if all_three else [rng.choice(vals)]


def shard(ctx, arg):
    from androguard.core import apk as apkmod
    mon = Monitor(ctx, apkmod)
    APK = apkmod.APK
    keys = {k: C.key_from_der(bytes.fromhex(v)) for k, v in arg["keys"].items()}
    certs = {k: bytes.fromhex(v) for k, v in arg["certs"].items()}
    for ci, cfg in arg["configs"]:
        rng = ctx.rng("c32", ci)
        case = Case(cfg, rng, keys, certs)
        p7 = case.p7
        # writer self-check with the independent verifier (strict: contentType as well): every SignerInfo verifies with its own
        # certificate and references it, none verifies over a different .SF, and the main one was found in the encoding
        ok = case.enc_main_idx is not None and case.expected is not None and case.bag_pos is not None
        r = None
        for msi in case.model.signer_infos:
            r = C.verify_v1(p7, case.sf, msi.cert_der, require_content_type=True)
            ok = ok and r["ok"] and r["sid_ok"] and not C.verify_v1(p7, case.sf + b"x", msi.cert_der)["ok"]
        if not ok:
            ctx.inconclusive("cmsw self-check failed for config %s: %s" % (cfg, r))
            continue
        psi = case.parsed["signer_infos"][case.enc_main_idx]
        ctx.count("layout_main_signerinfo_%s" % ("only" if len(case.model.signer_infos) == 1 else "first" if case.enc_main_idx == 0 else "second"))
        ctx.count("layout_signer_cert_%s_in_bag" % ("alone" if len(case.parsed["certs"]) == 1 else "first" if case.bag_pos == 0 else "not_first"))
        ctx.count("writer_self_checks")
        if cfg["alg"] in OTHER_KEY_TYPES:
            ctx.count("configs_with_a_key_type_outside_rsa_ec_dsa")
            got = run_case(ctx, mon, APK, case, "valid-other-key-type", p7, case.sf)      # no expectation: none or the (verifying) signer certificate
        else:
            got = run_case(ctx, mon, APK, case, "valid", p7, case.sf, expect_cert=case.expected)
        nsi = len(case.model.signer_infos)
        ctx.sig("valid", cfg["alg"], cfg["digest"], cfg["attrs"], cfg["style"], cfg["manifest"], len(case.parsed["certs"]), case.bag_pos, nsi, case.enc_main_idx, cfg["two_blocks"])
        if ci < 3:
            ctx.sample({"config": cfg, "sf": case.sf.decode(), "pkcs7_len": len(p7), "signer_infos": case.model.describe(), "reported_expected_certificate": got == case.expected})
        # --- every / sampled single-byte corruption of the .SF
        exhaustive = not ctx.quick
        pos_sf = list(range(len(case.sf)))
        off, ln = psi["signature_off"], psi["signature_len"]
        pos_sig = list(range(ln))
        if not exhaustive:
            rng.shuffle(pos_sf)
            rng.shuffle(pos_sig)
            pos_sf, pos_sig = sorted(pos_sf[:110]), sorted(pos_sig[:80])
        for p in pos_sf:
            for v in byte_values(rng, case.sf[p], exhaustive):
                sf2 = case.sf[:p] + bytes([v]) + case.sf[p + 1:]
                run_case(ctx, mon, APK, case, "sf-byte-corruption", p7, sf2, detail={"pos": p, "value": v, "was": case.sf[p]})
        for p in pos_sig:
            for v in byte_values(rng, p7[off + p], exhaustive):
                p72 = p7[:off + p] + bytes([v]) + p7[off + p + 1:]
                run_case(ctx, mon, APK, case, "signature-byte-corruption", p72, case.sf, detail={"pos_in_signature": p, "value": v, "was": p7[off + p], "signature_len": ln})
        ctx.sig("sf-bytes", cfg["alg"], cfg["digest"], cfg["attrs"] > 0, len(pos_sf) == len(case.sf))
        ctx.sig("sig-bytes", cfg["alg"], cfg["digest"], cfg["attrs"] > 0, ln, len(pos_sig) == ln)
        if exhaustive:
            ctx.count("configs_with_every_byte_corrupted")
        # --- structured alterations
        for kind, p72, sf2 in structured(case, keys, certs):
            if p72 == p7 and sf2 == case.sf:
                # re-encoding gave the identical bytes (e.g. attribute order restored by DER sorting): it is the valid input again
                run_case(ctx, mon, APK, case, kind + "@identical", p72, sf2, expect_cert=None if cfg["alg"] in OTHER_KEY_TYPES else case.expected)
                continue
            run_case(ctx, mon, APK, case, kind, p72, sf2)
            ctx.sig("structured", kind, cfg["alg"], cfg["attrs"] > 0, nsi, cfg["manifest"])


def shipped(ctx, arg):
    """passive layer: every v1 signature block of the shipped APKs goes through the same postcondition"""
    from androguard.core import apk as apkmod
    mon = Monitor(ctx, apkmod)
    for p in arg:
        try:
            a = apkmod.APK(p)
            names = a.get_signature_names()
        except Exception:
            ctx.count("shipped_unreadable")
            continue
        for n in names:
            ctx.ev()
            ctx.count("shipped_blocks")
            mon.drain()
            try:
                a.get_certificate_der(n)
            except Exception:
                pass
            for filename, cert, r in mon.drain():
                ctx.violation("shipped-apk-reported-cert-fails-independent-verification", "a shipped APK's reported v1 certificate is not confirmed by the independent verifier",
                              {"file": p, "block": filename, "verifier": r})


def run(ctx):
    import glob
    import os
    from vf.harness import REPO
    ctx.rule = ("v1-signed APK models: {RSA-2048, EC P-256, DSA-2048} x {SHA-1, SHA-256} x {no signedAttrs, contentType+messageDigest, +signingTime}, generic/specific signature OIDs, "
                "1-2 SignerInfos (main first/second), 0-2 unrelated certificates before/after, minSdk 9/29/no manifest, 1-2 signature blocks; per model: the unaltered input, "
                "single-byte corruptions of the .SF and of the signature value (thorough: every byte x 3 values), ~30 structured alterations (attributes, sid, bag, digest "
                "algorithm, signature, whole .SF); plus all shipped v1 blocks under the same postcondition. distinct non-trivial = distinct (stage, kind, algorithm, digest, attrs, "
                "style, manifest, bag layout, SignerInfo layout)")
    ctx.assumptions = ["`cryptography` signs/verifies correctly (it is also what androguard uses for the primitive operations; the oracle differs in parsing, attribute handling, "
                       "certificate matching and in what is fed to the primitive)",
                       "vf/model/cmsw.py's DER reader is validated against all shipped v1 signature blocks (every certificate androguard reports there verifies under it)",
                       "keys are drawn from OS randomness once per run; witnesses carry the PKCS#7 and .SF bytes"]
    keys = {"rsa": C.gen_key("rsa"), "ec": C.gen_key("ec"), "dsa": C.gen_key("dsa"), "ec2": C.gen_key("ec"),
            "imposter-rsa": C.gen_key("rsa"), "imposter-ec": C.gen_key("ec"), "imposter-dsa": C.gen_key("dsa"),
            "ed25519": C.gen_key("ed25519"), "ed448": C.gen_key("ed448"), "imposter-ed25519": C.gen_key("ed25519"), "imposter-ed448": C.gen_key("ed448")}
    certs = {"rsa": C.make_cert(keys["rsa"], "signer-rsa", serial=0x1001), "ec": C.make_cert(keys["ec"], "signer-ec", serial=0x1002),
             "dsa": C.make_cert(keys["dsa"], "signer-dsa", serial=0x1003), "ec2": C.make_cert(keys["ec2"], "second-signer", serial=0x2001),
             "extra1": C.make_cert(keys["ec2"], "unrelated-1", serial=0x3001), "extra2": C.make_cert(keys["imposter-dsa"], "unrelated-2", serial=0x3002),
             "notinbag": C.make_cert(keys["imposter-ec"], "not-in-bag", serial=0x4001)}
    certs["ed25519"] = C.make_cert(keys["ed25519"], "signer-ed25519", serial=0x1004)
    certs["ed448"] = C.make_cert(keys["ed448"], "signer-ed448", serial=0x1005)
    for alg, serial in (("rsa", 0x1001), ("ec", 0x1002), ("dsa", 0x1003), ("ed25519", 0x1004), ("ed448", 0x1005)):
        certs["imposter-" + alg] = C.make_cert(keys["imposter-" + alg], "signer-" + alg, serial=serial)  # same issuer and serial, different key
    cfgs = list(enumerate(make_configs(ctx.quick)))
    kh = {k: C.key_to_der(v).hex() for k, v in keys.items()}
    ch = {k: v.hex() for k, v in certs.items()}
    nsh = 16
    # heavy (RSA: 256-byte signatures) and light configurations are spread round-robin
    args = [{"keys": kh, "certs": ch, "configs": cfgs[i::nsh]} for i in range(nsh)]
    ctx.run_shards(MOD, "shard", [a for a in args if a["configs"]], timeout=2400)
    files = sorted(glob.glob(os.path.join(REPO, "tests/data/APK/apksig/*.apk")) + glob.glob(os.path.join(REPO, "tests/data/APK/*.apk")))
    ctx.run_shards(MOD, "shipped", [files[i::8] for i in range(8)], timeout=900)
    ctx.extra["configurations"] = len(cfgs)
    ctx.require_counter("get_certificate_der_calls", 2000)
    ctx.require_counter("independent_verifications", 100)
    ctx.require_counter("reported_none", 1000)
    ctx.require_counter("writer_self_checks", len(cfgs))
    ctx.require_counter("cases_valid", len([c for _, c in cfgs if c["alg"] not in OTHER_KEY_TYPES]))
    ctx.require_counter("cases_sf-byte-corruption", 1000)
    ctx.require_counter("cases_signature-byte-corruption", 500)
    ctx.require_counter("shipped_blocks", 100)
    for c in ("layout_main_signerinfo_first", "layout_main_signerinfo_second", "layout_signer_cert_first_in_bag", "layout_signer_cert_not_first_in_bag"):
        ctx.require_counter(c, 1)
    if not ctx.quick:
        ctx.require_counter("configs_with_every_byte_corrupted", len(cfgs))
    ctx.min_distinct = 100


class ReplayCase:
    """a stored witness: the PKCS#7 and .SF bytes are put into a fresh archive laid out like the original configuration"""
    block2 = None

    def __init__(self, w):
        self.cfg = w["config"]
        self.alg = self.cfg["alg"]
        self.signame = w["signature_entry"]
        self.sfname = self.signame.rsplit(".", 1)[0] + ".SF"

    def apk(self, p7, sf):
        entries = [apkw.Entry("META-INF/MANIFEST.MF", b"Manifest-Version: 1.0\r\nCreated-By: verif\r\n\r\n", apkw.DEFLATED),
                   apkw.Entry(self.sfname, sf, apkw.DEFLATED if self.cfg.get("sf_method") else apkw.STORED), apkw.Entry(self.signame, p7, apkw.DEFLATED)]
        return apkw.build_apk(entries, manifest=self.cfg.get("manifest"))

    def label(self):
        return "%s-%s" % (self.alg, "attrs" if self.cfg["attrs"] else "no-attrs")


def replay_shard(ctx, arg):
    from androguard.core import apk as apkmod
    mon = Monitor(ctx, apkmod)
    for w in arg:
        if "file" in w:  # shipped APK witness
            shipped(ctx, [w["file"]])
            ctx.sample({"file": w["file"]})
            continue
        if any(len(w[k]["hex"]) != 2 * w[k]["len"] for k in ("pkcs7", "sf")):
            ctx.inconclusive("witness bytes were truncated when stored (PKCS#7 > 4000 bytes); re-run the check instead")
            continue
        case = ReplayCase(w)
        p7, sf = bytes.fromhex(w["pkcs7"]["hex"]), bytes.fromhex(w["sf"]["hex"])
        # the stored kind decides the expectation: "valid" witnesses must return the certificate that the independent verifier accepts
        expect = None
        if w["kind"] == "valid" or w["kind"].endswith("@identical"):
            good = [c for c in C.parse_p7(p7)["certs"] if C.verify_v1(p7, sf, c)["ok"]]
            expect = good[0] if good else None
        run_case(ctx, mon, apkmod.APK, case, w["kind"], p7, sf, expect_cert=expect, detail=w.get("detail"))
        ctx.sig("replay", w["kind"], case.label())
        ctx.sample({"kind": w["kind"], "config": case.cfg, "last_result": mon.last[0] if mon.last else None})


def replay(ctx, path):
    import json
    with open(path) as f:
        j = json.load(f)
    ctx.rule = "replay of the stored witnesses of mechanism %s" % j.get("mechanism")
    ctx.min_distinct = 1
    ctx.run_shards(MOD, "replay_shard", [j["witnesses"]], timeout=300)
