"""C33 APK Signing Block contents are reported as encoded.

Generated APK Signing Blocks (vf/model/sigblockw.py, format from the apksigning v2/v3 pages) are inserted before the central directory
of a small generated APK (vf/model/apkw.py) and given to the real androguard.core.apk.APK(bytes, raw=True). Ground truth = the model
that produced the bytes. The same comparison is also run over the signing blocks of the APKs shipped with androguard, read by
sigblockw's independent reader (which re-encodes every one of them byte-exactly, so writer and reader agree with apksigner's output).

Domain decisions (each can be challenged):
 * the archive has at least one entry (an AndroidManifest.xml); an empty archive with a signing block is not an APK and is not generated
   (androguard raises BrokenAPKError "No Central Dir" there, see tests/data/APK/apksig/v2-only-empty.apk - reported as a note only).
 * every generated block is well formed: all length prefixes are consistent, 1..3 signers per scheme block, 0..3 digests and
   signatures, 0..2 certificates, 0..2 additional attributes. v2 signed data sometimes ends with the 4 zero bytes real apksig writes.
 * presence flags are compared by truth value (is_signed_v2() == None counts as false).
 * "duplicate ids are flagged": has_duplicate_apk_signature_ids() must be true iff some pair id occurs more than once (any id, like
   the implementation's own notion). It is asked both on a fresh APK object (first call made on it) and after the flags were read;
   the two situations have different mechanism names.
 * certificates / public keys are compared as raw bytes through the *_der_* getters and the _vN_signing_data objects, so arbitrary
   blobs are legal content; when the model used real X.509 certificates / SubjectPublicKeyInfo the parsed getters are compared too.
 * additional_attributes is the content of the attribute sequence as encoded (that is what the attribute of the object holds).
 * SDK bounds of signer and signed data are independent uint32 values and are reported as encoded (no consistency is demanded).
 * expected content for an id that occurs more than once = the first pair with that id in block order.
Feature partition: cases whose every digest/signature sequence has <= 1 element form the pool that must be completely clean of
the "only first element" symptom; that symptom is recognised only when got == want[:1] with len(want) > 1.
"""
import glob
import os
import struct
import zipfile

from vf.harness import REPO, exc_str
from vf.model import apkw
from vf.model import sigblockw as S

MOD = "vf.checks.c33"

SCHEMES = {"v2": (S.V2_ID, False), "v3": (S.V3_ID, True), "v31": (S.V31_ID, True)}
ALGO_IDS = [0x0101, 0x0102, 0x0103, 0x0104, 0x0201, 0x0202, 0x0301, 0x0421, 0x0423, 0x0425]


def gen_blob(rng, sizes):
    return rng.randbytes(rng.choice(sizes))


def gen_id_blobs(rng, n, sizes):
    return [(rng.choice(ALGO_IDS) if rng.random() < 0.8 else rng.getrandbits(32), gen_blob(rng, sizes)) for _ in range(n)]


def gen_signer(rng, v3, maxlist, real):
    nd = rng.randint(0, maxlist)
    ns = rng.randint(0, maxlist)
    certs = []
    for _ in range(rng.choice([0, 1, 1, 2])):
        certs.append(rng.choice(real["certs"]) if real and rng.random() < 0.7 else gen_blob(rng, [0, 1, 7, 40]))
    attrs = []
    for _ in range(rng.choice([0, 0, 1, 2])):
        if rng.random() < 0.5:
            attrs.append((S.STRIPPING_PROTECTION_ATTR, struct.pack("<I", rng.choice([2, 3, 31]))))
        else:
            attrs.append((rng.getrandbits(32), gen_blob(rng, [0, 1, 4, 20])))
    sd = S.SignedData(gen_id_blobs(rng, nd, [0, 5, 32, 64]), certs, attrs)
    sg = S.Signer(sd, gen_id_blobs(rng, ns, [0, 8, 70, 256]), rng.choice(real["spki"]) if real and rng.random() < 0.7 else gen_blob(rng, [0, 3, 33, 91]))
    if v3:
        sd.min_sdk = rng.choice([0, 1, 24, 28, 33, rng.getrandbits(32)])
        sd.max_sdk = rng.choice([28, 32, 33, 0x7FFFFFFF, 0xFFFFFFFF, rng.getrandbits(32)])
        sg.min_sdk, sg.max_sdk = (sd.min_sdk, sd.max_sdk) if rng.random() < 0.6 else (rng.choice([0, 24, 33, rng.getrandbits(32)]), rng.choice([33, 0x7FFFFFFF, rng.getrandbits(32)]))
    elif rng.random() < 0.3:
        sd.trailing = b"\0\0\0\0"
    return sg


def gen_case(rng, k, real):
    """-> (pairs [(id, value)], model {scheme: [signers lists in block order]}, features)"""
    subset = k % 8
    present = [n for i, n in enumerate(("v2", "v3", "v31")) if subset >> i & 1]
    maxlist = 1 if rng.random() < 0.5 else 3  # clean pool vs multi-element pool
    tagged = []  # (id, value, scheme or None, signers or None)
    for n in present:
        pid, v3 = SCHEMES[n]
        signers = [gen_signer(rng, v3, maxlist, real) for _ in range(rng.randint(1, 3))]
        tagged.append((pid, S.encode_signers(signers, v3), n, signers))
    n_unknown = rng.choice([0, 0, 1, 2]) if present else rng.choice([1, 2])
    for _ in range(n_unknown):
        pid = rng.choice([0x12345678, 0x7109871B, 0x504B4453, 0x6DFF800D, rng.getrandbits(32)])
        if pid in (S.V2_ID, S.V3_ID, S.V31_ID, S.PAD_ID):
            pid ^= 0x10
        tagged.append((pid, gen_blob(rng, [0, 1, 9, 100]), None, None))
    dup = []
    if rng.random() < 0.4:
        for _ in range(rng.choice([1, 1, 2])):
            pid, val, n, signers = rng.choice(tagged)
            if n is not None:
                v3 = SCHEMES[n][1]
                s2 = [gen_signer(rng, v3, maxlist, real) for _ in range(rng.randint(1, 3))]
                tagged.append((pid, S.encode_signers(s2, v3), n, s2))
                dup.append(n)
            else:
                tagged.append((pid, gen_blob(rng, [0, 2, 50]), None, None))
                dup.append("unknown")
    rng.shuffle(tagged)
    pad = None
    r = rng.random()
    if r < 0.25:
        pad = "small"
        tagged.insert(rng.randint(0, len(tagged)), (S.PAD_ID, b"\0" * rng.choice([0, 1, 13, 64]), None, None))
        if rng.random() < 0.15:
            tagged.append((S.PAD_ID, b"\0" * 5, None, None))
            dup.append("padding")
    elif r < 0.32:
        pad = "4096"
        tagged.append(S.padding_pair_for([(i, v) for i, v, _, _ in tagged]) + (None, None))
    pairs = [(i, v) for i, v, _, _ in tagged]
    model = {n: [sg for i, v, nn, sg in tagged if nn == n] for n in SCHEMES}
    feats = {"present": present, "dups": sorted(dup), "unknown": n_unknown, "pad": pad, "maxlist": maxlist}
    return pairs, model, feats


def _fields(w, v3):
    f = {"digests": w.signed_data.digests, "signatures": w.signatures, "certificates": w.signed_data.certificates,
         "attributes": w.signed_data.attributes_bytes(), "public-key": w.public_key}
    if v3:
        f["signed-data-sdk"] = [w.signed_data.min_sdk, w.signed_data.max_sdk]
        f["signer-sdk"] = [w.min_sdk, w.max_sdk]
    return f


def _got_fields(g, v3):
    f = {"digests": [(a, bytes(b)) for a, b in g.signed_data.digests], "signatures": [(a, bytes(b)) for a, b in g.signatures],
         "certificates": [bytes(c) for c in g.signed_data.certificates], "attributes": bytes(g.signed_data.additional_attributes), "public-key": bytes(g.public_key)}
    if v3:
        f["signed-data-sdk"] = [g.signed_data.minSDK, g.signed_data.maxSDK]
        f["signer-sdk"] = [g.minSDK, g.maxSDK]
    return f


def cmp_signers(report, scheme, v3, got, want, alternatives):
    """compare androguard's signer objects with the model signers of the first pair; alternatives = signers of later pairs with
    the same id (a complete match with one of them is reported as 'later block used')"""
    gf = [_got_fields(g, v3) for g in got]
    wf = [_fields(w, v3) for w in want]
    if gf == wf:
        return
    def same_but_first_only(g, w):
        # equality up to the separately reported "only first element" symptom, used only to recognise WHICH pair was reported
        return len(g) == len(w) and all(x[k] == y[k] or (k in ("digests", "signatures") and len(y[k]) > 1 and x[k] == y[k][:1]) for x, y in zip(g, w) for k in y)

    for alt in alternatives:
        af = [_fields(w, v3) for w in alt]
        if same_but_first_only(gf, af) and not same_but_first_only(gf, wf):
            report("%s-duplicate-id-later-block-used" % scheme, "the signers of a later pair with the same id are reported instead of the first pair's", {"got_signers": len(got), "want_signers": len(want)})
            return
    if len(got) != len(want):
        report("%s-signer-count-differs" % scheme, "number of signers reported differs from the encoded one", {"got_signers": len(got), "want_signers": len(want)})
        return
    for i, (g, w) in enumerate(zip(gf, wf)):
        for name in w:
            gv, wv = g[name], w[name]
            if gv == wv:
                continue
            lst = lambda v: [list(x) if isinstance(x, tuple) else x for x in v] if isinstance(v, list) else v
            detail = {"signer": i, "field": name, "got": lst(gv), "want": lst(wv)}
            if name in ("digests", "signatures") and len(wv) > 1 and gv == wv[:1]:
                report("digest-or-signature-sequence-only-first-element", "a digest/signature sequence with several elements is reported with its first element only", detail)
            else:
                report("%s-%s-differs" % (scheme, name), "signer field reported differs from the encoded bytes", detail)


def observe(ctx, APK, raw, pairs, model, order, witness, real=None):
    """run the real code on raw and compare with the model. model: {scheme: [signers of each pair with that id, in block order]}"""
    ids = [i for i, _ in pairs]
    want_dup = len(set(ids)) != len(ids)

    def report(mech, what, detail):
        w = dict(witness)
        w.update(detail)
        ctx.violation(mech, what, w)

    ctx.ev()
    # fresh object: duplicate flag asked first
    try:
        b = APK(raw, raw=True)
        ctx.count("has_duplicate_fresh")
        g = b.has_duplicate_apk_signature_ids()
        if bool(g) != want_dup:
            report("duplicate-flag-wrong-when-asked-first", "has_duplicate_apk_signature_ids() on a fresh APK object does not say whether an id occurs twice",
                   {"got": g, "want": want_dup, "ids": [hex(i) for i in ids]})
    except Exception as e:
        report("duplicate-flag-raises", "has_duplicate_apk_signature_ids() raises", {"exc": exc_str(e)})
    try:
        if len(raw) % 11 == 0:
            # the object is built from a PATH; afterwards the file is replaced by another archive (an unsigned one) before the first signing query:
            # the answers are those of the file the object was built from
            import os
            import tempfile
            fd, path = tempfile.mkstemp(suffix=".apk", prefix="vf_c33_")
            try:
                with os.fdopen(fd, "wb") as f:
                    f.write(raw)
                a = APK(path)
                with open(path, "wb") as f:
                    f.write(apkw.build_zip([apkw.Entry("AndroidManifest.xml", apkw.manifest_blob("sdk9"), apkw.DEFLATED)]))
                for n in SCHEMES:
                    getattr(a, "is_signed_" + n)()      # first signing query while the replaced file is still there
            finally:
                os.unlink(path)
            ctx.count("objects_built_from_a_path_whose_file_was_replaced_afterwards")
            witness = dict(witness, history="APK(path); the file was then replaced by an unsigned archive; queries followed")
        else:
            a = APK(raw, raw=True)
    except Exception as e:
        report("apk-constructor-raises", "APK() raises on a well-formed APK with a signing block", {"exc": exc_str(e)})
        return
    for step in order:
        if step == "flags":
            for n, (pid, v3) in SCHEMES.items():
                ctx.count("is_signed_" + n)
                try:
                    g = getattr(a, "is_signed_" + n)()
                except Exception as e:
                    report("is_signed-raises", "is_signed_%s() raises" % n, {"exc": exc_str(e)})
                    continue
                if bool(g) != (pid in ids):
                    report("flag-%s-%s" % (n, "set-without-block" if g else "not-set-with-block"), "presence flag differs from the presence of a pair with that id",
                           {"got": g, "want": pid in ids, "ids": [hex(i) for i in ids]})
        elif step == "dup":
            ctx.count("has_duplicate_after")
            try:
                g = a.has_duplicate_apk_signature_ids()
                if bool(g) != want_dup and order.index("dup") > min(order.index(s) for s in order if s != "dup"):
                    report("duplicate-flag-wrong", "has_duplicate_apk_signature_ids() does not say whether an id occurs twice", {"got": g, "want": want_dup, "ids": [hex(i) for i in ids]})
            except Exception as e:
                report("duplicate-flag-raises", "has_duplicate_apk_signature_ids() raises", {"exc": exc_str(e)})
        else:
            n = step
            pid, v3 = SCHEMES[n]
            blocks = model[n]
            want = blocks[0] if blocks else []
            ctx.count("signers_" + n)
            try:
                certs = [bytes(c) for c in getattr(a, "get_certificates_der_" + n)()]
                pks = [bytes(c) for c in getattr(a, "get_public_keys_der_" + n)()]
                data = getattr(a, "_%s_signing_data" % n)
            except Exception as e:
                report("%s-getters-raise-%s" % (n, type(e).__name__), "get_certificates_der/get_public_keys_der raise on a well-formed block", {"exc": exc_str(e), "scheme": n})
                continue
            if data is None:
                report("%s-signing-data-none" % n, "_signing_data is None after the getters ran", {"scheme": n})
                continue
            if n == "v31" and blocks and not data and S.V3_ID not in ids:
                report("v31-block-without-v3-block-not-reported", "a v3.1 block is present (flag true) but none of its signers is reported when there is no v3 block",
                       {"got_signers": 0, "want_signers": len(want), "ids": [hex(i) for i in ids]})
                continue
            nviol = sum(v["count"] for v in ctx.violations.values())
            cmp_signers(report, n, v3, list(data), want, blocks[1:])
            if len(data) == len(want):
                wc = [c for s in want for c in s.signed_data.certificates]
                wp = [s.public_key for s in want]
                clean = sum(v["count"] for v in ctx.violations.values()) == nviol
                if certs != wc and clean:
                    report("%s-certs-der-list-differs" % n, "get_certificates_der is not the concatenation of the signers' certificates", {"got": certs, "want": wc})
                if pks != wp and clean:
                    report("%s-public-keys-der-list-differs" % n, "get_public_keys_der is not the list of the signers' public keys", {"got": pks, "want": wp})
                if real and clean:
                    try:
                        if all(c in real["certs"] for c in wc):
                            ctx.count("parsed_certificate_getters")
                            gc = [x.dump() for x in getattr(a, "get_certificates_" + n)()]
                            if gc != wc:
                                report("%s-parsed-certificates-differ" % n, "get_certificates_vN() objects do not re-encode to the certificates in the block", {"got": gc, "want": wc})
                        if all(p in real["spki"] for p in wp):
                            gp = [x.dump() for x in getattr(a, "get_public_keys_" + n)()]
                            if gp != wp:
                                report("%s-parsed-public-keys-differ" % n, "get_public_keys_vN() objects do not re-encode to the keys in the block", {"got": gp, "want": wp})
                    except Exception as e:
                        report("%s-parsed-getters-raise" % n, "get_certificates_vN/get_public_keys_vN raise on real X.509 content", {"exc": exc_str(e)})


def base_apk(rng):
    entries = [apkw.Entry("AndroidManifest.xml", apkw.manifest_blob(rng.choice(["sdk9", "sdk23"])), apkw.DEFLATED)]
    if rng.random() < 0.5:
        entries.append(apkw.Entry("classes.dex", rng.randbytes(rng.choice([0, 10, 300])), rng.choice([apkw.STORED, apkw.DEFLATED])))
    if rng.random() < 0.3:
        entries.insert(0, apkw.Entry("res/x.bin", rng.randbytes(20), apkw.STORED))
    if rng.random() < 0.25:
        # archive size and comment length decide where the end-of-central-directory record lies relative to the last 64 KiB of the file
        entries.append(apkw.Entry("res/big.bin", bytes(rng.choice([1000, 5000, 20000, 40000, 70000])), rng.choice([apkw.STORED, apkw.STORED, apkw.DEFLATED])))
    comment = rng.choice([b"", b"", b"zip comment"])
    if rng.random() < 0.2:
        comment = b"c" * rng.choice([1000, 20000, 30000, 40000, 60000, 65535])
    return apkw.build_zip(entries, comment)


def shard(ctx, arg):
    idx, count = arg
    from androguard.core.apk import APK
    from vf.model import cmsw
    rng = ctx.rng("c33", idx)
    k1, k2 = cmsw.gen_key("ec"), cmsw.gen_key("ec")
    real = {"certs": [cmsw.make_cert(k1, "c33-a", serial=11), cmsw.make_cert(k2, "c33-b", serial=12)],
            "spki": [cmsw.public_key_der(k1), cmsw.public_key_der(k2)]}
    for k in range(count):
        pairs, model, feats = gen_case(rng, k + idx, real if rng.random() < 0.5 else None)
        zipb = base_apk(rng)
        block = S.encode_signing_block(pairs)
        raw = S.insert_signing_block(zipb, block)
        probs = S.self_check(raw, pairs)
        for n, (pid, v3) in SCHEMES.items():  # reader round trip of every scheme value
            vals = [v for i, v in pairs if i == pid]
            for v, signers in zip(vals, model[n]):
                if S.encode_signers(S.parse_signers(v, v3), v3) != v:
                    probs.append("signers of %s do not round-trip" % n)
        try:
            with zipfile.ZipFile(__import__("io").BytesIO(raw)) as z:
                if z.testzip() is not None:
                    probs.append("zipfile.testzip fails after insertion")
        except Exception as e:
            probs.append("zipfile rejects the APK after insertion: %r" % (e,))
        if probs:
            ctx.inconclusive("sigblockw self-check failed: %s" % probs[:3])
            continue
        steps = ["flags", "dup", "v2", "v3", "v31"]
        rng.shuffle(steps)
        witness = {"features": feats, "call_order": steps, "pairs": [[hex(i), len(v)] for i, v in pairs],
                   "model": {n: [[s.describe() for s in b] for b in bl] for n, bl in model.items() if bl}}
        if len(block) < 3000:
            witness["signing_block"] = block  # stored as {"hex": ..., "len": ...}
        if len(raw) < 3000:
            witness["apk"] = raw
        observe(ctx, APK, raw, pairs, model, steps, witness, real)
        mx = lambda f: max([len(f(s)) for bl in model.values() for b in bl[:1] for s in b] or [0])
        ctx.sig(tuple(feats["present"]), tuple(feats["dups"]), feats["unknown"], feats["pad"],
                tuple(len(bl[0]) if bl else 0 for bl in model.values()),
                min(mx(lambda s: s.signed_data.digests), 3), min(mx(lambda s: s.signatures), 3), mx(lambda s: s.signed_data.certificates), mx(lambda s: s.signed_data.attributes))
        if feats["maxlist"] == 1:
            ctx.count("cases_single_element_pool")
        else:
            ctx.count("cases_multi_element_pool")
        if idx == 0 and k < 3:
            ctx.sample({"features": feats, "pairs": witness["pairs"], "apk_bytes": len(raw), "first_model": {n: [s.describe() for s in bl[0]] for n, bl in model.items() if bl}})


def shipped(ctx, arg):
    """the same comparison over the signing blocks of the shipped APKs, ground truth read by sigblockw's reader"""
    from androguard.core.apk import APK
    for p in arg:
        name = os.path.basename(p)
        with open(p, "rb") as f:
            raw = f.read()
        try:
            with zipfile.ZipFile(p) as z:
                if not z.namelist():
                    ctx.count("shipped_skipped_empty_archive")
                    continue
            loc = S.locate_signing_block(raw)
            if loc is None:
                continue
            pairs = S.parse_pairs(loc[1])
            model = {}
            for n, (pid, v3) in SCHEMES.items():
                model[n] = [S.parse_signers(v, v3) for i, v in pairs if i == pid]
                for v, signers in zip([v for i, v in pairs if i == pid], model[n]):
                    if S.encode_signers(signers, v3) != v:
                        ctx.inconclusive("sigblockw does not re-encode the %s block of shipped %s byte-exactly" % (n, name))
        except (S.FormatError, ValueError, struct.error, zipfile.BadZipFile, NotImplementedError):
            ctx.count("shipped_skipped_malformed")
            continue
        ctx.count("shipped_blocks_compared")
        observe(ctx, APK, raw, pairs, model, ["flags", "dup", "v2", "v3", "v31"], {"shipped_file": "tests/data/APK/" + os.path.relpath(p, os.path.join(REPO, "tests/data/APK"))})
        ctx.sig("shipped", tuple(sorted(set(i for i, _ in pairs))), tuple(len(bl[0]) if bl else 0 for bl in model.values()))


def run(ctx):
    ctx.rule = ("APK Signing Blocks from vf/model/sigblockw.py: all 8 subsets of {v2,v3,v3.1} pairs (round-robin), 1..3 signers, 0..3 digests and signatures (half of the cases "
                "limited to <=1: the pool that must be clean of the only-first-element symptom), 0..2 certificates (random blobs or real X.509), 0..2 additional attributes, "
                "random/sentinel SDK bounds, unknown ids, verity padding (small or to 4096), duplicate ids with different content in shuffled pair order, zip with/without archive comment; "
                "calls in shuffled order on one APK object + duplicate flag on a fresh object; plus every shipped APK with a parseable block. "
                "distinct non-trivial = distinct (present ids, duplicated kinds, #unknown, padding, #signers per scheme, max #digests/#signatures/#certs/#attrs)")
    ctx.assumptions = ["vf/model/sigblockw.py implements the published v2/v3 layout (its reader re-encodes the v2/v3/v3.1 values of all shipped apksig APKs byte-exactly)",
                       "archives have >= 1 entry; blocks are well formed; flags compared by truth value",
                       "first pair with an id wins; duplicate flag = some id (any id) occurs more than once"]
    n = 3200 if ctx.quick else 240000
    per = n // 16
    files = sorted(glob.glob(os.path.join(REPO, "tests/data/APK/apksig/*.apk")) + glob.glob(os.path.join(REPO, "tests/data/APK/*.apk")))
    ctx.run_shards(MOD, "shard", [[i, per] for i in range(16)], timeout=1500)
    ctx.run_shards(MOD, "shipped", [files[i::8] for i in range(8)], timeout=900)
    for n_ in SCHEMES:
        ctx.require_counter("is_signed_" + n_, 500)
        ctx.require_counter("signers_" + n_, 500)
    ctx.require_counter("has_duplicate_fresh", 500)
    ctx.require_counter("has_duplicate_after", 500)
    ctx.require_counter("cases_single_element_pool", 200)
    ctx.require_counter("cases_multi_element_pool", 200)
    ctx.require_counter("shipped_blocks_compared", 50)
    ctx.require_counter("parsed_certificate_getters", 50)
    ctx.min_distinct = 100


def replay_shard(ctx, arg):
    """re-run stored witnesses: the stored APK bytes, else the stored signing block inserted into a fresh minimal APK, else the shipped file"""
    from androguard.core.apk import APK
    rng = ctx.rng("c33-replay")
    for w in arg:
        if "shipped_file" in w:
            shipped(ctx, [os.path.join(REPO, w["shipped_file"])])
            ctx.sample({"shipped_file": w["shipped_file"]})
            continue
        full = lambda k: k in w and len(w[k]["hex"]) == 2 * w[k]["len"]
        if full("apk"):
            raw = bytes.fromhex(w["apk"]["hex"])
        elif full("signing_block"):
            raw = S.insert_signing_block(base_apk(rng), bytes.fromhex(w["signing_block"]["hex"]))
        else:
            ctx.inconclusive("witness stores neither the APK nor the signing block bytes (too large); re-run the check with the recorded seed instead")
            continue
        pairs = S.parse_pairs(S.locate_signing_block(raw)[1])
        model = {n: [S.parse_signers(v, v3) for i, v in pairs if i == pid] for n, (pid, v3) in SCHEMES.items()}
        order = w.get("call_order") or ["flags", "dup", "v2", "v3", "v31"]
        observe(ctx, APK, raw, pairs, model, order, {"pairs": [[hex(i), len(v)] for i, v in pairs], "call_order": order, "apk": raw if len(raw) < 3000 else None})
        ctx.sig("replay", tuple(i for i, _ in pairs))
        ctx.sample({"pairs": [[hex(i), len(v)] for i, v in pairs], "call_order": order})


def replay(ctx, path):
    import json
    with open(path) as f:
        j = json.load(f)
    ctx.rule = "replay of the stored witnesses of mechanism %s" % j.get("mechanism")
    ctx.min_distinct = 1
    ctx.run_shards(MOD, "replay_shard", [j["witnesses"]], timeout=300)
