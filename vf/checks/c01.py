"""C01 instruction decoding is faithful: real dex.get_instruction on every opcode x every high byte of the first code unit x
boundary/random remaining units, compared with the bit-sliced reference decoder in vf/model/dalvik.py."""
from vf.harness import exc_str
from vf.model import dalvik as D
from vf.model import dexw as W

MOD = "vf.checks.c01"
BOUND = [0x0000, 0x0001, 0x007F, 0x0080, 0x00FF, 0x0100, 0x7FFF, 0x8000, 0x8001, 0xFF00, 0xFFFE, 0xFFFF]


def pool_model(variant=0):
    """small DEX whose pools are known: -> (bytes, writer). Other variants have other names at the same pool indices."""
    m = W.DexModel()
    c = m.add_class("Lp/A;", source="A.java")
    c.add_field("f0", "I", W.ACC_STATIC)
    c.add_field("f1", "Ljava/lang/String;", 0)
    c.add_method("m0", "V", [], W.ACC_STATIC, W.Code(1, 0, 0, [("return-void",)]))
    c.add_method("m1", "I", ["I", "J"], W.ACC_PUBLIC, W.Code(5, 4, 0, [("const/4", 0, 0), ("return", 0)]))
    for i in range(6):
        j = i + 7 * variant
        m.extra_refs.append(W.Str("str%d" % j))
        m.extra_refs.append(W.Typ("Lq/T%d;" % j))
        m.extra_refs.append(W.Fld("Lq/T%d;" % j, "g%d" % j, "[I"))
        m.extra_refs.append(W.Mth("Lq/T%d;" % j, "n%d" % j, "J", ["Lq/T%d;" % (7 * variant), "D"]))
    data, w = W.write_dex(m, want_writer=True)
    return data, w


def shard_successive(ctx, arg):
    """several DEX files one after the other in ONE process, with other names at the same pool indices; most are released (and collected) before the
    next one is parsed, so that the next class manager can land where a dead one was: an index still resolves in the file it was read from"""
    import gc
    from androguard.core import dex
    lo, hi = arg
    rng = ctx.rng("c01-successive", lo)
    kept = []
    addresses = set()
    reused = 0
    for v in range(lo, hi):
        data, w = pool_model(variant=v)
        dx = dex.DEX(data)
        cm = dx.get_class_manager()
        if id(cm) in addresses:
            reused += 1
        addresses.add(id(cm))
        for op in sorted(D.OPCODES):
            fmt, kind = D.OPCODES[op][1], D.OPCODES[op][2]
            if kind not in ("string", "type", "field", "method"):
                continue
            size = {"string": len(w.string_list), "type": len(w.type_list), "field": len(w.field_list), "method": len(w.method_list)}[kind]
            for idx in range(size):
                hib = rng.randrange(256)
                if fmt in ("35c",):
                    hib = (rng.randrange(6) << 4) | rng.randrange(16)
                if fmt in ("21c", "22c"):
                    us = [op | (hib << 8), idx]
                elif fmt == "31c":
                    us = [op | (hib << 8), idx, 0]
                else:
                    us = [op | (hib << 8), idx, rng.getrandbits(16)]
                compare(ctx, cm, dex, w, us, inpool=True)
        ctx.count("successive_files")
        if v % 4 == 0:
            kept.append((dx, cm))
        del dx, cm
        gc.collect()
    ctx.count("class_managers_at_an_address_a_dead_one_had", reused)


def field_class(v, bits, signed):
    if v == 0:
        return "0"
    if signed:
        if v == -1:
            return "-1"
        if v == (1 << (bits - 1)) - 1:
            return "max"
        if v == -(1 << (bits - 1)):
            return "min"
        return "neg" if v < 0 else "pos"
    if v == (1 << bits) - 1:
        return "max"
    if v >= 1 << (bits - 1):
        return "hi"
    return "lo"


def compare(ctx, cm, dex, w, units, inpool):
    """run the real decoder on units and compare with the model. Returns nothing; records into ctx."""
    from androguard.core.dex.dex_types import Operand
    op = units[0] & 0xFF
    buf = D.units_to_bytes(units) + b"\xEE\xEE"
    ctx.ev()
    ctx.count("get_instruction")
    d = D.decode(units)
    wit = {"units": ["%04x" % u for u in units[: (d.units if d else 1)]], "opcode": "0x%02x" % op}
    try:
        ins = dex.get_instruction(cm, op, buf)
    except dex.InvalidInstruction as e:
        if d is None:
            ctx.count("unused_rejected")
            return
        if d.must_be_zero:
            ctx.count("nonzero_padding_rejected")
            return
        if d.fmt in ("35c", "45cc") and d.count > 5:
            ctx.count("count_gt5_rejected")
            return
        ctx.violation("valid-rejected-%s" % d.fmt, "a valid instruction is rejected as invalid", dict(wit, name=d.name, exc=exc_str(e)))
        return
    except Exception as e:
        ctx.violation("decode-raises-%s" % (d.fmt if d else "unused"), "decoder raises an unexpected exception", dict(wit, exc=exc_str(e)))
        return
    if d is None:
        ctx.violation("unused-opcode-accepted", "an opcode the specification marks unused decodes to an instruction", dict(wit, got=type(ins).__name__))
        return
    wit["name"] = d.name
    wit["fmt"] = d.fmt
    # length / raw / name
    L = ins.get_length()
    if L != 2 * d.units:
        ctx.violation("length-%s" % d.fmt, "instruction length differs from the format table", dict(wit, got=L, want=2 * d.units))
        return
    try:
        raw = bytes(ins.get_raw())
    except Exception as e:
        mech = "get_raw-raises-%s" % d.fmt
        if d.fmt == "31c" and d.index >= 1 << 31:
            mech = "31c-index-signed"
        ctx.violation(mech, "get_raw raises", dict(wit, exc=exc_str(e)))
        raw = None
    if raw is not None and raw != buf[:L]:
        ctx.violation("roundtrip-%s" % d.fmt, "get_raw() differs from the input bytes", dict(wit, got=raw.hex(), want=buf[:L].hex()))
    if ins.get_name() != d.name or ins.get_op_value() != op:
        ctx.violation("mnemonic", "mnemonic or opcode value differs from the specification", dict(wit, got=ins.get_name(), want=d.name))
    if d.must_be_zero or (d.fmt in ("35c", "45cc") and d.count > 5):
        ctx.count("dontcare_fields")
        return
    # operands
    try:
        ops = ins.get_operands()
    except Exception as e:
        if d.index is not None and not inpool:
            ctx.count("operands_raise_out_of_pool_index")
            ops = "skip"
        else:
            ctx.violation("get_operands-raises-%s" % d.fmt, "get_operands raises", dict(wit, exc=exc_str(e)))
            return
    if ops is None:
        ctx.violation("operands-unimplemented-%s" % d.fmt, "get_operands returns None: registers/indices of this format are not exposed", wit)
        ops = "skip"
    if ops != "skip":
        regs = [o[1] for o in ops if o[0] == Operand.REGISTER]
        lits = [o[1] for o in ops if o[0] == Operand.LITERAL]
        offs = [o[1] for o in ops if o[0] == Operand.OFFSET]
        kinds = [o for o in ops if o[0] >= Operand.KIND]
        if regs != d.regs:
            ctx.violation("registers-%s" % d.fmt, "register operands differ", dict(wit, got=regs, want=d.regs))
        if lits != ([d.literal] if d.literal is not None else []):
            ctx.violation("literal-%s" % d.fmt, "literal operand differs (sign extension / shift)", dict(wit, got=lits, want=d.literal))
        if offs != ([d.offset] if d.offset is not None else []):
            ctx.violation("offset-%s" % d.fmt, "branch offset differs", dict(wit, got=offs, want=d.offset))
        if d.index is not None:
            want_idx = [d.index] + ([d.index2] if d.index2 is not None else [])
            got_idx = [k[1] for k in kinds]
            if got_idx != want_idx:
                mech = "31c-index-signed" if d.fmt == "31c" and d.index >= 1 << 31 else "index-%s" % d.fmt
                ctx.violation(mech, "pool index differs", dict(wit, got=got_idx, want=want_idx))
            elif inpool and d.kind in ("string", "type", "field", "method"):
                res = kinds[0][2]
                want = resolved(w, d.kind, d.index)
                if (res or "").replace(" ", "") != want.replace(" ", ""):
                    ctx.violation("resolution-%s" % d.kind, "pool index resolves to a different item", dict(wit, got=res, want=want))
                ctx.count("inpool_resolved")
        elif kinds:
            ctx.violation("spurious-index-%s" % d.fmt, "an index operand is reported for a format without one", wit)
    # direct accessors
    if d.literal is not None:
        gl = ins.get_literals()
        if gl != [d.literal]:
            ctx.violation("literal-%s" % d.fmt, "get_literals differs (sign extension / shift)", dict(wit, got=gl, want=d.literal))
    if d.offset is not None:
        try:
            go = ins.get_ref_off()
        except Exception as e:
            go = exc_str(e)
        if go != d.offset:
            ctx.violation("offset-%s" % d.fmt, "get_ref_off differs", dict(wit, got=go, want=d.offset))
    if d.index is not None and d.fmt not in ("45cc", "4rcc"):
        try:
            gk = ins.get_ref_kind()
        except Exception as e:
            gk = exc_str(e)
        if gk != d.index:
            mech = "31c-index-signed" if d.fmt == "31c" and d.index >= 1 << 31 else "index-%s" % d.fmt
            ctx.violation(mech, "get_ref_kind differs from the encoded index", dict(wit, got=gk, want=d.index))
    # signature
    parts = [op]
    if d.regs:
        parts.append(tuple(field_class(r, 16 if d.fmt in ("22x", "32x", "3rc", "4rcc") else 8, False) for r in d.regs[:3]))
    if d.literal is not None:
        parts.append(field_class(d.literal, {"11n": 4, "22b": 8, "21s": 16, "22s": 16, "31i": 32, "51l": 64, "21h": 32 if op == 0x15 else 64}[d.fmt], True))
    if d.offset is not None:
        parts.append(field_class(d.offset, {"10t": 8, "20t": 16, "21t": 16, "22t": 16, "30t": 32, "31t": 32}[d.fmt], True))
    if d.index is not None:
        parts.append(field_class(d.index, 32 if d.fmt == "31c" else 16, False))
    ctx.sig(*parts)


def resolved(w, kind, idx):
    if kind == "string":
        return w.string_list[idx]
    if kind == "type":
        return w.type_list[idx]
    if kind == "field":
        c, n, t = w.field_list[idx]
        return "%s->%s %s" % (c, n, t)
    c, n, r, p = w.method_list[idx]
    return "%s->%s(%s)%s" % (c, n, "".join(p), r)


def shard(ctx, arg):
    lo, hi = arg
    from androguard.core import dex
    data, w = pool_model()
    dx = dex.DEX(data)
    cm = dx.get_class_manager()
    rng = ctx.rng("c01", lo)
    for op in range(lo, hi):
        fmt = D.OPCODES[op][1] if op in D.OPCODES else None
        n = D.FORMAT_UNITS[fmt] if fmt else 1
        for hib in range(256):
            u0 = op | (hib << 8)
            if n == 1:
                tails = [[]]
            else:
                k = n - 1
                tails = []
                if not ctx.quick and k <= 2:
                    import itertools
                    tails = [list(t) for t in itertools.product(BOUND, repeat=k)]
                else:
                    pats = [[0] * k, [0xFFFF] * k, [0x8000] * k, [0x7FFF] * k, [0x00FF, 0xFF00, 0x0080, 0x8001][:k]]
                    tails = pats + [[rng.choice(BOUND) for _ in range(k)] for _ in range(3 if ctx.quick else 40)]
                tails += [[rng.getrandbits(16) for _ in range(k)] for _ in range(4 if ctx.quick else 12)]
            for t in tails:
                compare(ctx, cm, dex, w, [u0] + t + ([0, 0, 0, 0] if fmt is None else []), inpool=False)
        # in-pool indices: resolution must match the writer's pools
        if fmt and D.OPCODES[op][2] in ("string", "type", "field", "method"):
            kind = D.OPCODES[op][2]
            size = {"string": len(w.string_list), "type": len(w.type_list), "field": len(w.field_list), "method": len(w.method_list)}[kind]
            for idx in range(size):
                for _ in range(2):
                    hib = rng.randrange(256)
                    if fmt in ("35c",):
                        hib = (rng.randrange(6) << 4) | rng.randrange(16)
                    if fmt in ("21c", "22c"):
                        us = [op | (hib << 8), idx]
                    elif fmt == "31c":
                        us = [op | (hib << 8), idx, 0]
                    else:
                        us = [op | (hib << 8), idx, rng.getrandbits(16)]
                    compare(ctx, cm, dex, w, us, inpool=True)
        # truncated buffers must be rejected, never decoded
        if fmt and n > 1:
            for cut in range(1, 2 * n):
                ctx.ev()
                ctx.count("truncated")
                b = D.units_to_bytes([op] + [0] * (n - 1))[:cut]
                try:
                    ins = dex.get_instruction(cm, op, b)
                    ctx.violation("truncated-accepted", "a truncated instruction decodes", {"opcode": "0x%02x" % op, "bytes": b.hex(), "got": type(ins).__name__})
                except dex.InvalidInstruction:
                    pass
                except Exception as e:
                    ctx.violation("truncated-raises-other", "a truncated instruction raises something else than InvalidInstruction", {"opcode": "0x%02x" % op, "bytes": b.hex(), "exc": exc_str(e)})
        ctx.count("opcodes_covered")
        if fmt:
            ctx.extra.setdefault("formats_covered", {})[fmt] = True
    if lo == 0:
        ctx.sample({"units": ["fe15", "abcd"], "model": repr(D.decode([0xFE15, 0xABCD]))})
        ctx.sample({"units": ["a012", ], "model": repr(D.decode([0xA012]))})


def shard_payloads(ctx, arg):
    """the three payload pseudo-instructions (first unit 0x0100 / 0x0200 / 0x0300): length from the header, exact re-encoding, keys and relative
    targets as SIGNED 32-bit values, element width / count / data"""
    idx, count = arg
    from androguard.core import dex
    data, w = pool_model()
    cm = dex.DEX(data).get_class_manager()
    rng = ctx.rng("c01-payloads", idx)
    I32 = [0, 1, -1, 2, 127, 128, 255, 256, 32767, 32768, 65535, 65536, 2 ** 31 - 1, -2 ** 31, -2 ** 31 + 1, -128, -32768, -65536]

    def v32():
        return rng.choice(I32) if rng.random() < 0.7 else rng.randrange(-2 ** 31, 2 ** 31)
    for k in range(count):
        kind = rng.choice(["packed", "sparse", "fill"])
        ctx.ev()
        ctx.count("payloads_" + kind)
        try:
            if kind == "packed":
                n = rng.choice([0, 1, 2, 3, 7])
                fk = v32()
                if fk + n > 2 ** 31:
                    fk = 2 ** 31 - n
                tg = [v32() for _ in range(n)]
                units = D.packed_switch_payload(fk, tg)
                raw = D.units_to_bytes(units)
                p = dex.PackedSwitch(cm, raw)
                got = {"length": p.get_length(), "raw": bytes(p.get_raw()), "keys": list(p.get_keys()), "values": list(p.get_values()), "targets": list(p.get_targets()), "first_key": p.first_key}
                want = {"length": len(raw), "raw": raw, "keys": [fk + i for i in range(n)], "values": [fk + i for i in range(n)], "targets": tg, "first_key": fk}
                sig = ("packed", field_class(fk & 0xFFFFFFFF, 32, True), min(n, 3))
            elif kind == "sparse":
                n = rng.choice([0, 1, 2, 3, 7])
                keys = sorted({v32() for _ in range(n)})
                tg = [v32() for _ in keys]
                units = D.sparse_switch_payload(keys, tg)
                raw = D.units_to_bytes(units)
                p = dex.SparseSwitch(cm, raw)
                got = {"length": p.get_length(), "raw": bytes(p.get_raw()), "keys": list(p.get_keys()), "values": list(p.get_values()), "targets": list(p.get_targets())}
                want = {"length": len(raw), "raw": raw, "keys": keys, "values": keys, "targets": tg}
                sig = ("sparse", field_class(keys[0] & 0xFFFFFFFF, 32, True) if keys else "none", min(len(keys), 3))
            else:
                width = rng.choice([1, 2, 4, 8])
                cnt = rng.choice([0, 1, 2, 3, 5, 16])
                body = bytes(rng.randrange(256) for _ in range(width * cnt))
                units = D.fill_array_payload(width, body)
                raw = D.units_to_bytes(units)
                p = dex.FillArrayData(cm, raw)
                got = {"length": p.get_length(), "raw": bytes(p.get_raw()), "element_width": p.element_width, "size": p.size, "data": bytes(p.get_data())[: len(body)]}
                want = {"length": len(raw), "raw": raw, "element_width": width, "size": cnt, "data": body}
                sig = ("fill", width, min(cnt, 3), len(body) % 2)
                if body and rng.random() < 0.3:
                    # the buffer ends before the declared data does: the length is still the one the header fixes (the sweep relies on it to
                    # report such a payload as exceeding the code)
                    ctx.count("payloads_fill_truncated")
                    short = raw[: 8 + rng.randrange(len(body))]
                    try:
                        pl = dex.FillArrayData(cm, short).get_length()
                    except Exception:
                        pl = len(raw)   # refusing a truncated payload is fine
                    if pl != len(raw):
                        ctx.violation("payload-fill-length-of-truncated-buffer", "get_length() of a fill-array-data payload whose buffer is shorter than its header declares is not the declared length",
                                      {"got": pl, "want": len(raw), "width": width, "size": cnt, "buffer_len": len(short)})
        except Exception as e:
            ctx.violation("payload-%s-raises" % kind, "decoding a well-formed payload raises", {"kind": kind, "exc": exc_str(e)})
            continue
        ctx.sig(*sig)
        for f in want:
            if got[f] != want[f]:
                ctx.violation("payload-%s-%s" % (kind, f.replace("_", "-")), "a field of a payload pseudo-instruction differs from the encoded value",
                              {"kind": kind, "field": f, "got": got[f] if not isinstance(got[f], bytes) else got[f].hex(), "want": want[f] if not isinstance(want[f], bytes) else want[f].hex(), "payload": raw.hex()})
                break


def run(ctx):
    ctx.rule = ("dex.get_instruction(cm, op, bytes) for all 256 opcodes x all 256 high bytes of the first code unit (exhaustive first unit) x "
                "remaining units from the boundary set {0000,0001,007F,0080,00FF,0100,7FFF,8000,8001,FF00,FFFE,FFFF} (thorough: full cross product for <=2 extra units) + random units; "
                "indices inside the pools of a generated DEX are compared with the writer's pools; truncated buffers; the three payload pseudo-instructions with boundary/random signed keys, targets, widths and data. "
                "distinct non-trivial = distinct (opcode, per-field class in {0,max,min,-1,neg,pos,hi,lo})")
    ctx.assumptions = ["vf/model/dalvik.py opcode/format table transcribed from the Dalvik bytecode specification",
                       "fields the spec requires to be zero (10x/20t/30t/32x high byte) may be rejected or round-tripped; 35c/45cc with A>5 likewise",
                       "call_site/method_handle/proto indices: only the index value is compared"]
    # name/length table sanity against androguard: disagreements are findings, not reconciled
    ctx.run_shards(MOD, "shard", [[i * 16, (i + 1) * 16] for i in range(16)], timeout=3000)
    ns = 30 if ctx.quick else 300
    ctx.run_shards(MOD, "shard_successive", [[i * ns, (i + 1) * ns] for i in range(4)], timeout=3000)
    ctx.require_counter("successive_files", 40)
    ctx.require_counter("class_managers_at_an_address_a_dead_one_had", 1)
    n = 4000 if ctx.quick else 400000
    ctx.run_shards(MOD, "shard_payloads", [[i, n // 8] for i in range(8)], timeout=3000)
    ctx.require_counter("payloads_packed", 100)
    ctx.require_counter("payloads_sparse", 100)
    ctx.require_counter("payloads_fill", 100)
    ctx.exhaustive = True
    ctx.extra["exhaustive_part"] = "first code unit: all 65536 values"
    if ctx.counters.get("opcodes_covered", 0) != 256:
        ctx.inconclusive("only %d opcodes covered" % ctx.counters.get("opcodes_covered", 0))
    ctx.require_counter("inpool_resolved", 100)
    ctx.require_counter("unused_rejected", 1)
