"""C07 DEX parsing does not depend on the order of the map list: every permutation of the map of tiny files, random permutations of larger ones."""
import itertools

from vf.checks.c05 import first_diff, real_dump
from vf.gen import classes as G
from vf.harness import exc_str
from vf.model import dexw as W

MOD = "vf.checks.c07"
TNAMES = {0: "header", 1: "string_id", 2: "type_id", 3: "proto_id", 4: "field_id", 5: "method_id", 6: "class_def", 0x1000: "map_list", 0x1001: "type_list",
          0x1003: "annotation_set", 0x2000: "class_data", 0x2001: "code", 0x2002: "string_data", 0x2003: "debug_info", 0x2004: "annotation", 0x2005: "encoded_array",
          0x2006: "annotations_directory"}


def ev_repr(cm, v, depth=0):
    """printable form of a real EncodedValue (for comparing two parses of the same content)"""
    x = v.get_value()
    t = v.get_value_type()
    if t == W.V_ARRAY:
        return [t, [ev_repr(cm, e, depth + 1) for e in x.get_values()]]
    if t == W.V_ANNOTATION:
        return [t, cm.get_type(x.get_type_idx()), [(cm.get_string(e.get_name_idx()), ev_repr(cm, e.get_value(), depth + 1)) for e in x.get_elements()]]
    return [t, repr(x)]


def full_dump(dx):
    d = real_dump(dx)
    cm = dx.get_class_manager()
    extra = []
    for c in dx.get_classes():
        anns = [[cm.get_type(a.get_type_idx()), [(cm.get_string(e.get_name_idx()), ev_repr(cm, e.get_value())) for e in a.get_elements()]] for a in c._get_annotation_type_ids()]
        inits = [(f.get_name(), None if f.get_init_value() is None else ev_repr(cm, f.get_init_value())) for f in c.get_fields()]
        dbg = []
        for mt in c.get_methods():
            if mt.get_code() is not None and mt.get_code().get_debug_info_off():
                try:
                    di = mt.get_debug()
                    dbg.append((mt.get_name(), di.get_line_start(), di.get_parameters_size(), list(di.get_parameter_names())))
                except Exception as e:
                    dbg.append((mt.get_name(), "raises", type(e).__name__))
        extra.append({"annotations": anns, "static_values": inits, "debug": dbg})
    return {"classes": d, "strings": [W.utf16_units(s) for s in dx.get_strings()], "extra": extra}


def tiny_models():
    m6 = W.DexModel()
    m6.add_class("Lp/A;", source=None)
    m7 = W.DexModel()
    m7.add_class("Lp/B;", interfaces=["Ljava/lang/Runnable;"], source="B.java")
    return [("6-entries", m6), ("7-entries", m7)]


def check_perm(ctx, dex, m, base, perm, label, orders_seen, parse_orders):
    data = W.write_dex(m, {"map_order": list(perm)})
    ctx.ev()
    ctx.count("permuted_files_parsed")
    log = []
    orig = dex.MapItem.parse

    def logged(self):
        log.append(int(self.get_type()))
        return orig(self)
    dex.MapItem.parse = logged
    try:
        try:
            dx = dex.DEX(data)
            got = full_dump(dx)
        except Exception as e:
            ctx.violation("permuted-map-raises", "a file with a permuted map list fails to parse", {"model": label, "perm": list(perm), "exc": exc_str(e), "dex": data.hex() if len(data) < 2500 else None})
            return
    finally:
        dex.MapItem.parse = orig
    orders_seen.add(tuple(perm))
    parse_orders.add(tuple(log))
    d = first_diff(base, got)
    if d:
        ctx.violation("permuted-map-differs", "parsed content changes when the map list is permuted", {"model": label, "perm": list(perm), "path": d[0], "want": d[1], "got": d[2],
                                                                                                        "dex": data.hex() if len(data) < 2500 else None})


def shard(ctx, arg):
    kind, a, b = arg
    from androguard.core import dex
    if kind == "tiny":
        label, m = tiny_models()[a]
        data0, w = W.write_dex(m, want_writer=True)
        n = len(w.map_entries)
        base = full_dump(dex.DEX(data0))
        perms = list(itertools.permutations(range(n)))
        part = perms[b::8]
        orders, porders = set(), set()
        for p in part:
            check_perm(ctx, dex, m, base, p, label, orders, porders)
        ctx.count("exhaustive_permutations_%s" % label, len(part))
        ctx.sig("tiny", label)
        ctx.extra.setdefault("distinct_parse_orders", []).extend(["%s:%s" % (label, "-".join(TNAMES.get(t, hex(t)) for t in po)) for po in porders])
        if b == 0:
            ctx.sample({"model": label, "map_types": [TNAMES.get(t, hex(t)) for t, _ in w.map_entries], "example_perm": list(part[1])})
    else:
        rng = ctx.rng("c07", a)
        for k in range(b):
            m = G.gen_model(rng, nclasses=rng.choice([1, 2, 3, 5]))
            if rng.random() < 0.7:
                G.enrich(rng, m)
            data0, w = W.write_dex(m, want_writer=True)
            n = len(w.map_entries)
            try:
                base = full_dump(dex.DEX(data0))
            except Exception as e:
                ctx.count("base_parse_failed")
                continue
            orders, porders = set(), set()
            ident = list(range(n))
            perms = [ident[::-1]] + [ident[i:] + ident[:i] for i in (1, n // 2)]
            for _ in range(6 if ctx.quick else 40):
                p = ident[:]
                rng.shuffle(p)
                perms.append(p)
            for p in perms:
                check_perm(ctx, dex, m, base, p, "random-model", orders, porders)
            ctx.maxi("max_distinct_parse_orders_per_file", len(porders))
            ctx.sig("rand", tuple(sorted(t for t, _ in w.map_entries)), len(m.classes))


def run(ctx):
    ctx.rule = ("map_list entries of generated DEX files permuted (checksum/signature recomputed): ALL permutations of a 6-entry and a 7-entry map (720 + 5040), "
                "reverse/rotations/random permutations of random class models; canonical dump (classes, members, flags, code bytes, strings) must equal the unpermuted file's. "
                "A wrapper on MapItem.parse logs the order in which section types are parsed. distinct non-trivial = distinct (set of map entry types, #classes)")
    ctx.assumptions = ["vf/model/dexw.py writes valid files; permuting map entries does not move any data"]
    args = [["tiny", 0, b] for b in range(8)] + [["tiny", 1, b] for b in range(8)]
    n = 96 if ctx.quick else 3200
    args += [["rand", i, n // 16] for i in range(16)]
    ctx.run_shards(MOD, "shard", args, timeout=3000)
    ctx.exhaustive = True
    ctx.extra["exhaustive_part"] = "all permutations of the 6- and 7-entry maps"
    ctx.extra["distinct_parse_orders"] = sorted(set(ctx.extra.get("distinct_parse_orders", [])))
    ctx.require_counter("permuted_files_parsed", 5760)
    ctx.min_distinct = 4
