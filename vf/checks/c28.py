"""C28 resource tables resolve to the values they contain (random table models -> independent ARSC writer -> ARSCParser).

Domain decisions (each can be challenged):
 * shapes are what aapt/aapt2 emit: global value pool first, then packages; per package type pool + key pool directly after the header,
   typeSpec before the type chunks of a type, entries 4-aligned in index order, every type chunk has at least one entry, package names
   distinct, key names unique inside a (package, type), one chunk per (type, configuration).
 * complex entries only occur in types that aapt makes complex (array, style, plurals, attr); string/integer/bool/color/dimen/id/drawable/...
   entries are plain or compact.
 * references between entries are acyclic here (cycles: C29) and point to ids present in the table; @null (data 0) is not generated.
 * get_res_configs(rid, config) / get_resolved_res_configs(rid, config) with an explicit configuration are only judged when that exact
   configuration is stored for rid and no reference has to be followed (which configuration a reference target is resolved in is a design
   choice of the tool, not part of the statement).  With config=None everything stored must come back.
 * get_id / get_resource_xml_name are only judged for ids that have an entry in the queried locale (default locale for xml names).
 * get_string is judged for string-typed (TYPE_STRING) values; when several configurations of one locale hold the key, any of them is accepted.
 * list results are compared as multisets; typed values are compared by value with vf.checks.c27.expected_ok.
 * the listing of type names per locale ignores androguard's extra "public" pseudo type.
Feature partition: at most one special feature per table (SPECIALS); special=None is plain/complex entries with 32-bit offsets, 64-byte configs,
one package, UTF-8 pools.
"""
from collections import Counter

from vf.checks import c27
from vf.harness import exc_str
from vf.model import arscw as R

MOD = "vf.checks.c28"

SPECIALS = [None, None, None, "compact-entries", "compact-string-entries", "sparse", "offset16", "compact+offset16", "locale-script", "small-config", "utf16-pools",
            "two-packages", "weak-flag", "shared-entries", "extra-chunks", "styled-strings", "header284", "big-index", "no-dedupe", "three-letter-locales",
            "long-strings", "unused-type-name", "non-default-only"]

SIMPLE_TYPES = ["string", "integer", "bool", "color", "dimen", "id", "drawable", "layout", "mipmap", "fraction", "raw", "xml"]
COMPLEX_TYPES = ["array", "style", "plurals", "attr"]
LOCALES = [("en", ""), ("de", ""), ("fr", "FR"), ("pt", "BR"), ("zh", "CN"), ("en", "GB"), ("ja", ""), ("es", "ES")]
LOCALES3 = [("fil", ""), ("es", "419"), ("haw", "US"), ("ast", ""), ("en", "001"), ("kok", "IN"), ("tzm", ""), ("zgh", "MA"), ("yue", "HK"), ("sah", ""), ("wae", "CH"), ("en", "987")]
DENSITIES = [120, 160, 213, 240, 320, 480, 640, 0xFFFE, 0xFFFF]
SDKS = [4, 21, 26, 31]
ID = "abcdefghijklmnopqrstuvwxyz_0123456789"
STR_ALPHA = list("abcdefghij XYZ0123456789<>&\"'%$.,:/-_\n") + ["é", "中", "Ж", "ß"]


def ident(rng):
    return rng.choice("abcdefghijklmnopqrstuvwxyz") + "".join(rng.choice(ID) for _ in range(rng.randrange(1, 12)))


def rstring(rng, long_=False):
    n = rng.choice((200, 127, 128, 129, 1000)) if long_ and rng.random() < 0.5 else rng.randrange(0, 30)
    return "".join(rng.choice(STR_ALPHA) for _ in range(n))


class Model:
    """res: {rid: [(Config, Entry)]} in file order; meta: {rid: (package, type, key)}"""

    def __init__(self):
        self.res = {}
        self.meta = {}
        self.order = []  # rids in creation order (references only point backwards => acyclic)


def simple_value(rng, tname, m, allow_ref, long_=False):
    if allow_ref and m.order and rng.random() < 0.15:
        return R.Value(R.T_REF, rng.choice(m.order))
    if tname in ("string", "drawable", "layout", "mipmap", "raw", "xml"):
        if tname == "string":
            return R.Value(R.T_STRING, string=rstring(rng, long_))
        return R.Value(R.T_STRING, string="res/%s/%s.%s" % (tname, ident(rng), rng.choice(("png", "xml", "webp"))))
    if tname == "integer":
        return R.Value(rng.choice((R.T_DEC, R.T_DEC, R.T_HEX)), rng.choice((0, 1, 42, 0xFFFFFFFF, 0x80000000, rng.getrandbits(32), rng.randrange(1000))))
    if tname == "bool" or tname == "id":
        return R.Value(R.T_BOOL, rng.choice((0, 0xFFFFFFFF)) if tname == "bool" else 0)
    if tname == "color":
        return R.Value(rng.choice((R.T_ARGB8, R.T_RGB8, R.T_ARGB4, R.T_RGB4)), rng.getrandbits(32))
    if tname == "dimen":
        return R.Value(R.T_DIM, (rng.getrandbits(32) & ~0xF) | rng.randrange(6)) if rng.random() < 0.9 else R.Value(R.T_FLOAT, 0x3F800000)
    if tname == "fraction":
        return R.Value(R.T_FRAC, (rng.getrandbits(32) & ~0xF) | rng.randrange(2))
    raise AssertionError(tname)


def complex_entry(rng, tname, key, m, long_=False):
    items = []
    parent = 0
    n = rng.choice((0, 1, 2, 3, 5))
    if tname == "array":
        for i in range(n):
            v = simple_value(rng, rng.choice(("string", "integer", "color")), m, True, long_)
            items.append((0x02000000 | i, v))
    elif tname == "plurals":
        for q in rng.sample([0x01000004, 0x01000005, 0x01000006, 0x01000007, 0x01000008, 0x01000009], min(n, 6)):
            items.append((q, simple_value(rng, "string", m, True, long_)))
    elif tname == "attr":
        items.append((0x01000000, R.Value(R.T_DEC, rng.choice((0x10000, 0x20000, 0xFFFF, 4)))))
        for i in range(n):
            items.append((0x7F010000 | rng.randrange(1, 200) << 4 | i, R.Value(R.T_DEC, i)))
    else:  # style
        styles = [r for r in m.order if m.meta[r][1] == "style"]
        if styles and rng.random() < 0.5:
            parent = rng.choice(styles)
        elif rng.random() < 0.2:
            parent = 0x01030005
        for i in range(n):
            t = rng.choice(("string", "integer", "color", "dimen", "bool"))
            items.append((rng.choice((0x01010000, 0x7F010000)) | rng.randrange(1, 0x300), simple_value(rng, t, m, True, long_)))
    return R.Entry(key, "complex", parent=parent, items=items)


def gen_configs(rng, special):
    size = 64
    if special == "small-config":
        size = rng.choice((28, 32, 36, 48, 52, 56))
    out = [R.Config(size=size)]
    seen = {out[0].key()}
    locs = LOCALES + (LOCALES3 if special == "three-letter-locales" else [])
    for _ in range(rng.choice((0, 1, 2, 3, 5, 7))):
        k = rng.random()
        lang, region = rng.choice(locs) if k < 0.6 else ("", "")
        if special == "three-letter-locales" and rng.random() < 0.6:
            lang, region = rng.choice(LOCALES3)
        c = R.Config(lang, region, density=rng.choice(DENSITIES) if rng.random() < 0.4 else 0, sdk=rng.choice(SDKS) if rng.random() < 0.3 else 0, size=size)
        if rng.random() < 0.15:
            c.orientation = rng.choice((1, 2))
        if rng.random() < 0.1 and size >= 32:
            c.sw_dp = rng.choice((320, 600, 720))
        if rng.random() < 0.05:
            c.mcc, c.mnc = 310, rng.choice((0, 4))
        if special == "locale-script" and size >= 48:
            if rng.random() < 0.7:
                c.lang, c.region = rng.choice((("sr", ""), ("zh", ""), ("sr", "RS")))
                c.script = rng.choice((b"Latn", b"Cyrl", b"Hans", b"Hant", b""))
                if rng.random() < 0.2:
                    c.variant = b"POSIX"
        if c.key() in seen:
            continue
        seen.add(c.key())
        out.append(c)
    if special == "non-default-only" and len(out) > 1 and rng.random() < 0.7:
        out = out[1:]
    return out


def gen_table(rng, special=None, force=None):
    m = Model()
    npk = 2 if special == "two-packages" else 1
    pids = [0x7F] + [rng.choice((0x7E, 0x02, 0x10, 0x01))]
    packages = []
    used_names = set()
    long_ = special == "long-strings"
    for pi in range(npk):
        while True:
            pname = ".".join(ident(rng) for _ in range(rng.choice((2, 3))))
            if pname not in used_names:
                break
        used_names.add(pname)
        pid = pids[pi]
        tnames = rng.sample(SIMPLE_TYPES, rng.randrange(1, 5)) + rng.sample(COMPLEX_TYPES, rng.randrange(0, 3))
        rng.shuffle(tnames)
        types = []
        for tid0, tname in enumerate(tnames):
            tid = tid0 + 1
            n = rng.choice((1, 2, 3, 5, 8, 12))
            if special == "big-index":
                n = rng.choice((300, 700, 2000))
            keys = []
            while len(keys) < n:
                k = "%s_%s" % (tname[:3], ident(rng)) if rng.random() < 0.8 else ident(rng)
                if k not in keys:
                    keys.append(k)
            collapsed = set()
            if special == "shared-entries" and n >= 2:
                # aapt2 --collapse-resource-names + --deduplicate-entry-values: several ids carry the same key name and, where their values are equal,
                # the slots of the offset array point at ONE stored entry
                collapsed = set(rng.sample(range(n), rng.randrange(2, n + 1)))
                for i in collapsed:
                    keys[i] = "0_resource_name_obfuscated"
            configs = gen_configs(rng, special)
            layout_of = {}
            chunks = []
            present_any = set()
            for ci, cfg in enumerate(configs):
                p_present = 0.85 if ci == 0 else rng.choice((0.2, 0.5, 0.9))
                if special == "big-index":
                    p_present = rng.choice((0.01, 0.05))
                idxs = [i for i in range(n) if rng.random() < p_present]
                if not idxs:
                    idxs = [rng.randrange(n)]
                layout = "normal"
                if special == "sparse" or (special == "big-index" and rng.random() < 0.7):
                    layout = "sparse" if rng.random() < 0.8 else "normal"
                elif special in ("offset16", "compact+offset16"):
                    layout = "off16" if rng.random() < 0.8 else "normal"
                entries = {}
                for i in idxs:
                    rid = (pid << 24) | (tid << 16) | i
                    if tname in COMPLEX_TYPES:
                        e = complex_entry(rng, tname, keys[i], m, long_)
                    else:
                        kind = "plain"
                        if special in ("compact-entries", "compact+offset16") and rng.random() < 0.7:
                            kind = "compact"
                        if special == "compact-string-entries" and rng.random() < 0.7 and tname in ("string", "drawable", "layout", "mipmap", "raw", "xml"):
                            kind = "compact"
                        v = simple_value(rng, tname, m, kind == "plain" or special != "compact-string-entries", long_)
                        if special == "compact-string-entries" and kind == "compact" and v.dtype != R.T_STRING:
                            kind = "plain"
                        e = R.Entry(keys[i], kind, value=v)
                    e.public = rng.random() < 0.2
                    if i in collapsed:
                        first = [entries[j] for j in sorted(collapsed) if j in entries]
                        if first and rng.random() < 0.8:
                            e = first[0]  # the same entry: identical bytes, shared by the writer
                    if special == "weak-flag":
                        e.weak = rng.random() < 0.5
                    entries[i] = e
                    present_any.add(i)
                chunks.append(R.TypeChunk(cfg, entries, layout, share_identical=(special == "shared-entries")))
            # register after the whole type is built so that references only point to earlier types/entries (acyclic)
            for c in chunks:
                for i, e in c.entries.items():
                    rid = (pid << 24) | (tid << 16) | i
                    m.res.setdefault(rid, []).append((c.config, e))
                    m.meta[rid] = (pname, tname, keys[i])
            for i in sorted(present_any):
                m.order.append((pid << 24) | (tid << 16) | i)
            flags = [(R.SPEC_PUBLIC if rng.random() < 0.2 else 0) | rng.choice((0, 0x4, 0x100, 0x104, 0x400)) for _ in range(n)]
            types.append(R.ResType(tname, n, chunks, flags))
        pk = R.Package(pid, pname, types, header_size=284 if special == "header284" else 288,
                       utf8_types=special != "utf16-pools", utf8_keys=special != "utf16-pools")
        if special == "extra-chunks":
            pk.pre_chunks = [R.library_chunk([(0x02, "com.shared.lib")])]
            pk.extra_chunks = [R.chunk(R.RES_TABLE_OVERLAYABLE_TYPE, b"\0" * 512, b""), R.chunk(R.RES_TABLE_STAGED_ALIAS_TYPE, R.struct.pack("<I", 1), R.struct.pack("<II", 0x7F010000, 0x7F010001))]
        if special == "unused-type-name":
            pk.unused_type_names = ["transition", "font"]
        packages.append(pk)
    table = R.Table(packages, utf8=special != "utf16-pools", dedupe=special != "no-dedupe",
                    extra_strings=[rstring(rng) for _ in range(rng.choice((0, 0, 2)))])
    if special == "styled-strings":
        table.styled = [("bold text %d" % i, [("b", 0, 3)] + ([("i", 5, 8)] if i % 2 else [])) for i in range(rng.randrange(1, 4))]
    m.table = table
    m.special = special
    return m


# ---------------------------------------------------------------------------------------------------------------------
# oracle helpers
# ---------------------------------------------------------------------------------------------------------------------
def cfg_words(c):
    """the identity of a configuration as the words of ResTable_config (computed from the model, not from androguard)"""
    lb = R.pack_lang_region(c.lang, "a") + R.pack_lang_region(c.region, "0")
    return {"imsi": c.mcc | (c.mnc << 16), "locale": int.from_bytes(lb, "little"), "screenType": c.orientation | (c.density << 16), "version": c.sdk,
            "screenConfig": c.screen_layout | (c.ui_mode << 8) | (c.sw_dp << 16), "screenSizeDp": c.w_dp | (c.h_dp << 16)}


def real_cfg_key(rc):
    return (rc.imsi, rc.locale, rc.screenType, rc.version, rc.screenConfig, rc.screenSizeDp, bytes(getattr(rc, "localeScript", b"") or b"").rstrip(b"\0"),
            bytes(getattr(rc, "localeVariant", b"") or b"").rstrip(b"\0"))


def model_cfg_key(c):
    w = cfg_words(c)
    script = bytes(c.script) if c.size >= 40 else b""
    variant = bytes(c.variant) if c.size >= 48 else b""
    return (w["imsi"], w["locale"], w["screenType"], w["version"], w["screenConfig"], w["screenSizeDp"], script, variant)


def locale_str(c):
    return c.locale_tag() or "\x00\x00"


def leaf_ok(v, got, strings_ok=True):
    """v: model Value (non reference); got: printed string -> None | mechanism"""
    if not isinstance(got, str):
        return "value-not-a-string"
    if v.dtype == R.T_STRING:
        return None if got == v.string else "string-value"
    if v.dtype in (R.T_NULL,):
        return None
    return c27.expected_ok(v.dtype, v.data & 0xFFFFFFFF, got)


def stored_entries(m, rid, defects=()):
    """[(cfgkey, Entry)] as stored; with the modelled defect 'script' configurations that differ only in localeScript/localeVariant share one
    dictionary slot: first key, last value"""
    lst = [(model_cfg_key(c), e) for c, e in m.res.get(rid, [])]
    if "script" not in defects:
        return lst
    slots = {}
    for ck, e in lst:
        if ck[:6] in slots:
            slots[ck[:6]] = (slots[ck[:6]][0], e)
        else:
            slots[ck[:6]] = (ck, e)
    return list(slots.values())


def expected_resolution(m, rid, defects=(), pool=(), depth=0):
    """-> list of (cfgkey, leaf) where leaf = Value (plain/compact) or list of Values/nested tuples (complex), config=None semantics.
    defects: modelled known defects for the explain-away re-run: 'compact' (data of a compact entry is looked up as a string index whatever its
    type, references in compact entries are not followed), 'script' (see stored_entries)"""
    out = []
    if depth > 50:
        return out
    for ck, e in stored_entries(m, rid, defects):
        if e.kind == "complex":
            arr = []
            for name, v in e.items:
                if v.dtype == R.T_REF:
                    if v.data:
                        arr.extend(expected_resolution(m, v.data, defects, pool, depth + 1))
                else:
                    arr.append(v)
            out.append((ck, arr))
        else:
            v = e.value
            if e.kind == "compact" and "compact" in defects:
                d = v.data & 0xFFFFFFFF
                out.append((ck, R.Value(R.T_STRING, d, pool[d] if d < len(pool) else "")))
            elif v.dtype == R.T_REF:
                if v.data:
                    out.extend(expected_resolution(m, v.data, defects, pool, depth + 1))
            else:
                out.append((ck, v))
    return out


def match_resolution(want, got):
    """compare expected_resolution output with androguard's result (multiset matching) -> None | (mechanism-suffix, detail)"""
    got = list(got)
    for ck, leaf in want:
        found = None
        why = "missing"
        for i, g in enumerate(got):
            if not (isinstance(g, tuple) and len(g) == 2 and hasattr(g[0], "locale")):
                continue
            if real_cfg_key(g[0]) != ck:
                continue
            if isinstance(leaf, list):
                if not isinstance(g[1], list):
                    why = "complex-not-a-list"
                    continue
                r = match_items(leaf, g[1])
                if r is None:
                    found = i
                    break
                why = r
            else:
                r = leaf_ok(leaf, g[1])
                if r is None:
                    found = i
                    break
                why = r
        if found is None:
            return why, {"config": repr(ck), "want": describe(leaf)}
        got.pop(found)
    if got:
        return "unexpected-extra-value", {"extra": [repr(g)[:200] for g in got[:3]]}
    return None


def match_items(want, got):
    got = list(got)
    orig = list(range(len(got)))
    pos = []      # position (in the reported list) of the element matched to each wanted item
    for w in want:
        found = None
        why = "complex-item-missing"
        for i, g in enumerate(got):
            if isinstance(w, tuple):  # nested resolution result (cfgkey, leaf)
                if isinstance(g, tuple) and len(g) == 2 and hasattr(g[0], "locale") and real_cfg_key(g[0]) == w[0]:
                    if isinstance(w[1], list):
                        if isinstance(g[1], list) and match_items(w[1], g[1]) is None:
                            found = i
                            break
                    elif leaf_ok(w[1], g[1]) is None:
                        found = i
                        break
            else:
                if isinstance(g, str):
                    r = leaf_ok(w, g)
                    if r is None:
                        found = i
                        break
                    why = "complex-item-" + r
        if found is None:
            return why
        got.pop(found)
        pos.append(orig.pop(found))
    if got:
        return "complex-item-unexpected"
    # the items of a bag are a SEQUENCE (array slots): a literal keeps its place, the values a reference resolves to stand where the reference stood
    # (the values of one reference - one per configuration of its target - may come in any order among themselves)
    groups = []
    for w, p_ in zip(want, pos):
        if isinstance(w, tuple) and groups and groups[-1][0]:
            groups[-1][1].append(p_)
        else:
            groups.append((isinstance(w, tuple), [p_]))
    for (_, a), (_, b) in zip(groups, groups[1:]):
        if max(a) > min(b):
            return "complex-items-out-of-order"
    return None


def reaches_nonstring_compact(m, rid, seen=None):
    """does the resolution of rid touch a compact entry whose data type is not TYPE_STRING?"""
    seen = seen if seen is not None else set()
    if rid in seen:
        return False
    seen.add(rid)
    for _, e in m.res.get(rid, []):
        vals = [v for _, v in e.items] if e.kind == "complex" else [e.value]
        if e.kind == "compact" and e.value.dtype != R.T_STRING:
            return True
        for v in vals:
            if v.dtype == R.T_REF and v.data and reaches_nonstring_compact(m, v.data, seen):
                return True
    return False


def reaches_script_collision(m, rid, seen=None):
    """does the resolution of rid touch an id that has two configurations differing only in localeScript / localeVariant?"""
    seen = seen if seen is not None else set()
    if rid in seen:
        return False
    seen.add(rid)
    keys = [model_cfg_key(c) for c, _ in m.res.get(rid, [])]
    if len(set(k[:6] for k in keys)) < len(keys):
        return True
    for _, e in m.res.get(rid, []):
        for v in ([v for _, v in e.items] if e.kind == "complex" else [e.value]):
            if v.dtype == R.T_REF and v.data and reaches_script_collision(m, v.data, seen):
                return True
    return False


def describe(leaf):
    if isinstance(leaf, list):
        return [describe(x) for x in leaf]
    if isinstance(leaf, tuple):
        return [repr(leaf[0]), describe(leaf[1])]
    return {"type": "0x%02x" % leaf.dtype, "data": "%08x" % (leaf.data & 0xFFFFFFFF), "string": leaf.string}


def entry_features(e, chunk_layout):
    return "%s/%s" % (e.kind, chunk_layout)


# ---------------------------------------------------------------------------------------------------------------------
# the check of one table
# ---------------------------------------------------------------------------------------------------------------------
def check_table(ctx, m, idx):
    from androguard.core.axml import ARSCParser
    sp = m.special or "base"
    data = R.build(m.table)
    R.selfcheck(m.table, data)
    wit = {"case": idx, "special": m.special, "packages": [(p.name, hex(p.pid)) for p in m.table.packages]}
    if len(data) < 3000:
        wit["arsc_hex"] = data.hex()
    else:
        wit["arsc_len"] = len(data)
    pool_strings = R.read_back(data)["strings"]
    layout_of = {}
    for p in m.table.packages:
        for tid0, t in enumerate(p.types):
            for c in t.chunks:
                for i in c.entries:
                    layout_of[((p.pid << 24) | ((tid0 + 1) << 16) | i, model_cfg_key(c.config))] = c.layout
    ctx.ev()
    ctx.count("ARSCParser")
    try:
        a = ARSCParser(data)
        names = a.get_packages_names()
    except Exception as e:
        ctx.violation("parser-raises-%s-%s" % (type(e).__name__, sp), "ARSCParser raises on a well-formed table", dict(wit, exc=exc_str(e)))
        return

    def bad(mech, what, **kw):
        ctx.violation(mech, what, dict(wit, **kw))

    def q(name, fn):
        ctx.ev()
        ctx.count("queries")
        try:
            return fn()
        except RecursionError:
            raise
        except Exception as e:
            bad("%s-raises-%s-%s" % (name, type(e).__name__, sp), "%s raises" % name, exc=exc_str(e))
            return KeyError

    if names != [p.name for p in m.table.packages]:
        bad("package-names-%s" % sp, "get_packages_names differs", got=names, want=[p.name for p in m.table.packages])
        return
    for p in m.table.packages:
        locs = {}
        for tid0, t in enumerate(p.types):
            for c in t.chunks:
                locs.setdefault(locale_str(c.config), set()).add(t.name)
        g = q("get_locales", lambda: a.get_locales(p.name))
        if g is KeyError:
            return
        if sorted(g) != sorted(locs):
            three = any(len(x.split("-r")[0]) == 3 or len(x.split("-r")[-1]) == 3 for x in locs if x != "\x00\x00")
            bad("locales-%s" % ("three-letter" if three and sp == "three-letter-locales" else sp), "get_locales differs from the locales of the type chunks", got=sorted(g), want=sorted(locs))
            continue
        if len(data) % 2 == 0:
            # lookups with locales the table does not have (whatever they answer) must not change what the table lists afterwards
            for miss in (lambda: a.get_string(p.name, "no_such_key__", "qq"), lambda: a.get_id(p.name, (p.pid << 24) | 0x10000, "qq-rQQ"),
                         lambda: a.get_types(p.name, "qx"), lambda: a.get_string_resources(p.name, "qy"), lambda: a.get_public_resources(p.name, "qz"),
                         lambda: a.get_bool_resources(p.name, "qw"), lambda: a.get_res_id_by_key(p.name, "string", "no_such_key__")):
                ctx.count("lookups_with_absent_locale")
                try:
                    miss()
                except Exception:
                    pass
            g = q("get_locales", lambda: a.get_locales(p.name))
            if g is not KeyError and sorted(g) != sorted(locs):
                bad("locales-change-after-lookup-with-absent-locale", "get_locales lists a locale that was only ever asked for", got=sorted(g), want=sorted(locs))
                continue
        for loc, tn in locs.items():
            g = q("get_types", lambda: a.get_types(p.name, loc))
            if g is not KeyError and set(g) - {"public"} != tn:
                bad("types-%s" % sp, "get_types differs from the types that have entries in this locale", locale=loc, got=sorted(g), want=sorted(tn))
        # key -> id
        for tid0, t in enumerate(p.types):
            keys = {}
            for c in t.chunks:
                for i, e in c.entries.items():
                    keys[e.key] = (p.pid << 24) | ((tid0 + 1) << 16) | i
            dup = Counter(k for k, _ in set((e.key, i) for c in t.chunks for i, e in c.entries.items()))
            for k, rid in list(keys.items())[:20]:
                if dup[k] > 1:
                    continue  # collapsed names: the key does not identify one id
                g = q("get_res_id_by_key", lambda: a.get_res_id_by_key(p.name, t.name, k))
                if g is not KeyError and g != rid:
                    lay = sorted(set(c.layout for c in t.chunks))
                    bad("key-to-id-%s" % sp, "get_res_id_by_key differs", type=t.name, key=k, got=g, want=rid, layouts=lay)
                    break
            g = q("get_res_id_by_key", lambda: a.get_res_id_by_key(p.name, t.name, "no_such_key__"))
            if g is not KeyError and g is not None:
                bad("key-to-id-absent-%s" % sp, "get_res_id_by_key finds a key that does not exist", got=g)
            # strings
            if t.name == "string":
                per = {}
                skip = set()
                for c in t.chunks:
                    for i, e in c.entries.items():
                        if e.value.dtype == R.T_STRING:
                            per.setdefault((e.key, locale_str(c.config)), []).append((e.value.string, e.kind))
                        else:
                            skip.add((e.key, locale_str(c.config)))  # a string alias (reference) in one configuration of this locale: don't-care
                for k in skip:
                    per.pop(k, None)
                for (k, loc), vals in list(per.items())[:30]:
                    g = q("get_string", lambda: a.get_string(p.name, k, loc))
                    if g is KeyError:
                        continue
                    if not (isinstance(g, (list, tuple)) and len(g) == 2 and g[0] == k and g[1] in [v[0] for v in vals]):
                        kinds = sorted(set(v[1] for v in vals))
                        bad("get-string-%s-%s" % ("+".join(kinds), sp), "get_string differs from the stored string", key=k, locale=loc, got=g, want=[v[0] for v in vals])
                        break
    # per resource id
    rids = list(m.res)
    for rid in rids:
        pname, tname, key = m.meta[rid]
        stored = m.res[rid]
        kinds = sorted(set(e.kind for _, e in stored))
        layouts = sorted(set(layout_of[(rid, model_cfg_key(c))] for c, _ in stored))
        enc = "%s-%s" % ("+".join(kinds), "+".join(layouts))
        g = q("get_res_configs", lambda: a.get_res_configs(rid))
        if g is KeyError:
            continue
        want_keys = Counter(model_cfg_key(c) for c, _ in stored)
        got_keys = Counter(real_cfg_key(c) for c, _ in g)
        if got_keys != want_keys:
            if got_keys == Counter(ck for ck, _ in stored_entries(m, rid, ("script",))):
                bad("configs-differing-only-in-locale-script-or-variant-collapsed", "configurations that differ only in localeScript/localeVariant are merged into one",
                    rid="%08x" % rid, got=len(got_keys), want=len(want_keys))
            else:
                bad("res-configs-%s-%s" % (enc, sp), "get_res_configs(rid): the set of configurations differs from the stored ones", rid="%08x" % rid,
                    got=sorted(map(repr, got_keys)), want=sorted(map(repr, want_keys)))
            continue
        by_key = {model_cfg_key(c): (c, e) for c, e in stored}
        entry_bad = False
        for rc, ate in g:
            c, e = by_key[real_cfg_key(rc)]
            ctx.count("entries_checked")
            try:
                problems = []
                if rc.get_language_and_region() != locale_str(c):
                    problems.append(("locale", rc.get_language_and_region(), locale_str(c)))
                if rc.get_density() != c.density:
                    problems.append(("density", rc.get_density(), c.density))
                if ate.mResId != rid:
                    problems.append(("mResId", ate.mResId, rid))
                if ate.get_value() != e.key:
                    problems.append(("key", ate.get_value(), e.key))
                if (ate.is_complex(), ate.is_compact(), ate.is_public(), ate.is_weak()) != (e.kind == "complex", e.kind == "compact", e.public, e.weak):
                    problems.append(("flags", (ate.is_complex(), ate.is_compact(), ate.is_public(), ate.is_weak()), (e.kind, e.public, e.weak)))
                elif e.kind == "plain":
                    if (ate.key.get_data_type(), ate.key.get_data()) != (e.value.dtype, e.value.data & 0xFFFFFFFF):
                        problems.append(("value", (ate.key.get_data_type(), ate.key.get_data()), (e.value.dtype, e.value.data)))
                    elif e.value.dtype == R.T_STRING and ate.key.get_data_value() != e.value.string:
                        problems.append(("string", ate.key.get_data_value(), e.value.string))
                elif e.kind == "compact":
                    if (ate.datatype, ate.data) != (e.value.dtype, e.value.data & 0xFFFFFFFF):
                        problems.append(("compact-value", (ate.datatype, ate.data), (e.value.dtype, e.value.data)))
                else:
                    gi = [(n, v.get_data_type(), v.get_data()) for n, v in ate.item.items]
                    wi = [(n & 0xFFFFFFFF, v.dtype, v.data & 0xFFFFFFFF) for n, v in e.items]
                    if ate.item.id_parent != e.parent or gi != wi:
                        problems.append(("complex", (ate.item.id_parent, gi), (e.parent, wi)))
            except Exception as ex:
                problems = [("exception", exc_str(ex), None)]
            if problems:
                bad("entry-%s-%s-%s" % (problems[0][0], enc, sp), "get_res_configs(rid): the entry differs from the stored one", rid="%08x" % rid, problems=problems)
                entry_bad = True
                break
        if entry_bad:
            continue
        # resolution, all configurations
        want = expected_resolution(m, rid)
        has_ref = any((e.kind != "complex" and e.value.dtype == R.T_REF) or (e.kind == "complex" and any(v.dtype == R.T_REF for _, v in e.items)) for _, e in stored)
        g = q("get_resolved_res_configs", lambda: a.get_resolved_res_configs(rid))
        if g is not KeyError:
            r = match_resolution(want, g)
            if r:
                # explain-away re-run: a known mechanism is named only if the result is EXACTLY what that defect alone produces
                if reaches_nonstring_compact(m, rid) and match_resolution(expected_resolution(m, rid, ("compact",), pool_strings), g) is None:
                    mech = "compact-entry-non-string-value-resolved-as-string-index"
                elif reaches_script_collision(m, rid) and match_resolution(expected_resolution(m, rid, ("script",), pool_strings), g) is None:
                    mech = "configs-differing-only-in-locale-script-or-variant-collapsed"
                elif has_ref:
                    mech = "resolve-through-reference-%s-%s-%s" % (r[0], enc, sp)
                else:
                    mech = "resolve-%s-%s-%s" % (r[0], enc, sp)
                bad(mech, "get_resolved_res_configs(rid) does not return exactly the stored values", rid="%08x" % rid, type=tname, diff=r[1], got=[repr(x)[:160] for x in g[:6]])
                continue
        # resolution with an explicit configuration (only direct values)
        if not has_ref and len(stored) <= 8:
            from androguard.core.axml import ARSCResTableConfig
            for c, e in stored:
                rc = [x for x, _ in a.get_res_configs(rid) if real_cfg_key(x) == model_cfg_key(c)][0]
                g = q("get_resolved_res_configs(config)", lambda: a.get_resolved_res_configs(rid, rc))
                if g is KeyError:
                    break
                w1 = [x for x in want if x[0] == model_cfg_key(c)]
                r = match_resolution(w1, g)
                if r and not (e.kind == "compact" and e.value.dtype != R.T_STRING):
                    bad("resolve-with-config-%s-%s-%s" % (r[0], enc, sp), "get_resolved_res_configs(rid, config) does not return the value stored for that configuration",
                        rid="%08x" % rid, config=repr(model_cfg_key(c)), diff=r[1], got=[repr(x)[:160] for x in g[:6]])
                    break
        # ONE caller-built configuration object, re-targeted with set_language_and_region between the queries (configurations that differ from the
        # default in their locale only): each query answers for the locale the object carries at that moment
        if not has_ref and len(stored) <= 8:
            pure = [(c, e) for c, e in stored if c.lang and model_cfg_key(c)[0] == 0 and model_cfg_key(c)[2:] == (0, 0, 0, 0, b"", b"")]
            if len(pure) >= 2:
                cfg = None
                for c, e in pure[:4] + pure[:1]:
                    if cfg is None:
                        cfg = ARSCResTableConfig(None, locale=c.locale_tag())
                    else:
                        cfg.set_language_and_region(c.locale_tag())
                    g = q("get_resolved_res_configs(re-targeted config)", lambda: a.get_resolved_res_configs(rid, cfg))
                    if g is KeyError:
                        break
                    ctx.count("queries_with_a_retargeted_config_object")
                    w1 = [x for x in want if x[0] == model_cfg_key(c)]
                    r = match_resolution(w1, g)
                    if r and not (e.kind == "compact" and e.value.dtype != R.T_STRING):
                        bad("resolve-with-retargeted-config-%s-%s" % (r[0], sp), "get_resolved_res_configs(rid, config): a configuration object whose locale was set again "
                            "answers for an earlier locale", rid="%08x" % rid, locale_now=c.locale_tag(), locales_in_order=[x.locale_tag() for x, _ in pure[:4] + pure[:1]],
                            diff=r[1], got=[repr(x)[:160] for x in g[:6]])
                        break
        # names
        locs_here = set(locale_str(c) for c, _ in stored)
        for loc in sorted(locs_here)[:3]:
            g = q("get_id", lambda: a.get_id(pname, rid, loc))
            if g is not KeyError and tuple(g) != (tname, key, rid):
                bad("get-id-%s-%s" % (enc, sp), "get_id(package, rid, locale) differs", rid="%08x" % rid, locale=loc, got=g, want=(tname, key, rid))
                break
        if "\x00\x00" in locs_here:
            g = q("get_resource_xml_name", lambda: a.get_resource_xml_name(rid))
            if g is not KeyError and g != "@%s:%s/%s" % (pname, tname, key):
                bad("xml-name-%s-%s" % (enc, sp), "get_resource_xml_name(rid) differs", rid="%08x" % rid, got=g, want="@%s:%s/%s" % (pname, tname, key))
            g = q("get_resource_xml_name", lambda: a.get_resource_xml_name(rid, pname))
            if g is not KeyError and g != "@%s/%s" % (tname, key):
                bad("xml-name-in-package-%s-%s" % (enc, sp), "get_resource_xml_name(rid, package) differs", rid="%08x" % rid, got=g, want="@%s/%s" % (tname, key))
    ctx.count("cases_" + sp)
    kinds = Counter(e.kind for lst in m.res.values() for _, e in lst)
    ctx.sig(m.special, len(m.table.packages), tuple(sorted(t.name for p in m.table.packages for t in p.types)), min(len(m.res), 20),
            tuple(sorted(kinds)), max(len(v) for v in m.res.values()))


def model_of(table, special):
    m = Model()
    for p in table.packages:
        for tid0, t in enumerate(p.types):
            for c in t.chunks:
                for i, e in c.entries.items():
                    rid = (p.pid << 24) | ((tid0 + 1) << 16) | i
                    m.res.setdefault(rid, []).append((c.config, e))
                    m.meta[rid] = (p.name, t.name, e.key)
    m.table, m.special = table, special
    return m


def fixed_cases():
    """small hand-made tables, one per entry encoding / structural feature, so each is exercised in every run with a short witness"""
    out = []
    S = lambda s: R.Value(R.T_STRING, string=s)
    # plain string + integer, two locales
    t = R.Table([R.Package(0x7F, "com.fixed.a", [
        R.ResType("string", 2, [R.TypeChunk(R.Config(), {0: R.Entry("app_name", value=S("App")), 1: R.Entry("hello", value=S("Hello"))}),
                                R.TypeChunk(R.Config("de"), {1: R.Entry("hello", value=S("Hallo"))})]),
        R.ResType("integer", 1, [R.TypeChunk(R.Config(), {0: R.Entry("answer", value=R.Value(R.T_DEC, 42))})])])])
    out.append((t, None))
    # compact entries: a string and an integer (aapt2 --enable-compact-entries)
    t = R.Table([R.Package(0x7F, "com.fixed.b", [
        R.ResType("string", 1, [R.TypeChunk(R.Config(), {0: R.Entry("app_name", "compact", value=S("App"))}, layout="off16")]),
        R.ResType("integer", 1, [R.TypeChunk(R.Config(), {0: R.Entry("answer", "compact", value=R.Value(R.T_DEC, 42))}, layout="off16")])])])
    out.append((t, "compact+offset16"))
    # sparse
    t = R.Table([R.Package(0x7F, "com.fixed.c", [
        R.ResType("string", 40, [R.TypeChunk(R.Config(), {3: R.Entry("s3", value=S("three")), 17: R.Entry("s17", value=S("seventeen")), 39: R.Entry("s39", value=S("last"))}, layout="sparse")])])])
    out.append((t, "sparse"))
    # two configurations that differ only in the locale script (values-b+sr+Latn vs values-sr)
    t = R.Table([R.Package(0x7F, "com.fixed.d", [
        R.ResType("string", 1, [R.TypeChunk(R.Config(), {0: R.Entry("hello", value=S("Hello"))}),
                                R.TypeChunk(R.Config("sr"), {0: R.Entry("hello", value=S("Здраво"))}),
                                R.TypeChunk(R.Config("sr", script=b"Latn"), {0: R.Entry("hello", value=S("Zdravo"))})])])])
    out.append((t, "locale-script"))
    # bag with parent and a reference item
    t = R.Table([R.Package(0x7F, "com.fixed.e", [
        R.ResType("color", 1, [R.TypeChunk(R.Config(), {0: R.Entry("accent", value=R.Value(R.T_ARGB8, 0xFF336699))})]),
        R.ResType("style", 2, [R.TypeChunk(R.Config(), {0: R.Entry("Base", "complex", items=[(0x01010098, R.Value(R.T_REF, 0x7F010000))]),
                                                        1: R.Entry("Derived", "complex", parent=0x7F020000, items=[(0x01010095, R.Value(R.T_DIM, 0x00000E01)), (0x01010098, R.Value(R.T_REF, 0x7F010000))])})])])])
    out.append((t, None))
    return [model_of(t, sp) for t, sp in out]


def shard(ctx, arg):
    lo, hi = arg
    for i in range(lo, hi):
        rng = ctx.rng("c28", i)
        special = rng.choice(SPECIALS)
        m = gen_table(rng, special)
        check_table(ctx, m, i)
        if i % 97 == 0:
            ctx.sample({"case": i, "special": special, "packages": [(p.name, hex(p.pid), [(t.name, t.entry_count, [(c.config.locale_tag(), c.config.density, c.config.sdk, c.layout, len(c.entries)) for c in t.chunks]) for t in p.types]) for p in m.table.packages]})


def replay(ctx, path):
    """re-run the cases named in a replay file (cases are pure functions of (seed, case index); 'fixedN' are the hand-made ones)"""
    import json
    with open(path) as f:
        j = json.load(f)
    ctx.seed = j.get("seed", ctx.seed)
    ctx.rule = "replay of %s" % path
    fixed = fixed_cases()
    for w in j["witnesses"]:
        c = w.get("case")
        if isinstance(c, int):
            rng = ctx.rng("c28", c)
            m = gen_table(rng, rng.choice(SPECIALS))
        elif isinstance(c, str) and c.startswith("fixed"):
            m = fixed[int(c[5:])]
        else:
            continue
        check_table(ctx, m, c)
        ctx.sig("replay", c)
        ctx.sample({"replayed_case": c})
    ctx.min_distinct = 1


def run(ctx):
    ctx.rule = ("random table models: 1-2 packages, 1-7 types (string, integer, bool, color, dimen, fraction, id, file types; array/style/plurals/attr as bags "
                "with parent), 1-8 configurations per type (locales incl. packed 3-letter, densities, sdk, orientation, mcc/mnc, sw dp, script/variant; config "
                "sizes 28..64), entries plain / complex / compact, offsets 32-bit / sparse / 16-bit, NO_ENTRY holes, public/weak flags, acyclic references "
                "between entries (also from bag items), UTF-8/UTF-16 pools, styled strings, library/overlayable chunks -> vf.model.arscw (self-checked by its "
                "independent reader) -> ARSCParser; every listing and every resource id compared with the model. At most one special feature per table. "
                "distinct non-trivial = distinct (special, #packages, type names, #ids, entry kinds, max configs per id)")
    ctx.assumptions = ["aapt/aapt2 chunk order and alignment; complex entries only in bag types; acyclic references to ids inside the table",
                       "explicit-configuration queries judged only for stored configurations without references",
                       "typed values compared by value (vf.checks.c27.expected_ok); lists as multisets",
                       "trusted base: vf.model.arscw (round-tripped through its own reader, which also reads every shipped resources.arsc)"]
    for i, m in enumerate(fixed_cases()):
        check_table(ctx, m, "fixed%d" % i)
    n = 640 if ctx.quick else 160000
    per = n // 16
    ctx.run_shards(MOD, "shard", [[k * per, (k + 1) * per] for k in range(16)], timeout=1500)
    ctx.require_counter("ARSCParser", 200)
    ctx.require_counter("queries", 5000)
    ctx.require_counter("entries_checked", 2000)
    ctx.require_counter("cases_base", 30)
    ctx.require_counter("queries_with_a_retargeted_config_object", 100)
    ctx.min_distinct = 50
