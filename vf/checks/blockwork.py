"""Shared workload for C08 (try tables), C10 (basic-block partition), C11 (CFG successors), C12 (exception info), C40 (offset agreement):
generated methods (vf/gen/cfg.py) inside real DEX files and every method of the shipped DEX files, real Analysis(DEX) ->
MethodAnalysis.get_basic_blocks(); oracles computed from the raw code units by an independent reference CFG builder."""
import glob
import os

from vf.gen import cfg
from vf.harness import exc_str
from vf.model import dalvik as D

MOD = "vf.checks.blockwork"
RETURN_THROW = {"return-void", "return", "return-wide", "return-object", "throw"}


class Ref:
    pass


def payload_targets(units, poff):
    ident = units[poff]
    n = units[poff + 1]
    if ident == D.PAYLOAD_PACKED:
        base = poff + 4
    elif ident == D.PAYLOAD_SPARSE:
        base = poff + 2 + 2 * n
    else:
        return None
    return [D.sx(units[base + 2 * i] | (units[base + 2 * i + 1] << 16), 32) for i in range(n)]


def ref_cfg(units, tries):
    """units: code units; tries: [(start_unit, count_units, [(type, addr_unit)], catch_all_unit|None)]. -> Ref (all offsets in bytes)"""
    r = Ref()
    sw = D.sweep(units)
    r.instr = [(2 * o, 2 * n, ("payload" if isinstance(d, tuple) else d.name)) for o, n, d in sw]
    r.offsets = {o for o, l, n in r.instr}
    r.size = 2 * len(units)
    r.terminators = {}
    r.special = {}
    # don't-care area: blocks containing a payload pseudo-instruction (data, wherever it lies) and everything from the trailing run of
    # nop padding / payloads at the end of the code on
    r.payload_offsets = {o for o, l, n in r.instr if n == "payload"}
    r.trailing_start = r.size
    for o, l, n in reversed(r.instr):
        if n == "payload" or (n == "nop" and r.trailing_start != r.size):
            r.trailing_start = o
        else:
            break
    if not r.payload_offsets:
        r.trailing_start = r.size
    for o, n, d in sw:
        if isinstance(d, tuple):
            continue
        here = 2 * o
        nxt = 2 * (o + n)
        if d.name.startswith("goto"):
            r.terminators[here] = {here + 2 * d.offset}
        elif d.name.startswith("if-"):
            r.terminators[here] = {nxt, here + 2 * d.offset}
        elif d.name in ("packed-switch", "sparse-switch"):
            p = o + d.offset
            r.special[here] = (2 * p, "packed" if d.name[0] == "p" else "sparse")
            tg = None
            if 0 <= p < len(units) - 1 and units[p] == (D.PAYLOAD_PACKED if d.name[0] == "p" else D.PAYLOAD_SPARSE):
                tg = payload_targets(units, p)
            r.terminators[here] = {nxt} | ({here + 2 * t for t in tg} if tg is not None else set())
            if tg is None:
                r.terminators[here] = None  # undefined
        elif d.name == "fill-array-data":
            r.special[here] = (2 * (o + d.offset), "fill")
        elif d.name in RETURN_THROW:
            r.terminators[here] = set()
    r.tries = []
    for start, cnt, hs, ca in tries:
        r.tries.append((2 * start, 2 * (start + cnt) - 1, [(t, 2 * a) for t, a in hs] + ([("Ljava/lang/Throwable;", 2 * ca)] if ca is not None else [])))
    r.leaders = {0}
    for h, tg in r.terminators.items():
        if tg:
            r.leaders |= tg
    for a, b, hs in r.tries:
        r.leaders.add(a)
        for t, ad in hs:
            r.leaders.add(ad)
    r.leaders = {x for x in r.leaders if 0 <= x < r.size}
    return r


def check_method(ctx, which, dex, dx, ma, em, ref, wit, shipped=False):
    """all oracles; only violations of `which` are recorded"""
    def viol(pid, mech, what, extra=None):
        if pid == which:
            w = dict(wit)
            if extra:
                w.update(extra)
            ctx.violation(mech, what, w)
    def dontcare(b):
        return b.get_start() >= ref.trailing_start or any(b.get_start() <= o < b.get_end() for o in ref.payload_offsets)

    def dontcare_off(o):
        return o >= ref.trailing_start or o in ref.payload_offsets
    code = em.get_code()
    bc = code.get_bc()
    ins_list = list(em.get_instructions_idx())
    ins_by_off = {o: i for o, i in ins_list}
    if [(o, i.get_length()) for o, i in ins_list] != [(o, l) for o, l, n in ref.instr]:
        # C02's business; without agreement on the stream the other oracles are meaningless
        ctx.count("stream_disagrees_skipped")
        return
    # ---------------- C08
    if which == "C08":
        ctx.count("determineException_calls")
        try:
            exc = dex.determineException(dx, em)
        except Exception as e:
            viol("C08", "determineException-raises", "determineException raises", {"exc": exc_str(e)})
            exc = None
        if exc is not None:
            if any(len(h) != 2 for e in exc for h in e[2:]):
                # a handler entry is [type, address]; anything more (e.g. a basic block of some earlier analysis appended to a shared list) is not
                # what the code item encodes
                viol("C08", "handler-entry-carries-extra-elements", "a reported handler entry is not [type, address]",
                     {"got": [[e[0], e[1]] + [[repr(x)[:60] for x in h] for h in e[2:]] for e in exc][:6]})
            got = sorted((e[0], e[1], [(h[0], h[1]) for h in e[2:]]) for e in exc)
            want = sorted((a, b, list(hs)) for a, b, hs in ref.tries)
            if got != want:
                mech = "try-table-differs"
                if len(got) != len(want):
                    mech = "try-count-differs"
                elif [(g[0], g[1]) for g in got] != [(w_[0], w_[1]) for w_ in want]:
                    mech = "try-range-differs"
                elif any(len(g[2]) != len(w_[2]) for g, w_ in zip(got, want)):
                    mech = "handler-count-differs"
                elif any([h[1] for h in g[2]] != [h[1] for h in w_[2]] for g, w_ in zip(got, want)):
                    mech = "handler-address-differs"
                else:
                    mech = "handler-type-differs"
                viol("C08", mech, "reported try ranges / handler lists differ from the code item", {"got": got, "want": want})
        # raw items
        try:
            raw_tries = [(t.get_start_addr(), t.get_insn_count()) for t in code.get_tries()]
            want_raw = [(a // 2, (b + 1 - a) // 2) for a, b, hs in ref.tries_in_file_order]
            if raw_tries != want_raw:
                viol("C08", "try-items-differ", "DalvikCode.get_tries differs from the encoded try items", {"got": raw_tries, "want": want_raw})
        except Exception as e:
            viol("C08", "get_tries-raises", "get_tries raises", {"exc": exc_str(e)})
        return
    # ---------------- blocks
    try:
        blocks = list(ma.get_basic_blocks().get())
    except Exception as e:
        viol(which, "basic-blocks-raise", "get_basic_blocks raises", {"exc": exc_str(e)})
        return
    ctx.count("methods_with_blocks")
    blocks_sorted = sorted(blocks, key=lambda b: b.get_start())
    starts = [b.get_start() for b in blocks_sorted]
    bdesc = [(b.get_start(), b.get_end()) for b in blocks_sorted]
    if which == "C10":
        pos = 0
        ok = True
        for b in blocks_sorted:
            if b.get_start() != pos:
                viol("C10", "blocks-not-contiguous", "basic blocks overlap or leave a gap", {"blocks": bdesc, "at": pos})
                ok = False
                break
            pos = b.get_end()
        if ok and pos != ref.size:
            viol("C10", "blocks-do-not-cover-code", "basic blocks do not cover the whole code", {"blocks": bdesc, "code_size": ref.size})
            ok = False
        if blocks != blocks_sorted:
            viol("C10", "blocks-out-of-order", "basic blocks are not listed in address order", {"blocks": [(b.get_start(), b.get_end()) for b in blocks]})
        if ok:
            for b in blocks_sorted:
                want_ins = [ins_by_off[o] for o, l, n in ref.instr if b.get_start() <= o < b.get_end()]
                got_ins = list(b.get_instructions())
                if len(got_ins) != len(want_ins) or any(x is not y for x, y in zip(got_ins, want_ins)) or b.get_nb_instructions() != len(want_ins):
                    viol("C10", "block-instructions-differ", "a block's instruction list is not the disassembly slice", {"block": (b.get_start(), b.get_end())})
                    break
            missing = sorted(l for l in ref.leaders if l not in starts and not dontcare_off(l))
            if missing:
                l = missing[0]
                kind = "try-start" if any(a == l for a, b_, hs in ref.tries) else "handler-address" if any(ad == l for a, b_, hs in ref.tries for t, ad in hs) else "branch-target"
                viol("C10", "leader-missing-%s" % kind, "a control-flow boundary does not begin a block", {"missing": missing[:10], "blocks": bdesc})
            for b in blocks_sorted:
                inner = [o for o, l, n in ref.instr if b.get_start() <= o < b.get_end()][:-1]
                bad = [o for o in inner if o in ref.terminators]
                if bad:
                    viol("C10", "terminator-inside-block", "a branching/returning instruction is not the last one of its block", {"block": (b.get_start(), b.get_end()), "at": bad[:5]})
                    break
    elif which == "C11":
        want_children = {}
        for b in blocks_sorted:
            if dontcare(b):
                continue
            offs = [o for o, l, n in ref.instr if b.get_start() <= o < b.get_end()]
            last = offs[-1]
            if last in ref.terminators:
                tg = ref.terminators[last]
                if tg is None:
                    continue  # switch without a well-formed payload: undefined
                want = {t for t in tg if t in ref.offsets}
            else:
                nb = next((x for x in blocks_sorted if x.get_start() == b.get_end()), None)
                want = (set() if b.get_end() >= ref.size else None if (dontcare_off(b.get_end()) or (nb is not None and dontcare(nb))) else {b.get_end()})
                if want is None:
                    continue  # falls into the payload area: don't care
            want_children[b.get_start()] = want
            got = {c[2].get_start() for c in b.childs}
            if got != want:
                d = ins_by_off[last]
                kind = d.get_name().split("-")[0].split("/")[0] if last in ref.terminators else "fallthrough"
                mech = "successors-%s-%s" % (kind, "missing" if want - got else "extra")
                viol("C11", mech, "block successors differ from the targets of its last instruction", {"block": (b.get_start(), b.get_end()), "got": sorted(got), "want": sorted(want), "blocks": bdesc})
        # predecessors = inverse
        inv = {}
        for s, ch in want_children.items():
            for c in ch:
                inv.setdefault(c, set()).add(s)
        for b in blocks_sorted:
            if dontcare(b):
                continue
            got = {f[2].get_start() for f in b.fathers if f[2].get_start() in want_children}
            want = inv.get(b.get_start(), set())
            if got != want:
                viol("C11", "predecessors-not-inverse", "a block's predecessor list is not the inverse of the successor relation", {"block": (b.get_start(), b.get_end()), "got": sorted(got), "want": sorted(want)})
    elif which == "C12":
        for b in blocks_sorted:
            if dontcare(b):
                continue
            s, e = b.get_start(), b.get_end()
            cover = [(a, bb, hs) for a, bb, hs in ref.tries if a < e and bb >= s]
            ea = b.get_exception_analysis()
            ctx.count("blocks_checked")
            if cover:
                ctx.count("blocks_overlapping_a_try")
            if not cover:
                if ea is not None:
                    viol("C12", "exception-info-on-uncovered-block", "a block reports a try range covering none of its instructions", {"block": (s, e), "reported": (ea.start, ea.end), "tries": [(a, bb) for a, bb, hs in ref.tries]})
                continue
            if len(cover) > 1:
                # every try start is a required leader, so a block can only straddle two try ranges when a leader is missing; the block can then
                # report at most one of the ranges and the instructions of the other carry the wrong handlers
                viol("C12", "block-straddles-several-try-ranges", "a block contains instructions of several try ranges and can report only one of them",
                     {"block": (s, e), "tries": [(a, bb) for a, bb, hs in cover], "reported": None if ea is None else (ea.start, ea.end)})
                continue
            a, bb, hs = cover[0]
            # classify the geometric relation
            rel = "try-contains-block" if a <= s and bb >= e - 1 else "block-contains-try" if s <= a and e - 1 >= bb else "try-ends-inside-block" if a <= s else "try-starts-inside-block"
            if ea is None:
                viol("C12", "exception-info-missing-%s" % rel, "a block with an instruction inside a try range has no exception information", {"block": (s, e), "try": (a, bb), "blocks": bdesc})
                continue
            if (ea.start, ea.end) != (a, bb):
                viol("C12", "exception-info-wrong-range", "a block reports another try range than the one covering it", {"block": (s, e), "reported": (ea.start, ea.end), "try": (a, bb)})
                continue
            own = {id(x) for x in blocks}
            if any(len(x) != 3 or (x[2] is not None and id(x[2]) not in own) for x in ea.exceptions):
                # [type, address, handler block]: the block must be one of THIS method analysis's blocks (not a look-alike of an earlier analysis)
                viol("C12", "exception-handler-block-not-of-this-analysis", "a handler entry is not [type, address, block of this method analysis]",
                     {"block": (s, e), "entries": [[repr(y)[:50] for y in x] for x in ea.exceptions][:6]})
                continue
            got_h = [(x[0], x[1], x[2].get_start() if x[2] is not None else None) for x in ea.exceptions]
            want_h = [(t, ad, ad if ad in starts else None) for t, ad in hs]
            if got_h != want_h:
                viol("C12", "exception-handlers-differ", "the handler blocks reported for a try range differ", {"block": (s, e), "got": got_h, "want": want_h})
    elif which == "C40":
        for b in blocks_sorted:
            if b.get_start() not in ref.offsets or (b.get_end() not in ref.offsets and b.get_end() != ref.size):
                viol("C40", "block-boundary-not-an-instruction", "a block boundary is not an instruction offset of the disassembly", {"block": (b.get_start(), b.get_end())})
            for k in b.special_ins:
                if k not in ref.special:
                    viol("C40", "special-ins-key-not-a-switch", "special_ins has a key that is not a switch/fill-array-data instruction offset", {"key": k})
        for off, (poff, kind) in ref.special.items():
            blk = next((b for b in blocks_sorted if b.get_start() <= off < b.get_end()), None)
            if blk is None:
                continue
            ctx.count("payload_links_checked")
            got = blk.get_special_ins(off)
            want = bc.get_ins_off(poff) if poff in ref.offsets else None
            misal = "-misaligned" if poff % 4 else ""
            if want is None:
                if got is not None:
                    # the encoded offset is not an instruction start (or lies outside the code): there is no "payload at the offset that
                    # instruction encodes", so whatever is linked is some other instruction
                    viol("C40", "payload-link-although-no-instruction-at-encoded-offset", "a switch/fill-array-data instruction whose encoded offset is not an instruction start is linked to some payload",
                         {"ins_offset": off, "encoded_payload_offset": poff, "got": type(got).__name__})
                continue
            klass = {"packed": dex.PackedSwitch, "sparse": dex.SparseSwitch, "fill": dex.FillArrayData}[kind]
            if not isinstance(want, klass):
                continue  # the instruction at the encoded offset is not a payload of the right kind: invalid code
            if got is not want:
                viol("C40", "payload-link-wrong%s" % misal, "the payload linked to a switch/fill-array-data instruction is not the one at the encoded offset",
                     {"ins_offset": off, "encoded_payload_offset": poff, "got": None if got is None else type(got).__name__})
            # successors computed by the analysis must use that same payload
            if kind != "fill" and ref.terminators.get(off) is not None:
                if any(0 <= t < ref.size and t not in ref.offsets for t in ref.terminators[off]):
                    # a case target INSIDE an instruction (only the misaligned pool produces this): invalid code, which block such a target "starts" is undefined
                    ctx.count("switches_with_a_target_inside_an_instruction_not_judged")
                    continue
                want_s = {t for t in ref.terminators[off] if t in ref.offsets}
                got_s = {c[2].get_start() for c in blk.childs}
                if not dontcare(blk) and got_s != want_s:
                    viol("C40", "switch-targets-from-other-payload%s" % misal, "the analysis derived switch targets that are not those of the payload at the encoded offset",
                         {"ins_offset": off, "encoded_payload_offset": poff, "got": sorted(got_s), "want": sorted(want_s)})


def sig_of(ref, feats=None):
    nb = len(ref.leaders)
    ne = sum(len(t) for t in ref.terminators.values() if t)
    return (min(nb, 12), min(ne, 16), len(ref.tries), bool(ref.special), tuple(sorted((feats or {}).items()))[:0])


def shard_generated(ctx, arg):
    which, idx, count = arg
    from androguard.core import dex
    from androguard.core.analysis.analysis import Analysis
    rng = ctx.rng("blocks", idx)  # same methods for all five properties
    for k in range(count):
        mis = which == "C40" and rng.random() < 0.3
        ms = [cfg.gen_method(rng, misaligned=(which == "C40" and j == 2 and mis), allow_new=False) for j in range(3)]
        data, w, names = cfg.make_dex(ms)
        try:
            dx = dex.DEX(data)
            an = Analysis(dx)
        except Exception as e:
            ctx.violation("analysis-raises", "DEX()/Analysis() raises on generated valid code", {"exc": exc_str(e), "features": [m.features for m in ms]})
            continue
        passes = [(an, None)]
        if rng.random() < 0.3:
            # the same DEX object analysed a second time (sessions, re-analysis after adding files): the answers must not depend on earlier analyses
            try:
                passes.append((Analysis(dx), "second Analysis() over the same DEX object"))
                ctx.count("second_analysis_of_same_dex")
            except Exception as e:
                ctx.violation("analysis-raises", "a second Analysis() over the same DEX object raises", {"exc": exc_str(e), "features": [m.features for m in ms]})
        for (an, note), (m, nm) in [(p_, z_) for p_ in passes for z_ in zip(ms, names)]:
            em = dx.get_encoded_methods_class_method(cfg.CLS, nm)
            ma = an.get_method(em)
            units = w.code_units[(cfg.CLS, nm, "V", ())][1]
            tries = [(t.start, t.count, t.handlers, t.catch_all) for t in m.tries]
            try:
                ref = ref_cfg(units, tries)
            except Exception as e:
                ctx.inconclusive("reference CFG failed on generated code: %s" % exc_str(e))
                continue
            ref.tries_in_file_order = list(ref.tries)
            # self-check: generator truth == reference builder
            if not m.features["misaligned"] and (ref.leaders != m.leaders or {k2: v for k2, v in ref.terminators.items()} != m.terminators):
                ctx.inconclusive("generator truth and reference CFG builder disagree: %r" % (m.features,))
                continue
            if m.features["misaligned"] and which != "C40":
                continue
            ctx.ev()
            wit = {"units": ["%04x" % u for u in units][:250], "tries": [(a, b, hs) for a, b, hs in ref.tries], "features": m.features}
            if note:
                wit["history"] = note
            check_method(ctx, which, dex, dx, ma, em, ref, wit)
            if which == "C12" or which == "C08":
                if ref.tries:
                    ctx.sig(which, len(ref.tries), min(len(ref.leaders), 10), tuple(sorted(len(hs) for a, b, hs in ref.tries)))
            elif which == "C40":
                if ref.special:
                    ctx.sig(which, len(ref.special), m.features["misaligned"], m.features["shared_payload"], min(len(ref.leaders), 10))
            else:
                if len(ref.leaders) >= 3:
                    ctx.sig(which, *sig_of(ref))
            if idx == 0 and k < 2 and nm == "m0":
                ctx.sample({"instr": ref.instr[:25], "leaders": sorted(ref.leaders), "terminators": {str(a): sorted(b) if b is not None else None for a, b in ref.terminators.items()}, "tries": ref.tries})
        # a method whose body was replaced through EncodedMethod.set_instructions() (the code-patching API) by the well-formed body of another
        # method (neither has a try table, so the code item stays consistent) and which is analysed again: it is a method like any other
        if which in ("C10", "C11") and k % 2 == 0:
            from androguard.core.analysis.analysis import MethodAnalysis
            rng2 = ctx.rng("blocks-replaced-body", idx, k)
            ms2 = [cfg.gen_method(rng2, allow_new=False, max_tries=0) for _ in range(2)]
            try:
                data2, w2, names2 = cfg.make_dex(ms2)
                dx2 = dex.DEX(data2)
                an2 = Analysis(dx2)
                em_a = dx2.get_encoded_methods_class_method(cfg.CLS, names2[0])
                em_b = dx2.get_encoded_methods_class_method(cfg.CLS, names2[1])
                an2.get_method(em_a).get_basic_blocks().get()     # the old body was looked at
                for o_ in (0, 2, 4):
                    em_a.get_code().get_bc().get_ins_off(o_)
                em_a.set_instructions(list(em_b.get_instructions()))
                ma2 = MethodAnalysis(dx2, em_a)
                units = w2.code_units[(cfg.CLS, names2[1], "V", ())][1]
                ref = ref_cfg(units, [])
                ref.tries_in_file_order = []
                ctx.ev()
                ctx.count("methods_analysed_again_after_their_body_was_replaced")
                wit = {"units": ["%04x" % u for u in units][:250], "tries": [], "features": ms2[1].features,
                       "history": "analysed, body replaced by set_instructions() with these units, analysed again"}
                check_method(ctx, which, dex, dx2, ma2, em_a, ref, wit)
            except Exception as e:
                ctx.violation("replaced-body-analysis-raises", "analysing a method again after set_instructions() raises", {"exc": exc_str(e)})



def shard_shipped(ctx, arg):
    which, path = arg
    from androguard.core import dex
    from androguard.core.analysis.analysis import Analysis
    from vf.model import dexr
    with open(path, "rb") as f:
        data = f.read()
    try:
        rd = dexr.read(data)
    except Exception as e:
        ctx.inconclusive("independent reader failed on %s: %s" % (path, exc_str(e)))
        return
    dx = dex.DEX(data)
    an = Analysis(dx)
    n = 0
    for em in dx.get_encoded_methods():
        if em.get_code() is None:
            continue
        off = em.get_code_off()
        units = rd["code"].get(off)
        info = rd["code_info"].get(off)
        if units is None:
            continue
        try:
            ref = ref_cfg(units, info["tries"])
        except Exception:
            ctx.count("shipped_reference_failed")
            continue
        ref.tries_in_file_order = list(ref.tries)
        ma = an.get_method(em)
        ctx.ev()
        ctx.count("shipped_methods")
        n += 1
        wit = {"file": os.path.basename(path), "method": "%s->%s%s" % (em.get_class_name(), em.get_name(), em.get_descriptor())}
        check_method(ctx, which, dex, dx, ma, em, ref, wit, shipped=True)
        if which in ("C12", "C08"):
            if ref.tries:
                ctx.sig("shipped", which, len(ref.tries), min(len(ref.leaders), 10), tuple(sorted(len(hs) for a, b, hs in ref.tries))[:4])
        elif which == "C40":
            if ref.special:
                ctx.sig("shipped", which, len(ref.special), min(len(ref.leaders), 10))
        elif len(ref.leaders) >= 3:
            ctx.sig("shipped", which, *sig_of(ref))


def shard_start_address(ctx, arg):
    """C40 only: the start address of a method's code is moved (EncodedMethod.set_code_idx / DCode.seek - 'set the start address of the buffer to
    disassemble') before anything looked at the method. No reference model here: the statement itself is checked - whatever the analysis reports lies
    at offsets at which the disassembler (get_instructions_idx of the same method) reports an instruction."""
    which, idx, count = arg
    from androguard.core import dex
    from androguard.core.analysis.analysis import Analysis
    rng = ctx.rng("blocks-start", idx)
    for k in range(count):
        ms = [cfg.gen_method(rng, allow_new=False, max_tries=0, wild_targets=False, front_payloads=False) for j in range(2)]
        data, w, names = cfg.make_dex(ms)
        try:
            dx = dex.DEX(data)
            em = dx.get_encoded_methods_class_method(cfg.CLS, names[1])
            nskip = rng.randrange(1, min(4, len(ms[1].instr)))
            start = ms[1].instr[nskip][0] if nskip < len(ms[1].instr) else 0
            em.get_code()
            em.set_code_idx(start)
            an = Analysis(dx)
            ma = an.get_method(em)
            listing = list(em.get_instructions_idx())
        except Exception as e:
            ctx.count("start_address_cases_raising_%s" % type(e).__name__)
            continue
        ctx.ev()
        ctx.count("methods_analysed_with_a_moved_start_address")
        at = {off: ins for off, ins in listing}
        total = (listing[-1][0] + listing[-1][1].get_length()) if listing else 0
        wit = {"units": ["%04x" % u for u in w.code_units[(cfg.CLS, names[1], "V", ())][1]][:200], "start_address": start, "disassembler_offsets": sorted(at)[:60]}
        for b in ma.get_basic_blocks().get():
            if b.get_start() not in at or (b.get_end() not in at and b.get_end() != total):
                ctx.violation("block-boundary-not-an-instruction-start-address-moved", "after set_code_idx(n) a block boundary is not an offset at which the disassembler reports an instruction",
                              dict(wit, block=(b.get_start(), b.get_end())))
                break
            bad = False
            for key in b.special_ins:
                ins = at.get(key)
                if ins is None or ins.get_op_value() not in (0x26, 0x2B, 0x2C):
                    ctx.violation("special-ins-key-not-a-switch-start-address-moved", "after set_code_idx(n) a payload link hangs on an offset where the disassembler reports no switch/fill-array-data",
                                  dict(wit, key=key))
                    bad = True
                    break
                want = at.get(key + ins.get_ref_off() * 2)
                got = b.get_special_ins(key)
                if want is not None and got is not None and got is not want:
                    ctx.violation("payload-link-wrong-start-address-moved", "after set_code_idx(n) the linked payload is not the instruction the disassembler reports at the encoded offset",
                                  dict(wit, key=key, encoded=key + ins.get_ref_off() * 2))
                    bad = True
                    break
            if bad:
                break


def shard_big(ctx, arg):
    """one DEX with many methods (code section far larger than one I/O buffer), written at several 4-byte shifts: what is reported for a method must not
    depend on where its bytes lie in the file"""
    which, idx, nmeth, shifts = arg
    from androguard.core import dex
    from androguard.core.analysis.analysis import Analysis
    rng = ctx.rng("blocks-big", idx)
    ms = [cfg.gen_method(rng, allow_new=False, max_tries=6, clause_counts=(0, 1, 2, 3, 4, 5, 7, 9)) for j in range(nmeth)]
    for sh in range(shifts):
        # the first code item grows by four bytes per step (moves every later code item relative to the start of the code section), unused strings move
        # the whole data area
        data, w, names = cfg.make_dex(ms, pad_strings=sh % 3, front_nops=2 * sh)
        ctx.count("big_dex_files")
        ctx.count("big_dex_bytes", len(data))
        try:
            dx = dex.DEX(data)
            an = Analysis(dx)
        except Exception as e:
            ctx.violation("analysis-raises", "DEX()/Analysis() raises on generated valid code (large file)", {"exc": exc_str(e), "methods": nmeth, "shift": sh})
            continue
        for m, nm in zip(ms, names):
            if m.features["misaligned"]:
                continue
            em = dx.get_encoded_methods_class_method(cfg.CLS, nm)
            ma = an.get_method(em)
            units = w.code_units[(cfg.CLS, nm, "V", ())][1]
            tries = [(t.start, t.count, t.handlers, t.catch_all) for t in m.tries]
            try:
                ref = ref_cfg(units, tries)
            except Exception as e:
                ctx.inconclusive("reference CFG failed on generated code: %s" % exc_str(e))
                continue
            ref.tries_in_file_order = list(ref.tries)
            ctx.ev()
            ctx.count("big_dex_methods")
            wit = {"units": ["%04x" % u for u in units][:250], "tries": [(a, b, hs[:6]) for a, b, hs in ref.tries], "features": m.features,
                   "history": "method %s of %d in a %d-byte DEX, shift %d" % (nm, nmeth, len(data), sh * 4)}
            check_method(ctx, which, dex, dx, ma, em, ref, wit)


def dispatch(ctx, arg):
    globals()[arg[0]](ctx, arg[1])


def run(ctx, which):
    ctx.rule = ("methods from vf/gen/cfg.py (forward/backward gotos 8/16/32, if-test/if-testz to any instruction incl. offset 0 and the next one, packed/sparse switches with "
                "duplicate targets and shared payloads, fill-array-data, returns/throws, 0-4 try items at arbitrary instruction boundaries with typed/catch-all/shared handlers"
                + (", misaligned payloads" if which == "C40" else "") + ") in real DEX files + every method of the shipped DEX files; real Analysis(DEX); oracle = independent CFG "
                "built from the raw code units. distinct non-trivial = distinct (#leaders, #edges, #tries, payloads) shapes" )
    ctx.assumptions = ["vf/model/dalvik.py + vf/model/dexr.py + the reference CFG builder in vf/checks/blockwork.py",
                       "blocks lying in the payload area after the code (nop padding, payload pseudo-instructions) have no defined successors / exception info: don't care",
                       "extra block splits are allowed (the statement does not require maximal blocks)"]
    n = 900 if ctx.quick else 480000
    args = [["shard_generated", [which, i, n // 48 + 1]] for i in range(16)]
    files = sorted(glob.glob("/repo/tests/data/APK/*.dex"))
    files = [f for f in files if os.path.getsize(f) < (1000000 if ctx.quick else 10 ** 9)]
    args += [["shard_shipped", [which, f]] for f in files]
    args += [["shard_big", [which, i, 150, 32 if ctx.quick else 64]] for i in range(8 if ctx.quick else 16)]
    if which == "C40":
        args += [["shard_start_address", [which, i, 60 if ctx.quick else 3000]] for i in range(4)]
    ctx.run_shards(MOD, "dispatch", args, timeout=3000)
    ctx.require_counter("shipped_methods", 100)
    if which in ("C10", "C11"):
        ctx.require_counter("methods_analysed_again_after_their_body_was_replaced", 50)
    ctx.min_distinct = 10
