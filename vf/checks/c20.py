"""C20 def-use chains equal the reaching-definitions solution.

Real code: androguard.decompiler.dataflow.build_def_use(graph, lparams) -> (UD, DU).

Workload A: random rooted control-flow graphs (1..12 nodes, 0..4 statements per node, registers 0..2 plus 0..2 parameter registers,
  normal + catch edges, self loops, back edges, empty nodes) built from the real Graph / StatementBlock classes and a minimal IRForm
  subclass (get_lhs / get_used_vars); compute_rpo(), number_ins(), build_def_use() exactly as decompile.py / graph.construct do.
Workload A2 (chains rebuilt after the graph lost instructions): on every second graph of workload A, and on additional graphs with longer
  blocks (up to 9 statements), after the first comparison instructions are taken out of the graph through the project's own code - either
  Graph.remove_ins(loc) on 1..4 random locations (first, middle, last statements of blocks, whole blocks emptied) or
  dataflow.dead_code_elimination(graph, DU, UD) fed with (a copy of) the chains just built, some defining statements marked
  has_side_effect() - exactly what DvMethod.process() does between analyses: the locations are NOT renumbered, blocks keep holes in
  their numbering.  The snapshot and the reference solution are recomputed on the mutated graph, build_def_use is called again and
  compared (mechanism names get the suffix -after-instructions-were-removed).
Workload B: passive wrapper around build_def_use - both `dataflow.build_def_use` and the name imported into
  `androguard.decompiler.decompile` - while DvMethod(mx).process() decompiles the methods of the shipped DEX files; the oracle reads
  get_lhs()/get_used_vars() of the real IR at the moment of the call.

Oracle (independent, path based): instruction-level CFG - inside a node the statements follow each other, the last statement of a node
  (or an empty node) continues at the first statement of every node in all_sucs(node), i.e. normal AND catch edges leave from the end
  of a node: this is the graph the decompiler itself defines (BasicReachDef uses all_preds/all_sucs on whole nodes).  For every
  definition (var, d) an explicit forward search from just after d records every statement that uses var before the search is cut at a
  statement that redefines var (a statement `x = f(x)` uses the old x, then defines).  Parameters are definitions -1, -2, ... placed
  before the first statement of the entry node.
  UD is compared as a set per (var, use loc) key (absent key == empty); DU must be exactly the inverse relation of UD.

Domain decisions
  * "path" = path in the decompiler's own node graph (see above); definitions in nodes that are unreachable from the entry still reach
    along paths from the definition (the property speaks of paths from the definition to the use).
  * duplicates inside a UD/DU list (an instruction naming a register twice) are counted, not judged: the property is about sets.
  * an exception out of DvMethod.process() elsewhere in the decompiler is not this property (counted).
  * what dead_code_elimination / update_chain do to the chains handed to them (in-place maintenance) is not judged here, and an exception
    out of dead_code_elimination is not this property (counted); only the chains build_def_use returns for the graph as it then is.
Mechanisms: ud-missing-def-<where>, ud-extra-def-<where>, param-def-missing, param-def-extra, ud-key-for-non-use, du-not-inverse,
  build-def-use-raises; <where> = same-node-prior | same-node-loop-carried | other-node | other-node-via-catch-edge-only (the last
  one only for missing definitions: the definition reaches the use only along paths that take a catch edge).
"""
import glob
import os

from vf.harness import REPO, exc_str

MOD = "vf.checks.c20"
DEX_DIR = os.path.join(REPO, "tests", "data", "APK")


# ---- oracle -------------------------------------------------------------------------------------------------------------------
def oracle_ud(node_locs, succ, entry, params, lhs, used):
    """node_locs[i]: list of locs of node i (in order); succ[i]: list of node indices; entry: node index; params: list of vars;
    lhs[loc] -> var or None; used[loc] -> collection of vars.   -> {(var, use loc): set(def locs)}"""
    n = len(node_locs)
    first = [None] * n  # first statements reachable when control enters node i (resolving empty nodes)

    def first_locs(i):
        if first[i] is not None:
            return first[i]
        out, seen, stack = [], set(), [i]
        while stack:
            j = stack.pop()
            if j in seen:
                continue
            seen.add(j)
            if node_locs[j]:
                out.append(node_locs[j][0])
            else:
                stack.extend(succ[j])
        first[i] = out
        return out
    nxt = {}
    for i in range(n):
        L = node_locs[i]
        for p, loc in enumerate(L):
            if p + 1 < len(L):
                nxt[loc] = [L[p + 1]]
            else:
                t = []
                for s in succ[i]:
                    for x in first_locs(s):
                        if x not in t:
                            t.append(x)
                nxt[loc] = t
    ud = {}
    defs = []
    for k, p in enumerate(params, 1):
        defs.append((p, -k, list(first_locs(entry))))
    for i in range(n):
        for loc in node_locs[i]:
            if lhs[loc] is not None:
                defs.append((lhs[loc], loc, nxt[loc]))
    for var, d, starts in defs:
        seen = set()
        stack = list(starts)
        while stack:
            v = stack.pop()
            if v in seen:
                continue
            seen.add(v)
            if var in used[v]:
                ud.setdefault((var, v), set()).add(d)
            if lhs[v] == var:
                continue
            stack.extend(nxt[v])
    return ud


# ---- snapshot of a real graph + comparison --------------------------------------------------------------------------------------
def snapshot(graph, lparams):
    nodes = list(graph.rpo)
    idx = {id(nd): i for i, nd in enumerate(nodes)}
    node_locs, lhs, used = [], {}, {}
    for nd in nodes:
        L = []
        for loc, ins in nd.get_loc_with_ins():
            L.append(loc)
            lhs[loc] = ins.get_lhs()
            used[loc] = list(ins.get_used_vars())
        node_locs.append(L)
    succ, csucc, nsucc = [], [], []
    for nd in nodes:
        succ.append([idx[id(s)] for s in graph.all_sucs(nd) if id(s) in idx])
        csucc.append([idx[id(s)] for s in graph.catch_edges.get(nd, []) if id(s) in idx])
        nsucc.append([idx[id(s)] for s in graph.sucs(nd) if id(s) in idx])
    outside = sum(1 for s in graph.nodes if id(s) not in idx)
    return {"node_locs": node_locs, "succ": succ, "csucc": csucc, "nsucc": nsucc, "entry": idx.get(id(graph.entry)), "params": list(lparams),
            "lhs": lhs, "used": used, "outside": outside}


def where(snap, var, d, u, missing=True):
    loc_node = {}
    for i, L in enumerate(snap["node_locs"]):
        for loc in L:
            loc_node[loc] = i
    if d < 0:
        return "param"
    nd, nu = loc_node.get(d), loc_node.get(u)
    if nd == nu:
        return "same-node-prior" if d < u else "same-node-loop-carried"
    if not missing:
        return "other-node"
    # does the def reach the use when catch edges are removed?
    alt = oracle_ud(snap["node_locs"], snap["nsucc"], snap["entry"], snap["params"], snap["lhs"], snap["used"])
    if d in alt.get((var, u), ()):
        return "other-node"
    return "other-node-via-catch-edge-only"


def compare(ctx, snap, UD, DU, tag, describe, suffix=""):
    """-> (nkeys, nontrivial) ; records violations (mechanism names + suffix)"""
    want = oracle_ud(snap["node_locs"], snap["succ"], snap["entry"], snap["params"], snap["lhs"], snap["used"])
    use_keys = set()
    for loc, vs in snap["used"].items():
        for v in vs:
            use_keys.add((v, loc))
    got = {}
    dups = 0
    for k, v in UD.items():
        got[k] = set(v)
        dups += len(v) - len(got[k])
    if dups:
        ctx.count("ud_duplicate_entries", dups)
    nontrivial = False
    reported = set()
    for k in sorted(use_keys | set(got), key=repr):
        var, u = k
        g = got.get(k, set())
        w = want.get(k, set())
        if k not in use_keys:
            if g and "ud-key-for-non-use" not in reported:
                reported.add("ud-key-for-non-use")
                ctx.violation("ud-key-for-non-use" + suffix, "UD has an entry for a (register, location) where the instruction does not use the register",
                              dict(describe(), key=list(k), got=sorted(g), tag=tag))
            continue
        if len(w) >= 2 or any(True for d in w if d >= 0 and not _same_node(snap, d, u)):
            nontrivial = True
        if g == w:
            continue
        for d in sorted(w - g):
            mech = "param-def-missing" if d < 0 else "ud-missing-def-" + where(snap, var, d, u)
            if mech not in reported:
                reported.add(mech)
                ctx.violation(mech + suffix, "a definition that reaches the use is not in UD", dict(describe(), var=var, use_loc=u, got=sorted(g), want=sorted(w), missing=d, tag=tag))
        for d in sorted(g - w):
            mech = "param-def-extra" if d < 0 else "ud-extra-def-" + where(snap, var, d, u, missing=False)
            if mech not in reported:
                reported.add(mech)
                ctx.violation(mech + suffix, "UD links a definition that does not reach the use", dict(describe(), var=var, use_loc=u, got=sorted(g), want=sorted(w), extra=d, tag=tag))
    inv = {}
    for (var, u), ds in got.items():
        for d in ds:
            inv.setdefault((var, d), set()).add(u)
    gdu = {k: set(v) for k, v in DU.items() if v}
    if gdu != inv:
        bad = sorted((set(gdu) ^ set(inv)) | {k for k in set(gdu) & set(inv) if gdu[k] != inv[k]}, key=repr)[:4]
        ctx.violation("du-not-inverse" + suffix, "DU is not the inverse relation of UD",
                      dict(describe(), keys=[list(k) for k in bad], du={repr(k): sorted(gdu.get(k, ())) for k in bad}, inverse_of_ud={repr(k): sorted(inv.get(k, ())) for k in bad}, tag=tag))
    return len(use_keys), nontrivial


def _same_node(snap, d, u):
    for L in snap["node_locs"]:
        if d in L:
            return u in L
    return False


# ---- workload A ---------------------------------------------------------------------------------------------------------------
_Stmt = None


def stmt_class():
    global _Stmt
    if _Stmt is None:
        from androguard.decompiler.instruction import IRForm

        class Stmt(IRForm):
            """minimal IR statement: lhs = f(uses)"""

            def __init__(self, lhs, uses):
                super().__init__()
                self._lhs, self._uses = lhs, list(uses)
                self.side = False

            def has_side_effect(self):
                return self.side

            def get_lhs(self):
                return self._lhs

            def get_used_vars(self):
                return list(self._uses)

            def __repr__(self):
                return "%s=f(%s)" % (self._lhs, ",".join(map(str, self._uses)))
        _Stmt = Stmt
    return _Stmt


def gen_graph(rng, small):
    n = rng.choice([1, 2, 2, 3, 3, 4, 4, 5, 6]) if small else rng.randint(1, 12)
    nparams = rng.choice([0, 1, 2])
    regs = [0, 1, 2][: rng.choice([1, 2, 3, 3])]
    params = [10, 11][:nparams]
    if rng.random() < 0.15 and params:
        regs = regs + []  # params only defined by the method entry
        pool_def = regs
    else:
        pool_def = regs + params
    pool_use = regs + params
    edges = set()
    for v in range(1, n):
        edges.add((rng.randrange(0, v), v))  # rooted: every node has an earlier parent
    extra = rng.choice([0, 0, 1, 2, 3, n, 2 * n])
    for _ in range(extra):
        edges.add((rng.randrange(n), rng.randrange(n)))  # forward, back, self
    catch = set(e for e in edges if rng.random() < 0.15)
    # keep the graph rooted through the union of both edge kinds (post_order walks all_sucs)
    stmts = []
    for _ in range(n):
        k = rng.choice([0, 1, 1, 2, 2, 3, 4])
        body = []
        for _ in range(k):
            lhs = rng.choice(pool_def) if rng.random() < 0.65 else None
            uses = [rng.choice(pool_use) for _ in range(rng.choice([0, 1, 1, 2, 2, 3]))]
            if rng.random() < 0.8:
                uses = sorted(set(uses))
            body.append((lhs, uses))
        stmts.append(body)
    exit_mode = rng.choice(["none", "sink", "last"])
    return {"n": n, "edges": sorted(edges), "catch": sorted(catch), "stmts": stmts, "params": params, "exit": exit_mode}


def build_real(case):
    from androguard.decompiler.basic_blocks import StatementBlock
    from androguard.decompiler.graph import Graph
    S = stmt_class()
    g = Graph()
    nodes = [StatementBlock("n%d" % i, [S(l, u) for (l, u) in case["stmts"][i]]) for i in range(case["n"])]
    for nd in nodes:
        g.add_node(nd)
    g.entry = nodes[0]
    cs = set(map(tuple, case["catch"]))
    for (a, b) in case["edges"]:
        if (a, b) in cs:
            g.add_catch_edge(nodes[a], nodes[b])
        else:
            g.add_edge(nodes[a], nodes[b])
    g.compute_rpo()
    g.number_ins()
    if case["exit"] == "sink":
        sinks = [nd for nd in g.rpo if not g.all_sucs(nd)]
        g.exit = sinks[0] if sinks else None
    elif case["exit"] == "last":
        g.exit = g.rpo[-1]
    return g, nodes


# ---- workload A2: the chains are rebuilt after instructions were removed from the graph -----------------------------------------
SUFFIX_REMOVED = "-after-instructions-were-removed"


def lengthen(case, rng):
    """longer blocks (up to 9 statements) over the same registers: room for holes between a definition and a use in one block"""
    regs = sorted({l for body in case["stmts"] for (l, _) in body if l is not None} | {v for body in case["stmts"] for (_, u) in body for v in u}
                  | set(case["params"]) | {0})
    for body in case["stmts"]:
        for _ in range(rng.choice([0, 2, 3, 4, 5])):
            lhs = rng.choice(regs) if rng.random() < 0.7 else None
            uses = sorted({rng.choice(regs) for _ in range(rng.choice([0, 1, 1, 2]))})
            if lhs is not None and rng.random() < 0.3 and lhs not in uses:
                uses = sorted(uses + [lhs])  # x = f(x, ...)
            body.insert(rng.randrange(len(body) + 1), (lhs, uses))
    return case


def plan_mutation(rng, snap):
    locs = [l for L in snap["node_locs"] for l in L]
    if not locs:
        return None
    if rng.random() < 0.35:
        side = sorted(l for l in locs if snap["lhs"][l] is not None and rng.random() < 0.3)
        return {"mode": "dead_code_elimination", "side_effect_locs": side}
    k = min(len(locs), rng.choice([1, 1, 2, 2, 3, 4]))
    return {"mode": "remove_ins", "locs": rng.sample(locs, k)}


def apply_mutation(g, mutation, UD, DU):
    """through the project's own code only; the locations are not renumbered (nobody does between the decompiler's passes)"""
    import copy
    from androguard.decompiler import dataflow
    if mutation["mode"] == "remove_ins":
        for loc in mutation["locs"]:
            g.remove_ins(loc)
    else:
        for loc in mutation["side_effect_locs"]:
            g.get_ins_from_loc(loc).side = True
        dataflow.dead_code_elimination(g, copy.deepcopy(DU), copy.deepcopy(UD))


def rebuild_after_removal(ctx, g, case, mutation, snap0, UD, DU, tag):
    """snap0/UD/DU: snapshot and chains of the graph before the mutation.  -> True when the rebuilt chains were compared"""
    from androguard.decompiler import dataflow
    mode = mutation["mode"]
    try:
        apply_mutation(g, mutation, UD, DU)
    except Exception as e:
        # not this property; the graph is still a graph (Graph.remove_ins is the only thing that touched it): go on with what is left
        ctx.count("removal_raised_%s_not_this_property" % mode)
        ctx.extra.setdefault("removal_raised", {})[mode] = {"case": case, "mutation": mutation, "exc": exc_str(e)}
    snap = snapshot(g, case["params"])
    removed = sum(map(len, snap0["node_locs"])) - sum(map(len, snap["node_locs"]))
    if not removed:
        ctx.count("nothing_removed_by_" + mode)
        return False
    ctx.count("instructions_removed_by_" + mode, removed)
    gaps = 0
    for L in snap["node_locs"]:
        if L and L[-1] - L[0] != len(L) - 1:
            gaps += 1
    ctx.count("blocks_with_a_gap_in_their_numbering", gaps)
    ctx.count("blocks_emptied", sum(1 for a, b in zip(snap0["node_locs"], snap["node_locs"]) if a and not b))

    def describe():
        return {"case": case, "mutation": mutation, "locs_per_node_in_rpo_before": snap0["node_locs"], "locs_per_node_in_rpo": snap["node_locs"],
                "rpo": [nd.name for nd in g.rpo]}
    ctx.ev()
    ctx.count("build_def_use_calls_after_" + mode)
    try:
        UD2, DU2 = dataflow.build_def_use(g, case["params"])
    except Exception as e:
        ctx.violation("build-def-use-raises" + SUFFIX_REMOVED, "build_def_use raises on a graph from which instructions were removed (Graph.remove_ins)",
                      dict(describe(), exc=exc_str(e)))
        return False
    nkeys, nontriv = compare(ctx, snap, UD2, DU2, tag, describe, suffix=SUFFIX_REMOVED)
    ctx.count("use_keys_compared_after_removal", nkeys)
    # the uses this scenario is about: the numbering between the first statement of the block and the use has a hole, and a definition
    # of the same block reaches the use (the in-block search has to find it across the hole)
    want = oracle_ud(snap["node_locs"], snap["succ"], snap["entry"], snap["params"], snap["lhs"], snap["used"]) if gaps else {}
    below = 0
    for L in snap["node_locs"]:
        for p, u in enumerate(L):
            if u - L[0] == p:
                continue
            for var in set(snap["used"][u]):
                if any(0 <= d < u and d in L for d in want.get((var, u), ())):
                    below += 1
    if below:
        ctx.count("uses_below_a_gap_with_a_reaching_definition_in_the_block", below)
    if nontriv:
        ctx.sig("A2", repr(case), repr(mutation))
    return True



def shard_a(ctx, arg):
    from androguard.decompiler import dataflow
    rng = ctx.rng("c20-A", arg["shard"])
    mrng = ctx.rng("c20-A-removal", arg["shard"])  # its own stream: the graphs of workload A stay what they were
    for j in range(arg["count"]):
        case = gen_graph(rng, small=(j % 3 == 0))
        g, nodes = build_real(case)
        snap = snapshot(g, case["params"])
        shape_before = (len(g.nodes), g.entry, [list(g.all_sucs(nd)) for nd in g.rpo])
        ctx.ev()
        ctx.count("build_def_use_calls_workload_A")
        try:
            UD, DU = dataflow.build_def_use(g, case["params"])
        except Exception as e:
            ctx.violation("build-def-use-raises", "build_def_use raises on a rooted graph", {"case": case, "exc": exc_str(e)})
            continue
        if (len(g.nodes), g.entry, [list(g.all_sucs(nd)) for nd in g.rpo]) != shape_before:
            ctx.count("graph_not_restored_after_analysis")

        def describe(case=case, snap=snap):
            return {"case": case, "locs_per_node_in_rpo": snap["node_locs"], "rpo": [nd.name for nd in g.rpo]}
        nkeys, nontriv = compare(ctx, snap, UD, DU, "A", describe)
        ctx.count("use_keys_compared", nkeys)
        if j % 4 == 1:
            # the chains of the SAME graph object are built a second time (an analysis repeated after the first one, a second consumer): same answer
            ctx.count("build_def_use_second_call_on_the_same_graph")
            try:
                UD2, DU2 = dataflow.build_def_use(g, case["params"])
                compare(ctx, snap, UD2, DU2, "A-second-call-on-the-same-graph", describe)
            except Exception as e:
                ctx.violation("build-def-use-raises-on-second-call", "a second build_def_use on the same graph raises", {"case": case, "exc": exc_str(e)})
        if nontriv:
            ctx.sig("A", case["n"], tuple(map(tuple, case["edges"])), tuple(map(tuple, case["catch"])), repr(case["stmts"]), tuple(case["params"]))
        if arg["shard"] == 0 and j in (5, 50):
            ctx.sample({"workload": "A", "case": case, "UD": {repr(k): sorted(v) for k, v in sorted(UD.items(), key=repr)[:12]}})
        if j % 2 == 0:
            mutation = plan_mutation(mrng, snap)
            if mutation:
                rebuild_after_removal(ctx, g, case, mutation, snap, UD, DU, "A-after-" + mutation["mode"])
    # graphs with longer blocks: first analysis, removal, second analysis
    for j in range(arg["count"] // 5):
        case = lengthen(gen_graph(mrng, small=(j % 2 == 0)), mrng)
        g, nodes = build_real(case)
        snap = snapshot(g, case["params"])
        ctx.ev()
        ctx.count("build_def_use_calls_long_block_graphs")
        try:
            UD, DU = dataflow.build_def_use(g, case["params"])
        except Exception as e:
            ctx.violation("build-def-use-raises", "build_def_use raises on a rooted graph", {"case": case, "exc": exc_str(e)})
            continue
        nkeys, nontriv = compare(ctx, snap, UD, DU, "A-long-blocks", lambda case=case, snap=snap: {"case": case, "locs_per_node_in_rpo": snap["node_locs"]})
        ctx.count("use_keys_compared", nkeys)
        if nontriv:
            ctx.sig("A", repr(case))
        mutation = plan_mutation(mrng, snap)
        if mutation:
            rebuild_after_removal(ctx, g, case, mutation, snap, UD, DU, "A-long-blocks-after-" + mutation["mode"])


# ---- workload B ---------------------------------------------------------------------------------------------------------------
def install_wrappers(ctx, state):
    from androguard.decompiler import dataflow, decompile
    orig = dataflow.build_def_use
    assert decompile.build_def_use is orig, "decompile.build_def_use is not dataflow.build_def_use"

    def make(tag):
        def wrapper(graph, lparams):
            snap = None
            try:
                snap = snapshot(graph, lparams)
            except Exception as e:  # the monitor must never change the behaviour it observes
                ctx.inconclusive("monitor snapshot failed: %s" % exc_str(e))
            UD, DU = orig(graph, lparams)
            ctx.count("build_def_use_calls_via_" + tag)
            if snap is not None:
                try:
                    ctx.ev()
                    if snap["outside"]:
                        ctx.count("nodes_outside_rpo", snap["outside"])
                    cur = dict(state)

                    def describe():
                        return {"method": cur.get("method"), "file": cur.get("file"), "nodes": len(snap["node_locs"]),
                                "node_locs": snap["node_locs"] if len(snap["lhs"]) <= 60 else None,
                                "succ": snap["succ"] if len(snap["lhs"]) <= 60 else None,
                                "catch_succ": snap["csucc"] if len(snap["lhs"]) <= 60 else None,
                                "stmts": {str(l): [repr(snap["lhs"][l]), [repr(x) for x in snap["used"][l]]] for l in sorted(snap["lhs"])} if len(snap["lhs"]) <= 60 else None,
                                "params": [repr(p) for p in snap["params"]]}
                    nkeys, nontriv = compare(ctx, snap, UD, DU, tag, describe)
                    ctx.count("use_keys_compared", nkeys)
                    ncatch = sum(len(c) for c in snap["csucc"])
                    if ncatch:
                        ctx.count("real_methods_with_catch_edges")
                    if nontriv:
                        ctx.sig("B", cur.get("file"), len(snap["node_locs"]), len(snap["lhs"]), ncatch, nkeys,
                                tuple(len(s) for s in snap["succ"])[:40])
                    ctx.maxi("max_statements_in_method", len(snap["lhs"]))
                    ctx.maxi("max_nodes_in_method", len(snap["node_locs"]))
                except Exception as e:
                    ctx.inconclusive("monitor comparison failed: %s" % exc_str(e))
            return UD, DU
        return wrapper
    dataflow.build_def_use = make("dataflow")
    decompile.build_def_use = make("decompile")


def shard_b(ctx, arg):
    from androguard.core.analysis.analysis import Analysis
    from androguard.core.dex import DEX
    from androguard.decompiler.decompile import DvMethod
    state = {}
    install_wrappers(ctx, state)
    path = os.path.join(DEX_DIR, arg["file"])
    with open(path, "rb") as f:
        d = DEX(f.read())
    dx = Analysis(d)
    k = 0
    done = 0
    for c in d.get_classes():
        for m in c.get_methods():
            if m.get_code() is None:
                continue
            k += 1
            if (k % arg["mod"]) != arg["rem"]:
                continue
            if arg.get("limit") and done >= arg["limit"]:
                return
            if arg.get("only") and arg["only"] != "%s->%s%s" % (m.get_class_name(), m.get_name(), m.get_descriptor()):
                continue
            done += 1
            state["method"] = "%s->%s%s" % (m.get_class_name(), m.get_name(), m.get_descriptor())
            state["file"] = arg["file"]
            ctx.count("methods_decompiled")
            try:
                DvMethod(dx.get_method(m)).process()
            except Exception as e:
                ctx.count("decompile_raised_elsewhere")
                ctx.extra.setdefault("decompile_raised", {})[type(e).__name__] = state["method"]
    if done and arg["file"] == "Test.dex":
        ctx.sample({"workload": "B", "file": arg["file"], "methods": done})


def run(ctx):
    ctx.rule = ("A: one build_def_use call on a random rooted graph; B: one build_def_use call made by DvMethod.process() on a shipped method. "
                "distinct non-trivial = distinct structures (edges, catch edges, statements, params | file, node/statement/edge counts) in which some "
                "use has >= 2 reaching definitions or a reaching definition from another node")
    ctx.assumptions = [
        "the control-flow graph is the decompiler's node graph: normal and catch edges (all_sucs) leave from the end of a node",
        "a statement reads its operands before it defines its lhs",
        "parameters are definitions -1, -2, ... at method entry",
    ]
    nsh = 16
    per = 1500 if ctx.quick else 100000
    ctx.run_shards(MOD, "shard_a", [{"shard": i, "count": per} for i in range(nsh)], timeout=900)
    files = sorted(os.path.basename(p) for p in glob.glob(os.path.join(DEX_DIR, "*.dex")))
    args = []
    for fn in files:
        size = os.path.getsize(os.path.join(DEX_DIR, fn))
        if size < 100000:
            args.append({"file": fn, "mod": 1, "rem": 0})
        elif ctx.quick:
            if fn == "classes.dex":
                args += [{"file": fn, "mod": 8, "rem": r, "limit": 40} for r in range(8)]
        else:
            parts = 16 if size < 1000000 else 32
            args += [{"file": fn, "mod": parts, "rem": r} for r in range(parts)]
    ctx.extra["dex_files"] = files
    ctx.run_shards(MOD, "shard_b", args, timeout=1500)
    ctx.require_counter("build_def_use_calls_workload_A", 1000)
    ctx.require_counter("build_def_use_calls_via_decompile", 50)
    ctx.require_counter("use_keys_compared", 5000)
    ctx.require_counter("build_def_use_calls_after_remove_ins", 500)
    ctx.require_counter("build_def_use_calls_after_dead_code_elimination", 200)
    ctx.require_counter("use_keys_compared_after_removal", 5000)
    ctx.require_counter("blocks_with_a_gap_in_their_numbering", 500)
    ctx.require_counter("uses_below_a_gap_with_a_reaching_definition_in_the_block", 300)
    ctx.min_distinct = 200


def replay(ctx, path):
    """re-run stored workload-A witnesses (graphs); workload-B witnesses name the method and file and are re-run by decompiling it"""
    import json
    from androguard.decompiler import dataflow
    with open(path) as f:
        j = json.load(f)
    ctx.rule = "replay of stored witnesses"
    ctx.min_distinct = 1
    for w in j["witnesses"]:
        case = w.get("case")
        if case:
            g, _ = build_real(case)
            snap = snapshot(g, case["params"])
            ctx.ev()
            UD, DU = dataflow.build_def_use(g, case["params"])
            compare(ctx, snap, UD, DU, "A", lambda: {"case": case})
            if w.get("mutation"):
                rebuild_after_removal(ctx, g, case, w["mutation"], snap, UD, DU, "A-after-" + w["mutation"]["mode"])
            ctx.sig("A", repr(case))
            ctx.sample({"case": case, "UD": {repr(k): sorted(v) for k, v in UD.items()}})
        elif w.get("file"):
            ctx.run_shards(MOD, "shard_b", [{"file": w["file"], "mod": 1, "rem": 0, "only": w.get("method")}], timeout=1500)
