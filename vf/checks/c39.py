"""C39 API-level resources follow the documented fallback rule (exhaustive -5..100 x {int,str} x 3 loaders)."""
import json
import os
import re

from vf.harness import exc_str


def listing(root, sub):
    out = {}
    for fn in os.listdir(os.path.join(root, sub)):
        m = re.fullmatch(r"permissions_(\d+)\.json", fn)
        if m:
            out[int(m.group(1))] = os.path.join(root, sub, fn)
    return out


def expected_level_perm(levels, req):
    ls = sorted(levels)
    if req in levels:
        return req
    if req > ls[-1]:
        return ls[-1]
    if req < ls[0]:
        return ls[0]
    return max(l for l in ls if l < req)


def run(ctx):
    from androguard.core import androconf
    from androguard.core import api_specific_resources as asr
    root = os.path.dirname(os.path.realpath(asr.__file__))
    perm = listing(root, "aosp_permissions")
    maps = listing(root, "api_permission_mappings")
    default = androconf.CONF["DEFAULT_API"]
    ctx.rule = ("every level -5..100 as int and as str through load_permissions('permissions'/'groups'), load_permission_mappings and "
                "load_api_specific_resource_module('aosp_permissions'/'api_permission_mappings'); expected level computed from the directory listing; "
                "result compared with json.load of that file. distinct non-trivial = distinct (loader, requested level, kind) whose expected level differs from the request")
    ctx.assumptions = ["documented rule: exact, else highest below, else lowest/highest available; mappings: exact else DEFAULT_API"]
    cache = {}

    def load(path):
        if path not in cache:
            with open(path) as f:
                cache[path] = json.load(f)
        return cache[path]

    ctx.extra["available_permission_levels"] = sorted(perm)
    ctx.extra["available_mapping_levels"] = sorted(maps)
    shipped_default = default
    other_defaults = [l for l in sorted(maps) if l != shipped_default and load(maps[l]) != {}][:1] + [l for l in sorted(maps, reverse=True) if l != shipped_default and load(maps[l]) != {}][:1]
    for default in [shipped_default] + other_defaults:
        # CONF["DEFAULT_API"] is a setting: the level the mappings fall back to is the one configured when the request is made
        androconf.CONF["DEFAULT_API"] = default
        ctx.count("passes_with_DEFAULT_API=%s" % default)
        for lvl in range(-5, 101):
            for kind in ("int", "str") + (("str-leading-zero", "str-spaces", "str-plus-sign") if lvl >= 0 else ()):
                # whatever int() accepts as the spelling of the level denotes that level
                arg = {"int": lvl, "str": str(lvl), "str-leading-zero": "0%d" % lvl, "str-spaces": " %d\n" % lvl, "str-plus-sign": "+%d" % lvl}[kind]
                el = expected_level_perm(perm, lvl)
                for ptype in ("permissions", "groups"):
                    ctx.ev()
                    ctx.count("load_permissions")
                    try:
                        got = asr.load_permissions(arg, ptype)
                    except Exception as e:
                        ctx.violation("load_permissions-raises", "load_permissions raises", {"level": arg, "type": ptype, "exc": exc_str(e)})
                        continue
                    if got != load(perm[el])[ptype]:
                        ctx.violation("load_permissions-wrong-level", "load_permissions returned data of a different level than the fallback rule selects",
                                      {"level": repr(arg), "type": ptype, "expected_level": el})
                    if el != lvl:
                        ctx.sig("lp", lvl, kind, ptype)
                # module loader, aosp_permissions
                ctx.ev()
                ctx.count("load_api_specific_resource_module")
                try:
                    got = androconf.load_api_specific_resource_module("aosp_permissions", arg)
                    want = load(perm[el])["permissions"]
                    if want == {}:
                        want = load(perm[expected_level_perm(perm, default)])["permissions"]
                    if got != want:
                        mech = "module-int-zero-treated-as-missing" if arg == 0 and got == load(perm[expected_level_perm(perm, default)])["permissions"] else "module-permissions-wrong-level"
                        ctx.violation(mech, "load_api_specific_resource_module('aosp_permissions') returned data of a different level than the rule selects",
                                      {"level": repr(arg), "expected_level": el})
                except Exception as e:
                    ctx.violation("module-raises", "load_api_specific_resource_module raises", {"level": repr(arg), "exc": exc_str(e)})
                # mappings (canonical spellings only: the mapping loader looks the spelling up as it is, another spelling is "a level without a file")
                if kind not in ("int", "str"):
                    continue
                ctx.ev()
                ctx.count("load_permission_mappings")
                try:
                    got = asr.load_permission_mappings(arg)
                    want = load(maps[lvl]) if lvl in maps else {}
                    if got != want:
                        ctx.violation("mappings-direct", "load_permission_mappings returned something else than that level's file (or {} when missing)", {"level": repr(arg)})
                    got = androconf.load_api_specific_resource_module("api_permission_mappings", arg)
                    em = lvl if (lvl in maps and load(maps[lvl]) != {}) else default
                    if got != load(maps[em]):
                        mech = "module-int-zero-treated-as-missing" if arg == 0 else "module-mappings-wrong-level"
                        ctx.violation(mech, "permission mappings did not fall back to the default level / did not load the requested level", {"level": repr(arg), "expected_level": em})
                    if em != lvl:
                        ctx.sig("map", lvl, kind)
                except Exception as e:
                    ctx.violation("mappings-raises", "mapping loader raises", {"level": repr(arg), "exc": exc_str(e)})
    androconf.CONF["DEFAULT_API"] = shipped_default
    # invalid resource name must raise
    ctx.ev()
    try:
        androconf.load_api_specific_resource_module("nonsense", 16)
        ctx.violation("invalid-resource-accepted", "unknown resource name did not raise", {})
    except androconf.InvalidResourceError:
        pass
    ctx.exhaustive = True
    ctx.sample({"request": 8, "expected_permission_level": expected_level_perm(perm, 8)})
    ctx.sample({"request": 11, "expected_permission_level": expected_level_perm(perm, 11)})
    ctx.sample({"request": 100, "expected_permission_level": expected_level_perm(perm, 100), "mapping_level": default})
    ctx.sample({"request": -5, "expected_permission_level": expected_level_perm(perm, -5)})
