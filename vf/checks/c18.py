"""C18 dominators"""
from vf.checks import graphwork


def run(ctx):
    graphwork.run(ctx, "C18")
