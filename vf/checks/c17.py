"""C17 renaming changes exactly the renamed item, for any sequence of renames: random histories of set_name / reload / queries on generated
DEX files, after every step the names of ALL items and the const-string operands are compared with a dictionary model."""
from vf.harness import exc_str
from vf.model import dexw as W

MOD = "vf.checks.c17"
KNOWN_MECHS = ("rename-leaks-to-item-sharing-the-name-string", "renamed-item-overwritten-by-rename-of-item-sharing-the-name-string",
               "string-constant-changed-by-rename-of-item-with-equal-name")


def build(rng):
    """model with deliberately shared name strings; returns (bytes, items) ; items: list of dict(kind, key, orig)"""
    m = W.DexModel()
    pool = ["run", "value", "x"]
    ncls = rng.choice([1, 2, 3])
    items = []
    consts = []
    # in some files the very first pool string (index 0) is the descriptor of a class that gets renamed: no fields of type I, no string sorting before it
    first_string_is_a_class = rng.random() < 0.12
    for ci in range(ncls):
        cname = ("LA/C%d;" if first_string_is_a_class else "Lr/C%d;") % ci
        c = m.add_class(cname)
        items.append({"kind": "class", "key": cname, "orig": cname})
        used = set()
        for j in range(0 if first_string_is_a_class else rng.randrange(1, 4)):
            nm = rng.choice(pool) if rng.random() < 0.6 else "f%d_%d" % (ci, j)
            if nm in used:
                continue
            used.add(nm)
            c.add_field(nm, "I", W.ACC_STATIC if rng.random() < 0.5 else 0)
            items.append({"kind": "field", "key": (cname, nm, "I"), "orig": nm})
        usedm = set()
        for j in range(rng.randrange(1, 4)):
            nm = rng.choice(pool) if rng.random() < 0.6 else "m%d_%d" % (ci, j)
            if nm in usedm:
                continue
            usedm.add(nm)
            body = []
            for _ in range(rng.randrange(0, 3)):
                s = rng.choice(pool + ["hello", "Lr/C0;", "f0_0", "unrelated"])
                body.append(("const-string", 0, W.Str(s)))
                consts.append(((cname, nm), len(body) - 1, s))
            body.append(("return-void",))
            c.add_method(nm, "V", (), W.ACC_STATIC | W.ACC_PUBLIC, W.Code(1, 0, 0, body))
            items.append({"kind": "method", "key": (cname, nm, "()V"), "orig": nm})
    data, w = W.write_dex(m, want_writer=True)
    return data, w, items, consts


def snapshot(d):
    """names a DEX object reports: per class its name, the names of its fields and methods, and its const-string operands"""
    out = []
    for c in d.get_classes():
        cd = c.get_class_data()
        fl = (cd.get_static_fields() + cd.get_instance_fields()) if cd else []
        ml = (cd.get_direct_methods() + cd.get_virtual_methods()) if cd else []
        consts = []
        for m in ml:
            consts += [(m.get_method_idx(), i.get_string()) for i in m.get_instructions() if i.get_op_value() == 0x1A]
        out.append((c.get_class_idx(), c.get_name(), sorted((f.get_field_idx(), f.get_name()) for f in fl), sorted((m.get_method_idx(), m.get_name()) for m in ml), sorted(consts)))
    return sorted(out)


def shard(ctx, arg):
    idx, count = arg
    from androguard.core import dex
    rng = ctx.rng("c17", idx)
    for k in range(count):
        data, w, items, consts = build(rng)
        # a bystander: ANOTHER DEX object of the same bytes, parsed before anything is renamed; whatever is renamed in dx, it keeps its names
        ref = snapshot(dex.DEX(data))     # what an object of these bytes reports when nothing was renamed (the parse itself is C05's / C06's business)
        bystander = dex.DEX(data) if rng.random() < 0.5 else None
        if bystander is not None and rng.random() < 0.5:
            snapshot(bystander)           # half of the bystanders have resolved their names before the renames, half have not
        dx = dex.DEX(data)
        if rng.random() < 0.3:
            # interaction with another feature: the python export (Session(export_ipython=True) does this) keeps per-class attributes that the
            # rename hooks try to update as well
            try:
                dx.create_python_export()
                ctx.count("histories_with_python_export")
            except Exception as e:
                ctx.count("python_export_raises_" + type(e).__name__)
        # bind real objects. Half of the histories bind by pool INDEX without asking any item for its name first, so that the first
        # name query of an item can come after a rename of another item (lazily resolved names must not pick up foreign hooks)
        lazy = rng.random() < 0.5
        objs = {}
        if lazy:
            by_midx, by_fidx, by_cls = {}, {}, {}
            for c in dx.get_classes():
                by_cls[c.get_class_idx()] = c
                cd = c.get_class_data()
                if cd is None:
                    continue
                for em in cd.get_direct_methods() + cd.get_virtual_methods():
                    by_midx[em.get_method_idx()] = em
                for ef in cd.get_static_fields() + cd.get_instance_fields():
                    by_fidx[ef.get_field_idx()] = ef
            for it in items:
                if it["kind"] == "class":
                    objs[id(it)] = by_cls.get(w.tidx[it["key"]])
                elif it["kind"] == "field":
                    objs[id(it)] = by_fidx.get(w.fidx[it["key"]])
                else:
                    objs[id(it)] = by_midx.get(w.midx[(it["key"][0], it["key"][1], "V", ())])
            ctx.count("histories_bound_by_index_without_name_queries")
        else:
            for it in items:
                if it["kind"] == "class":
                    objs[id(it)] = dx.get_class(it["key"])
                elif it["kind"] == "field":
                    objs[id(it)] = dx.get_encoded_field_descriptor(*it["key"])
                else:
                    objs[id(it)] = dx.get_encoded_method_descriptor(*it["key"])
        if any(o is None for o in objs.values()):
            ctx.inconclusive("could not bind generated items")
            continue
        const_ins = []
        for (cname, mname), pos, s in consts:
            em = by_midx[w.midx[(cname, mname, "V", ())]] if lazy else dx.get_encoded_method_descriptor(cname, mname, "()V")
            ins = [i for i in em.get_instructions() if i.get_op_value() == 0x1A]
            const_ins.append((ins[pos], s))
        current = {id(it): it["orig"] for it in items}
        renamed = []  # items renamed so far
        history = []
        nsteps = rng.choice([1, 2, 3, 5, 8, 15, 30])
        counter = 0
        failed = False
        # --- simulation of the KNOWN mechanism (renames hook the shared string index; id items and encoded items cache names):
        # used only to decide whether a divergence is exactly what that mechanism produces (explain-away), never as the oracle
        hook = {}
        mid = {id(it): it["orig"] for it in items if it["kind"] == "method"}
        fid = {id(it): it["orig"] for it in items if it["kind"] == "field"}
        shown = {id(it): it["orig"] for it in items}
        used_new = {"method": [], "field": []}

        def cls_of(it):
            return it["key"] if it["kind"] == "class" else it["key"][0]
        for step in range(nsteps):
            r = rng.random()
            if r < 0.5:
                it = rng.choice(items)
                counter += 1
                if it["kind"] == "class":
                    new = rng.choice(["Lr/Renamed%d;", "Lr/Renamed%d;", "Lr/Outer$Inner%d;", "Lr/-$$Lambda$%d;"]) % counter
                elif used_new[it["kind"]] and rng.random() < 0.3:
                    new = rng.choice(used_new[it["kind"]])  # the same new name given to another item (legal: different class or descriptor... or even a clash)
                else:
                    # any legal member name: javac's synthetic names carry '$', constructors-like names '<' '>', R8 names '-'
                    new = rng.choice(["renamed%d", "renamed%d", "renamed%d", "this$%d", "$VALUES%d", "val$x%d", "<r%d>", "re-named%d", "\u00e9t\u00e9%d"]) % counter
                    if rng.random() < 0.06:
                        new = ""   # not a name a DEX file may contain, but set_name takes any string: the item then reports the empty name
                        ctx.count("renames_to_the_empty_string")
                    used_new[it["kind"]].append(new)
                history.append(("set_name", it["kind"], it["key"], new))
                try:
                    objs[id(it)].set_name(new)
                except Exception as e:
                    ctx.violation("set_name-raises-%s" % it["kind"], "set_name raises", {"history": history, "exc": exc_str(e)})
                    failed = True
                    break
                current[id(it)] = new
                if it not in renamed:
                    renamed.append(it)
                hook[it["orig"]] = new
                if it["kind"] == "method":
                    mid[id(it)] = new
                    shown[id(it)] = new
                elif it["kind"] == "field":
                    fid[id(it)] = new
                    shown[id(it)] = new
                else:
                    shown[id(it)] = new
                    for m2 in items:
                        if m2["kind"] == "method":
                            mid[id(m2)] = hook.get(m2["orig"], m2["orig"])
                    for m2 in items:
                        if m2["kind"] == "method" and cls_of(m2) == it["key"]:
                            shown[id(m2)] = mid[id(m2)]
                        elif m2["kind"] == "field" and cls_of(m2) == it["key"]:
                            shown[id(m2)] = fid[id(m2)]
            elif r < 0.8:
                it = rng.choice(items)
                history.append(("reload", it["kind"], it["key"]))
                try:
                    objs[id(it)].reload()
                except Exception as e:
                    ctx.violation("reload-raises-%s" % it["kind"], "reload raises", {"history": history, "exc": exc_str(e)})
                    failed = True
                    break
                if it["kind"] == "method":
                    shown[id(it)] = mid[id(it)]
                elif it["kind"] == "field":
                    shown[id(it)] = fid[id(it)]
                else:
                    shown[id(it)] = hook.get(it["orig"], it["orig"])
            else:
                history.append(("query",))
            ctx.ev()
            ctx.count("history_steps")
            # compare everything
            for it in items:
                got = objs[id(it)].get_name()
                want = current[id(it)]
                ctx.count("names_compared")
                if got != want:
                    shared_with = [y for y in renamed if y is not it and y["orig"] == it["orig"]]
                    never = it not in renamed
                    if shared_with and got == shown[id(it)]:
                        # exactly what the shared string-index hook produces
                        mech = "rename-leaks-to-item-sharing-the-name-string" if never else "renamed-item-overwritten-by-rename-of-item-sharing-the-name-string"
                    elif shared_with:
                        mech = "rename-divergence-not-explained-by-the-shared-hook-%s" % it["kind"]
                    else:
                        mech = "rename-divergence-%s-%s" % (it["kind"], "never-renamed" if never else "renamed")
                    ctx.violation(mech, "an item does not report its most recent name", {"item": [it["kind"], it["key"]], "got": got, "want": want, "known_mechanism_predicts": shown[id(it)], "history": history})
                    if mech not in KNOWN_MECHS:
                        failed = True  # a history goes on after a divergence that is exactly the known mechanism (the simulation keeps explaining it)
            for ins, s in const_ins:
                ctx.count("constants_compared")
                got = ins.get_string()
                if got != s:
                    shared = [y for y in renamed if y["orig"] == s]
                    mech = "string-constant-changed-by-rename-of-item-with-equal-name" if (shared and got == hook.get(s, s)) else "string-constant-changed"
                    ctx.violation(mech, "a string constant in code changed after a rename", {"constant": s, "got": got, "history": history})
                    if mech not in KNOWN_MECHS:
                        failed = True
            if failed:
                break
        if not failed and any(h[0] == "set_name" for h in history):
            late = dex.DEX(data)           # and a DEX object of the same bytes parsed after the renames
            for label, other in (("parsed-before-the-renames", bystander), ("parsed-after-the-renames", late)):
                if other is None:
                    continue
                ctx.ev()
                ctx.count("bystander_dex_objects_compared")
                got = snapshot(other)
                if got != ref:
                    diff = [(x, y) for x, y in zip(got, ref) if x != y][:3]
                    ctx.violation("rename-changes-another-dex-object-" + label, "after renames in one DEX object another DEX object of the same bytes reports other names",
                                  {"history": history, "differences_got_want": diff})
        names = [it["orig"] for it in items]
        ctx.sig(min(nsteps, 8), len(items), len(names) != len(set(names)), sum(1 for h in history if h[0] == "set_name"), any(h[0] == "reload" for h in history))
        if idx == 0 and k < 3:
            ctx.sample({"items": [(it["kind"], it["key"]) for it in items], "history": history})


def run(ctx):
    ctx.rule = ("random histories (1..30 steps) of set_name on classes/methods/fields (targets biased toward items sharing a name string with other items and with const-string "
                "operands), reload() on random items and queries; after EVERY step get_name() of all items and get_string() of all const-string instructions are compared with a "
                "dictionary model of current names. distinct non-trivial = distinct (length class, #items, shared names?, #renames, reload used?)")
    ctx.assumptions = ["a class rename may legitimately change descriptors that mention the class; only names are compared"]
    n = 1600 if ctx.quick else 500000
    ctx.run_shards(MOD, "shard", [[i, n // 16] for i in range(16)], timeout=3000)
    ctx.require_counter("bystander_dex_objects_compared", 200)
    ctx.require_counter("history_steps", 500)
    ctx.require_counter("names_compared", 2000)
    ctx.min_distinct = 10
