"""C36 concurrent sessions on one database get distinct identifiers.

Real code: androguard.session.Session(db_url='sqlite:///<file>') executed in k real processes (forked from a zygote that imported
androguard once; a pool of 24 persistent workers, each run borrows k of them; a subset of the schedules is repeated with one-shot
children and must agree) under the rendez-vous scheduler vf.monitor.sched.  Pause points: R = dataset Table.__len__ on the session table
(the count that becomes session_id), I = Table.insert of the session row.  ALL interleavings of the per-process sequences R;I are
enumerated by stateless depth-first replay (6 for k=2, 90 for k=3), each on (a) a fresh database file and (b) a database on which
n>=1 sessions were created before (by the same real code, serially).
Extended points S (_sync_table inside insert), C (checkfirst said 'missing', CREATE TABLE next) with I moved directly before the
INSERT statement: exhaustive for k=2 on the fresh database (both tiers; variable number of points per process, enumerated dynamically).
Thorough tier adds: the same on the prepared database, 300+60 seeded random extended schedules for k=3, a database prepared with 3 rows,
and an unscheduled stress run (50 rounds x 16 processes, seeded 0..2 ms sleeps at the hook points, released together from a barrier).

Both tiers also: every R/I interleaving of two processes on a database that already holds 1200 sessions (rows copied with sqlite3: result sets beyond
one fetch chunk of the database layer), and one real-time scenario 'stalled commit' (process 0 is held 30 s - thorough also 45 s on a fresh file - between its
INSERT and the COMMIT while process 1 creates its session). R is ANY read of the session table outside an insert (len, count, find, find_one, all, iteration).

Oracle (parent side, over the recorded history + the table read with the stdlib sqlite3 module):
  every constructor returned (an exception = session not created successfully); returned session_ids pairwise distinct and distinct
  from the pre-existing rows; the table holds exactly the pre-existing rows plus one row per created session.

Domain decisions
  * A pause point is a legal pre-emption point: the code issues count and insert as separate autocommit statements; no lock is held.
  * Watchdog timeouts (a child silent for 60 s) are inconclusive, never violations.
  * Mechanism = <symptom> x <interleaving class of the failing process>:
      symptom: insert-fails-duplicate-id (IntegrityError/UNIQUE on session.id), duplicate-id-returned, id-reuses-existing-row,
               table-creation-race ("table session already exists"), database-locked-at-first-connect ("database is locked" before
               the count was read: the WAL switch of a new file in dataset's on-connect hook; only reachable unscheduled),
               database-locked-after-count, constructor-raises-other, row-count-mismatch
      class:   read-read-before-insert = some other process read its count inside this process's read..insert window (for two
               processes: both reads precede the first insert);  serial-schedule = no such overlap (then the name is
               serial-schedule-fails-<symptom>: a failure the missing transaction cannot explain).
      table-creation-race gets the class suffix check-check-before-create / serial-schedule.
    The unscheduled stress run uses the same names (windows taken from CLOCK_MONOTONIC timestamps recorded in the children).
"""
import json
import os
import shutil
import sqlite3
import tempfile

from vf.monitor import sched

EXPECTED = {2: 6, 3: 90}


def read_ids(path):
    """independent reader of the session table -> sorted list of ids ([] when file/table missing)"""
    if not os.path.exists(path):
        return []
    con = sqlite3.connect("file:%s?mode=ro" % path, uri=True, timeout=30)
    try:
        try:
            return sorted(r[0] for r in con.execute("SELECT id FROM session"))
        except sqlite3.OperationalError as e:
            if "no such table" in str(e):
                return []
            raise
    finally:
        con.close()


def copy_db(src, dst):
    s = sqlite3.connect(src, timeout=30)
    d = sqlite3.connect(dst)
    try:
        s.backup(d)
    finally:
        s.close()
        d.close()


def symptom_of(exc, log=None):
    if "UNIQUE constraint failed" in exc or exc.startswith("IntegrityError"):
        return "insert-fails-duplicate-id"
    if "already exists" in exc:
        return "table-creation-race"
    if "database is locked" in exc or "database table is locked" in exc:
        # where: before the count was read (= while the first connection was being opened: dataset switches a new file to WAL mode
        # in its on-connect hook, which needs the file exclusively) or later
        if log is not None and not any(p == "R" and str(what).startswith("value") for (p, what, _t) in log):
            return "database-locked-at-first-connect"
        return "database-locked-after-count"
    return "constructor-raises-other"


def windows_from_trace(trace, k):
    w = {}
    for pos, (i, _p) in enumerate(trace):
        lo, hi = w.get(i, (pos, pos))
        w[i] = (min(lo, pos), max(hi, pos))
    return w


def windows_from_logs(results):
    w = {}
    for i, r in results.items():
        ts = [t for (_p, _what, t) in r.get("log", [])]
        if ts:
            w[i] = (min(ts), max(ts))
    return w


def overlapping(w, f):
    if f not in w:
        return []
    lo, hi = w[f]
    return sorted(g for g, (a, b) in w.items() if g != f and a <= hi and lo <= b)


def judge(k, pre_ids, results, rows_after, windows):
    """-> list of (mechanism, what, failing child or None, overlaps)"""
    out = []
    created = {}
    for i in range(k):
        r = results.get(i) or results.get(str(i))
        if r is None:
            out.append(("no-result", "a child produced no result", i, []))
            continue
        if r.get("exc"):
            sym = symptom_of(r["exc"], r.get("log"))
            ov = overlapping(windows, i)
            if sym == "table-creation-race":
                mech = "table-creation-race-" + ("check-check-before-create" if ov else "serial-schedule")
            elif sym == "database-locked-at-first-connect":
                mech = sym + ("-concurrent-open" if ov else "-serial-schedule")
            elif ov:
                mech = "%s-read-read-before-insert" % sym
            else:
                mech = "serial-schedule-fails-%s" % sym
            out.append((mech, "Session() raised, the session was not created: %s" % r["exc"][:160], i, ov))
        else:
            created[i] = r["session_id"]
    seen = {}
    for i, sid in sorted(created.items()):
        if sid in seen:
            ov = overlapping(windows, i)
            cls = "read-read-before-insert" if seen[sid] in ov else "serial-schedule"
            mech = "duplicate-id-returned-%s" % cls if cls != "serial-schedule" else "serial-schedule-fails-duplicate-id-returned"
            out.append((mech, "two sessions returned the same session_id %r" % (sid,), i, ov))
        else:
            seen[sid] = i
        if sid in pre_ids:
            ov = overlapping(windows, i)
            mech = "id-reuses-existing-row-read-read-before-insert" if ov else "serial-schedule-fails-id-reuses-existing-row"
            out.append((mech, "a new session got the id %r of a pre-existing session row" % (sid,), i, ov))
    if not out:
        want = sorted(list(pre_ids) + list(created.values()), key=repr)
        if sorted(rows_after, key=repr) != want:
            any_ov = any(overlapping(windows, i) for i in range(k))
            mech = "row-count-mismatch-read-read-before-insert" if any_ov else "serial-schedule-fails-row-count-mismatch"
            out.append((mech, "session table rows %r != pre-existing + created %r" % (rows_after, want), None, []))
    return out


class Env:
    def __init__(self, ctx):
        self.ctx = ctx
        self.root = tempfile.mkdtemp(prefix="vf_c36_")
        self.cwd = os.path.join(self.root, "cwd")
        self.socks = os.path.join(self.root, "sk")
        self.dbs = os.path.join(self.root, "db")
        for d in (self.cwd, self.socks, self.dbs):
            os.mkdir(d)
        self.zy = sched.ZygotePool(2, self.cwd)
        self.pool = sched.WorkerPool(self.zy, self.socks, 24)
        self.n = 0
        self.templates = {}

    def new_db(self, state):
        self.n += 1
        d = os.path.join(self.dbs, "r%d" % self.n)
        os.mkdir(d)
        path = os.path.join(d, "s.db")
        if state != "fresh":
            copy_db(self.templates[state][0], path)
        return path

    def make_template(self, name, n):
        d = os.path.join(self.dbs, "tmpl_%s" % name)
        os.mkdir(d)
        path = os.path.join(d, "s.db")
        for _ in range(n):
            r = sched.run_schedule(self.zy, self.socks, 1, "sqlite:///" + path, [], sched.follow(()), pool=self.pool)
            res = r["results"].get(0, {})
            if r["status"] != "ok" or res.get("exc"):
                raise RuntimeError("could not prepare database: %s %s" % (r["status"], res.get("exc")))
        ids = read_ids(path)
        if ids != list(range(n)):
            raise RuntimeError("prepared database has unexpected ids %r" % ids)
        self.templates[name] = (path, ids)

    def make_big_template(self, name, base, n):
        """a database that already holds n sessions: the row written by the real code (template `base`) copied n-1 times with the stdlib sqlite3 module
        (a long-lived shared database; result sets beyond one fetch chunk of the database layer)"""
        d = os.path.join(self.dbs, "tmpl_%s" % name)
        os.mkdir(d)
        path = os.path.join(d, "s.db")
        copy_db(self.templates[base][0], path)
        con = sqlite3.connect(path)
        try:
            cols = [r[1] for r in con.execute("PRAGMA table_info(session)")]
            others = [c for c in cols if c != "id"]
            sql = "INSERT INTO session (id%s) SELECT ?%s FROM session WHERE id = 0" % ("".join(", " + c for c in others), "".join(", " + c for c in others))
            con.executemany(sql, [(i,) for i in range(1, n)])
            con.commit()
        finally:
            con.close()
        ids = read_ids(path)
        if ids != list(range(n)):
            raise RuntimeError("prepared database has unexpected ids %r" % ids[:5])
        self.templates[name] = (path, ids)

    def pre_ids(self, state):
        return [] if state == "fresh" else list(self.templates[state][1])

    def close(self):
        try:
            try:
                self.pool.close()
            finally:
                self.zy.close()
        finally:
            shutil.rmtree(self.root, ignore_errors=True)


def evaluate(ctx, env, cfgname, k, state, r, path, mode):
    """apply the oracle to one finished run"""
    if r["status"] != "ok":
        ctx.count("watchdog_runs")
        ctx.inconclusive("watchdog in %s schedule %r: %s" % (cfgname, r.get("schedule"), r["status"]))
        return None
    ctx.ev()
    ctx.count("constructors_run", k)
    ctx.count("schedules_run_" + mode)
    pre = env.pre_ids(state)
    rows = read_ids(path)
    results = {int(i): v for i, v in r["results"].items()}
    if mode == "stress":
        windows = windows_from_logs(results)
    else:
        windows = windows_from_trace(r["trace"], k)
    for i, res in results.items():
        for (p, what, _t) in res.get("log", []):
            if p == "R" and what.startswith("value"):
                ctx.count("hook_R_count_reads")
            if p == "I" and what.startswith("begin"):
                ctx.count("hook_I_inserts")
    verdicts = judge(k, pre, results, rows, windows)
    sched_s = r.get("schedule", "")
    ctx.sig(mode, k, state, sched_s if mode != "stress" else r.get("round"))
    summary = {i: ({"session_id": v.get("session_id")} if not v.get("exc") else {"exc": v["exc"][:300]}) for i, v in sorted(results.items())}
    for mech, what, f, ov in verdicts:
        ctx.violation(mech, what, {"mode": mode, "k": k, "db_state": state, "pre_existing_ids": pre, "schedule": sched_s,
                                    "failing_child": f, "window_overlaps_with": ov, "results": summary, "rows_after": rows,
                                    "points": "R=count rows, I=insert row, S=_sync_table in insert, C=checkfirst passed/CREATE next; digit=process"})
    fs = ctx.extra.setdefault("schedules", {}).setdefault(cfgname, {"failing": {}, "passing": 0, "failing_count": 0, "failing_by_mechanism": {}})
    if verdicts:
        ctx.count("failing_schedules")
        fs["failing_count"] += 1
        for m in sorted(set(v[0] for v in verdicts)):
            fs["failing_by_mechanism"][m] = fs["failing_by_mechanism"].get(m, 0) + 1
        if len(fs["failing"]) < 120:
            fs["failing"][sched_s or "round%s" % r.get("round")] = sorted(set(v[0] for v in verdicts))
    else:
        fs["passing"] += 1
        ctx.count("passing_schedules")
    return verdicts


def exhaustive(ctx, env, k, state, points, mode, max_runs=None, workers=8, pooled=True):
    cfgname = "%s/k%d/%s%s" % (mode, k, state, "" if pooled else "/one-shot-children")
    paths = {}

    def run_prefix(prefix):
        path = env.new_db(state)
        r = sched.run_schedule(env.zy, env.socks, k, "sqlite:///" + path, points, sched.follow(prefix), pool=env.pool if pooled else None)
        paths[id(r)] = path
        r["_path"] = path
        return r
    results, complete = sched.explore_all(run_prefix, workers=workers, max_runs=max_runs, rng=ctx.rng("c36-frontier", cfgname))
    seen = set()
    for r in results:
        chosen = [t[0] for t in r["trace"]]
        if r["status"] == "ok" and chosen[:len(r["prefix"])] != r["prefix"]:
            ctx.inconclusive("replay diverged from its prefix in %s (system not deterministic)" % cfgname)
            complete = False
        evaluate(ctx, env, cfgname, k, state, r, r["_path"], mode)
        if r["status"] == "ok":
            seen.add(r["schedule"])
        shutil.rmtree(os.path.dirname(r["_path"]), ignore_errors=True)
    ctx.extra.setdefault("distinct_interleavings", {})[cfgname] = len(seen)
    ctx.count("distinct_interleavings", len(seen))
    if len(seen) != len([r for r in results if r["status"] == "ok"]):
        ctx.inconclusive("an interleaving was executed twice in %s (enumeration bug)" % cfgname)
    return len(seen), complete, results


def sampled(ctx, env, k, state, points, mode, n, workers=8):
    from concurrent.futures import ThreadPoolExecutor
    cfgname = "%s/k%d/%s" % (mode, k, state)

    def one(j):
        path = env.new_db(state)
        r = sched.run_schedule(env.zy, env.socks, k, "sqlite:///" + path, points, sched.random_chooser(ctx.rng("c36-sampled", cfgname, j)), pool=env.pool)
        r["_path"] = path
        return r
    with ThreadPoolExecutor(max_workers=workers) as ex:
        results = list(ex.map(one, range(n)))
    seen = set()
    for r in results:
        if r["status"] == "ok" and r["schedule"] in seen:
            shutil.rmtree(os.path.dirname(r["_path"]), ignore_errors=True)
            continue
        seen.add(r.get("schedule"))
        evaluate(ctx, env, cfgname, k, state, r, r["_path"], mode)
        shutil.rmtree(os.path.dirname(r["_path"]), ignore_errors=True)
    ctx.extra.setdefault("distinct_interleavings", {})[cfgname] = len(seen)
    ctx.count("distinct_interleavings", len(seen))


def stress(ctx, env, nproc, nrounds, states, pooled=True):
    plan = [states[r % len(states)] for r in range(nrounds)]
    paths = [env.new_db(s) for s in plan]
    rounds = sched.run_unscheduled(env.zy, env.socks, nproc, ["sqlite:///" + p for p in paths], ["R", "I"], "%s/c36-stress" % ctx.seed, 2.0,
                                   pool=env.pool if pooled else None)
    for rd in rounds:
        state = plan[rd["round"]]
        rd["schedule"] = ""
        if rd["status"] == "ok":
            ctx.count("stress_rounds")
        evaluate(ctx, env, "stress/k%d/%s" % (nproc, state), nproc, state, rd, paths[rd["round"]], "stress")
    if len(rounds) < nrounds:
        ctx.inconclusive("stress run stopped after %d of %d rounds" % (len(rounds), nrounds))


def stalled_commit(ctx, env, state, seconds):
    """injected delay INSIDE a transaction: process 0 executes its INSERT and is then held for `seconds` before the COMMIT (a descheduled process, a slow
    fsync); process 1 starts one second after process 0 and has to wait for the lock. Both sessions must exist afterwards. (Real time: the only
    scenario of this check that is not a logical schedule; the hold is far below what the unchanged code tolerates.)"""
    path = env.new_db(state)
    rounds = sched.run_unscheduled(env.zy, env.socks, 2, ["sqlite:///" + path], ["R", "I", "X"], "%s/c36-stall" % ctx.seed, 0.0, timeout=seconds * 6 + 120,
                                   pool=None, stalls={0: {"X": seconds}, 1: {"R": 1.0}})
    for rd in rounds:
        rd["schedule"] = "0 held %ds between INSERT and COMMIT, 1 started meanwhile" % seconds
        if rd["status"] == "ok":
            ctx.count("stalled_commit_rounds")
            held = any(p == "X" for res in rd["results"].values() for (p, _w, _t) in res.get("log", []))
            if not held:
                ctx.count("stalled_commit_point_not_reached")
        evaluate(ctx, env, "stalled-commit/%ds/%s" % (seconds, state), 2, state, rd, path, "stress")


def outcome_map(results):
    out = {}
    for r in results:
        if r["status"] != "ok":
            continue
        out[r["schedule"]] = sorted((int(i), v.get("session_id"), symptom_of(v["exc"]) if v.get("exc") else None) for i, v in r["results"].items())
    return out


def all_complete_flag(ctx):
    return bool(ctx.exhaustive)


def run(ctx):
    ctx.rule = ("one run = k real processes constructing Session() on one SQLite file under one schedule; distinct non-trivial = distinct "
                "(mode, k, database state, schedule string); every R/I interleaving for k=2 (6) and k=3 (90) on a fresh and on a prepared database")
    ctx.assumptions = [
        "operations between pause points are atomic in the replay (one process runs at a time); pause points are places where the OS may pre-empt",
        "processes are forked from a zygote that imported androguard.session and hold no database connection at fork time; pool workers "
        "serve one constructor call per run and close what it opened before reporting (cross-checked against one-shot children)",
        "SQLite file databases in WAL mode as dataset.connect() configures them; 5 s default busy timeout",
    ]
    env = None
    try:
        try:
            env = Env(ctx)
            env.make_template("prepared1", 1)
            if not ctx.quick:
                env.make_template("prepared3", 3)
            env.make_big_template("prepared1200", "prepared1", 1200)
        except sched.Watchdog as e:
            ctx.inconclusive("watchdog while preparing: %s" % e)
            return
        ctx.extra["session_module"] = env.zy.info.get("session_file")
        states = ["fresh", "prepared1"] + ([] if ctx.quick else ["prepared3"])
        all_complete = True
        pooled_results = {}
        for k in (2, 3):
            for state in states + (["prepared1200"] if k == 2 or not ctx.quick else []):
                cap = 150 if ctx.quick else 1500
                n, complete, results = exhaustive(ctx, env, k, state, ["R", "I"], "RI", max_runs=cap)
                pooled_results[(k, state)] = results
                all_complete &= complete
                plain = all(len(r["trace"]) == 2 * k for r in results if r["status"] == "ok")
                if plain:
                    # every constructor passed exactly R then I: the tree is the set of interleavings of k sequences R;I
                    if complete and n != EXPECTED[k]:
                        ctx.inconclusive("enumerated %d interleavings for k=%d on %s, expected %d" % (n, k, state, EXPECTED[k]))
                        all_complete = False
                else:
                    # the implementation passes the points more than once (e.g. it retries): the tree is larger and possibly
                    # unbounded; it is explored up to the cap, in random frontier order
                    ctx.count("runs_with_repeated_points", sum(1 for r in results if len(r["trace"]) != 2 * k))
                    if not complete and n < EXPECTED[k]:
                        ctx.inconclusive("only %d interleavings explored for k=%d on %s" % (n, k, state))
        ctx.exhaustive = bool(all_complete)
        # cross-check of the machinery: the same schedules with one-shot children (fork per constructor, process ends after the
        # report) must give the same outcome as the pooled workers
        cross = [(2, "fresh"), (2, "prepared1")] + ([] if ctx.quick else [(3, "fresh")])
        for (k, state) in cross:
            _n, _c, res2 = exhaustive(ctx, env, k, state, ["R", "I"], "RI", max_runs=150, pooled=False)
            a, b = outcome_map(pooled_results[(k, state)]), outcome_map(res2)
            common = set(a) & set(b)
            ctx.count("cross_checked_schedules", len(common))
            diff = sorted(s_ for s_ in common if a[s_] != b[s_])
            if diff or (all_complete and _c and set(a) != set(b)):
                ctx.inconclusive("pooled workers and one-shot children disagree on k=%d %s: %r" % (k, state, [(d, a[d], b[d]) for d in diff[:3]]))
        # extended points (S, C): the lazy CREATE TABLE inside the first insert on an empty file is part of "created successfully"
        _n, ext_complete, _r = exhaustive(ctx, env, 2, "fresh", ["R", "S", "C", "I"], "RSCI", max_runs=150 if ctx.quick else 600)
        ctx.extra["exhaustive_scope"] = ("exhaustive=true refers to the R/I interleavings for k=2,3 on every database state; "
                                         "extended R/S/C/I enumeration for k=2 on the fresh database complete: %s" % ext_complete)
        stalled_commit(ctx, env, "prepared1", 30)
        if not ctx.quick:
            stalled_commit(ctx, env, "fresh", 45)
            exhaustive(ctx, env, 2, "prepared1", ["R", "S", "C", "I"], "RSCI", max_runs=600)
            sampled(ctx, env, 3, "fresh", ["R", "S", "C", "I"], "RSCI", 300)
            sampled(ctx, env, 3, "prepared1", ["R", "S", "C", "I"], "RSCI", 60)
            stress(ctx, env, 16, 40, ["fresh", "prepared1", "prepared3"])
            stress(ctx, env, 16, 10, ["fresh", "prepared1"], pooled=False)
        ctx.extra["processes_forked"] = env.zy.spawned
        ctx.extra["pool_runs"] = env.pool.runs
        for cfg, v in sorted(ctx.extra.get("schedules", {}).items()):
            ctx.sample({"config": cfg, "passing": v["passing"], "failing": v["failing_count"], "by_mechanism": v["failing_by_mechanism"], "failing_examples": dict(list(sorted(v["failing"].items()))[:3])})
    finally:
        if env:
            env.close()
    ctx.require_counter("hook_R_count_reads", 100)
    ctx.require_counter("hook_I_inserts", 100)
    ctx.require_counter("distinct_interleavings", 2 * (6 + 90))
    ctx.require_counter("cross_checked_schedules", 12)
    if not all_complete_flag(ctx):
        ctx.extra["note"] = "exploration truncated at the cap: not exhaustive"
    ctx.min_distinct = 150


def replay(ctx, path):
    """re-run the stored schedules (scheduled modes only)"""
    with open(path) as f:
        j = json.load(f)
    ctx.rule = "replay of stored schedules"
    ctx.min_distinct = 1
    env = Env(ctx)
    try:
        env.make_template("prepared1", 1)
        env.make_template("prepared3", 3)
        for w in j["witnesses"]:
            if w["mode"] == "stress":
                continue
            toks = w["schedule"].split()
            prefix = tuple(int(t[-1]) for t in toks)
            points = ["R", "I"] if w["mode"] == "RI" else ["R", "S", "C", "I"]
            p = env.new_db(w["db_state"])
            r = sched.run_schedule(env.zy, env.socks, w["k"], "sqlite:///" + p, points, sched.follow(prefix))
            evaluate(ctx, env, "replay", w["k"], w["db_state"], r, p, w["mode"])
            ctx.sample({"schedule": r["schedule"], "results": {i: (v.get("session_id"), v.get("exc")) for i, v in r["results"].items()}})
    finally:
        env.close()
