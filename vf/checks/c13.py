"""C13 (shared workload: vf/checks/xrefwork.py)"""
from vf.checks import xrefwork


def run(ctx):
    xrefwork.run(ctx, "C13")
